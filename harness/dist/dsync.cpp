// C18 + C19 binding: an MPI program (1..4 hosts) that partitions a graph file with a CuSP policy, dumps every
// host's local graph (C19: nodes in local id order with owner, edges with global ids and data, mirror lists), and
// then runs rounds of "write contributions at proxies eligible for a write location, Gluon sync, dump all proxies"
// for min / add / max fields over all write/read location pairs, with and without update bitset and with every
// enforced wire encoding (C18).  One log per host; TLC judges the merged logs (TraceGluon.tla).
//   mpirun -n H dsync <out-prefix> <seed> <tier> <graph.gr> <graph.tgr> <policy> <rounds>
#include "vh/json.h"
#include "galois/Galois.h"
#include "galois/DistGalois.h"
#include "galois/graphs/CuSPPartitioner.h"
#include "galois/graphs/GluonSubstrate.h"
#include "galois/runtime/SyncStructures.h"
#include "galois/DTerminationDetector.h"

using vh::Rec;
typedef std::vector<long long> VL;
typedef std::vector<VL> VVL;

struct NodeData { std::atomic<uint32_t> vmin; std::atomic<uint32_t> vadd; std::atomic<uint32_t> vmax; std::atomic<uint32_t> vset; };
galois::DynamicBitSet bitset_vmin, bitset_vadd, bitset_vmax, bitset_vset;
typedef galois::graphs::DistGraph<NodeData, uint32_t> Graph;
typedef galois::graphs::GluonSubstrate<Graph> Substrate;
GALOIS_SYNC_STRUCTURE_REDUCE_MIN(vmin, uint32_t);
GALOIS_SYNC_STRUCTURE_BITSET(vmin);
GALOIS_SYNC_STRUCTURE_REDUCE_ADD(vadd, uint32_t);
GALOIS_SYNC_STRUCTURE_BITSET(vadd);
GALOIS_SYNC_STRUCTURE_REDUCE_MAX(vmax, uint32_t);
GALOIS_SYNC_STRUCTURE_BITSET(vmax);
GALOIS_SYNC_STRUCTURE_REDUCE_SET(vset, uint32_t);
GALOIS_SYNC_STRUCTURE_BITSET(vset);

static std::unique_ptr<Graph> partition(const std::string& policy, const std::string& gr, const std::string& tgr) {
  using namespace galois;
  // (policy, stored orientation): "-t" variants keep the transposed (CSC) graph, as pull-style applications do
  if (policy == "oec") return cuspPartitionGraph<NoCommunication, NodeData, uint32_t>(gr, CUSP_CSR, CUSP_CSR, false, tgr);
  if (policy == "iec") return cuspPartitionGraph<NoCommunication, NodeData, uint32_t>(gr, CUSP_CSC, CUSP_CSR, false, tgr);
  if (policy == "oec-t") return cuspPartitionGraph<NoCommunication, NodeData, uint32_t>(gr, CUSP_CSR, CUSP_CSC, false, tgr);
  if (policy == "iec-t") return cuspPartitionGraph<NoCommunication, NodeData, uint32_t>(gr, CUSP_CSC, CUSP_CSC, false, tgr);
  if (policy == "hovc") return cuspPartitionGraph<GenericHVC, NodeData, uint32_t>(gr, CUSP_CSR, CUSP_CSR, false, tgr);
  if (policy == "hivc") return cuspPartitionGraph<GenericHVC, NodeData, uint32_t>(gr, CUSP_CSC, CUSP_CSR, false, tgr);
  if (policy == "cvc") return cuspPartitionGraph<GenericCVC, NodeData, uint32_t>(gr, CUSP_CSR, CUSP_CSR, false, tgr);
  if (policy == "cvc-iec") return cuspPartitionGraph<GenericCVC, NodeData, uint32_t>(gr, CUSP_CSC, CUSP_CSR, false, tgr);
  if (policy == "cvc-t") return cuspPartitionGraph<GenericCVCColumnFlip, NodeData, uint32_t>(gr, CUSP_CSR, CUSP_CSC, false, tgr);
  if (policy == "ginger-o") return cuspPartitionGraph<GingerP, NodeData, uint32_t>(gr, CUSP_CSR, CUSP_CSR, false, tgr);
  if (policy == "ginger-i") return cuspPartitionGraph<GingerP, NodeData, uint32_t>(gr, CUSP_CSC, CUSP_CSR, false, tgr);
  if (policy == "fennel-o") return cuspPartitionGraph<FennelP, NodeData, uint32_t>(gr, CUSP_CSR, CUSP_CSR, false, tgr);
  if (policy == "fennel-i") return cuspPartitionGraph<FennelP, NodeData, uint32_t>(gr, CUSP_CSC, CUSP_CSR, false, tgr);
  if (policy == "sugar-o") return cuspPartitionGraph<SugarP, NodeData, uint32_t>(gr, CUSP_CSR, CUSP_CSR, false, tgr);
  if (policy == "sym-oec") return cuspPartitionGraph<NoCommunication, NodeData, uint32_t>(gr, CUSP_CSR, CUSP_CSR, true, tgr);
  if (policy == "sym-cvc") return cuspPartitionGraph<GenericCVC, NodeData, uint32_t>(gr, CUSP_CSR, CUSP_CSR, true, tgr);
  fprintf(stderr, "unknown policy %s\n", policy.c_str());
  exit(2);
}

static Graph* G;
static Substrate* S;
static vh::Out* out;
static unsigned me, H;
static std::vector<char> hasOut, hasIn;

enum Field { F_MIN = 0, F_ADD = 1, F_MAX = 2, F_SET = 3 };   // F_SET: plain assignment; at most one proxy of a node is written per round
static uint32_t m0(Field f, uint64_t gid, int round) {   // the master's value at the start of a round
  uint32_t base = 1000 + (uint32_t)((gid * 7 + round * 13) % 500);
  return f == F_ADD ? 1 + base % 50 : base;   // never the identity, so that a refreshed mirror is recognisable
}
static std::atomic<uint32_t>& fld(NodeData& d, Field f) { return f == F_MIN ? d.vmin : f == F_ADD ? d.vadd : f == F_MAX ? d.vmax : d.vset; }
static galois::DynamicBitSet& bits(Field f) { return f == F_MIN ? bitset_vmin : f == F_ADD ? bitset_vadd : f == F_MAX ? bitset_vmax : bitset_vset; }

template <WriteLocation W, ReadLocation R, bool UseBitset, bool Async> static void doSync(Field f) {
  if (UseBitset) {
    if (f == F_MIN) S->sync<W, R, Reduce_min_vmin, Bitset_vmin, Async>("verif");
    else if (f == F_ADD) S->sync<W, R, Reduce_add_vadd, Bitset_vadd, false>("verif");
    else if (f == F_SET) S->sync<W, R, Reduce_set_vset, Bitset_vset, false>("verif");
    else S->sync<W, R, Reduce_max_vmax, Bitset_vmax, Async>("verif");
  } else {
    if (f == F_MIN) S->sync<W, R, Reduce_min_vmin, galois::InvalidBitsetFnTy, Async>("verif");
    else if (f == F_ADD) S->sync<W, R, Reduce_add_vadd, galois::InvalidBitsetFnTy, false>("verif");
    else if (f == F_SET) S->sync<W, R, Reduce_set_vset, galois::InvalidBitsetFnTy, false>("verif");
    else S->sync<W, R, Reduce_max_vmax, galois::InvalidBitsetFnTy, Async>("verif");
  }
}
template <bool UseBitset, bool Async> static void dispatch(int w, int r, Field f) {
  switch (w * 3 + r) {
  case 0: doSync<writeSource, readSource, UseBitset, Async>(f); break;
  case 1: doSync<writeSource, readDestination, UseBitset, Async>(f); break;
  case 2: doSync<writeSource, readAny, UseBitset, Async>(f); break;
  case 3: doSync<writeDestination, readSource, UseBitset, Async>(f); break;
  case 4: doSync<writeDestination, readDestination, UseBitset, Async>(f); break;
  case 5: doSync<writeDestination, readAny, UseBitset, Async>(f); break;
  case 6: doSync<writeAny, readSource, UseBitset, Async>(f); break;
  case 7: doSync<writeAny, readDestination, UseBitset, Async>(f); break;
  default: doSync<writeAny, readAny, UseBitset, Async>(f); break;
  }
}
// bulk-asynchronous execution of one sync (what the Async execution model of the applications does): syncs that do not wait
// for their messages are repeated until the distributed termination detector finds every host idle and nothing in flight
template <bool UseBitset> static long asyncLoop(int w, int r, Field f, unsigned localWrites) {
  galois::DGTerminator<unsigned int> dga;
  long iters = 0;
  bool first = true;
  do {
    dga.reset();
    if (first) dga += localWrites;
    first = false;
    dispatch<UseBitset, true>(w, r, f);
    ++iters;
    if (getenv("DSYNC_DEBUG") && iters % 20000 == 0) { auto& net = galois::runtime::getSystemNetworkInterface(); fprintf(stderr, "[%u] async iters=%ld sends=%d recvs=%d local=%u\n", me, iters, (int)net.anyPendingSends(), (int)net.anyPendingReceives(), (unsigned)dga.read_local()); }
  } while (dga.reduce(S->get_run_identifier()) && iters < 100000);
  return iters;
}

int main(int argc, char** argv) {
  if (argc < 8) { fprintf(stderr, "usage: dsync out-prefix seed tier graph.gr graph.tgr policy rounds\n"); return 2; }
  galois::DistMemSys Gsys;
  auto& net = galois::runtime::getSystemNetworkInterface();
  me = net.ID; H = net.Num;
  vh::Out o((std::string(argv[1]) + "." + std::to_string(me) + ".ndjson").c_str());
  out = &o;
  uint64_t seed = strtoull(argv[2], 0, 10);
  std::string policy = argv[6];
  int rounds = atoi(argv[7]);
  // threads per host: 1..4, chosen from the seed (the same on every host)
  unsigned nthreads = galois::setActiveThreads(1 + (unsigned)(seed % 4));
  std::unique_ptr<Graph> g = partition(policy, argv[4], argv[5]);
  G = g.get();
  // ---- C19: the local graph of this host
  {
    VVL nodes, edges, mirrors;
    long long mapsOK = 1, foreignSrc = 0, foreignDst = 0;
    bool big = G->globalSize() > 64;       // large graphs: counts only (the complete dump is for TLC)
    hasOut.assign(G->size(), 0); hasIn.assign(G->size(), 0);
    std::vector<char> here(G->globalSize(), 0);
    for (uint32_t l = 0; l < G->size(); ++l) {
      uint64_t gid = G->getGID(l);
      if (G->getLID(gid) != l || !G->isLocal(gid) || gid >= G->globalSize() || here[gid]) mapsOK = 0;
      if (gid < G->globalSize()) here[gid] = 1;
      if (!big) nodes.push_back({(long long)gid, G->isOwned(gid) ? 1 : 0, (long long)G->getHostID(gid)});
      for (auto e = G->edge_begin(l); e != G->edge_end(l); ++e) {
        uint32_t d = G->getEdgeDst(e);
        if (!big) edges.push_back({(long long)gid, (long long)G->getGID(d), (long long)G->getEdgeData(e)});
        if (!G->isOwned(gid)) ++foreignSrc;
        if (!G->isOwned(G->getGID(d))) ++foreignDst;
        hasOut[l] = 1; hasIn[d] = 1;
      }
    }
    auto& mn = G->getMirrorNodes();
    long long mirrorsOK = 1, nmirrorsListed = 0;
    for (unsigned h = 0; h < mn.size(); ++h) {
      VL v; v.push_back(h);
      for (auto x : mn[h]) { v.push_back((long long)x); ++nmirrorsListed; if (!G->isLocal(x) || G->isOwned(x) || G->getHostID(x) != h) mirrorsOK = 0; }
      if (!big) mirrors.push_back(v);
    }
    long long notLocalOK = 1;   // global ids without a proxy here must not be reported local
    for (uint64_t gid = 0; gid < G->globalSize(); ++gid) if (G->isLocal(gid) != (bool)here[gid]) notLocalOK = 0;
    bool reversed = policy == "oec-t" || policy == "iec-t" || policy == "cvc-t";
    Rec r;
    r.str("ev", big ? "partsum" : "part").i("h", me).i("hosts", H).str("policy", policy).i("transposed", G->isTransposed() ? 1 : 0).i("reversed", reversed ? 1 : 0)
        .i("vcut", G->is_vertex_cut() ? 1 : 0).i("gn", G->globalSize()).i("gm", G->globalSizeEdges()).i("nmasters", G->numMasters()).i("withedges", G->getNumNodesWithEdges())
        .i("mapsok", mapsOK).i("localok", notLocalOK);
    if (big) r.i("nnodes", G->size()).i("nedges", G->sizeEdges()).i("foreignsrc", foreignSrc).i("foreigndst", foreignDst).i("mirrorsok", mirrorsOK)
                 .i("nmirrors", (long long)G->size() - (long long)G->numMasters()).i("listed", nmirrorsListed);
    else r.raw("nodes", vh::jarr2(nodes)).raw("edges", vh::jarr2(edges)).raw("mirrors", vh::jarr2(mirrors));
    out->line(r);
    out->flush();
  }
  // ---- C18: sync rounds
  Substrate sub(*g, net.ID, net.Num, g->isTransposed(), g->cartesianGrid(), false, noData);
  S = &sub;
  bitset_vmin.resize(G->size()); bitset_vadd.resize(G->size()); bitset_vmax.resize(G->size()); bitset_vset.resize(G->size());
  static const DataCommMode modes[] = {noData, bitsetData, offsetsData, gidsData, onlyData};
  for (int round = 0; round < rounds; ++round) {
    vh::Rng pr(seed * 7919 + round);           // the plan of a round is the same on every host
    int w = (int)pr.below(3), r = (int)pr.below(3);
    Field f = (Field)(pr.below(2) == 0 ? 1 : pr.below(4));     // add fields (the delicate ones) in more than half of the rounds
    bool useBitset = pr.below(4) != 0;
    DataCommMode mode = modes[pr.below(5)];
    int density = (int)pr.below(5);            // 0: nothing written, 1: sparse, 2: half, 3: everything eligible, 4: all but one or two
    enforcedDataMode = mode;
    // initial state of the round: masters hold m0, mirrors hold m0 (min / max: the last broadcast value) or the identity (add)
    for (uint32_t l = 0; l < G->size(); ++l) {
      uint64_t gid = G->getGID(l);
      fld(G->getData(l), f) = (f == F_ADD && !G->isOwned(gid)) ? 0u : m0(f, gid, round);
    }
    bits(f).reset();
    out->line(Rec().str("ev", "round").i("h", me).i("round", round).i("w", w).i("r", r).i("f", (int)f).i("bitset", useBitset ? 1 : 0).i("mode", (int)mode).i("density", density).i("threads", nthreads));
    // the operator: contributions at proxies eligible for the write location (in terms of the stored local edges).
    // Add fields carry deltas: half of their rounds consist of two write+sync steps without re-initialisation, the second
    // one writing only at masters and at mirrors the first broadcast did not refresh -- a mirror that was not reset after
    // its value was sent would contribute its old delta again.
    // (only with an update bitset and not with the enforced dense encoding: otherwise every mirror's content is sent in every
    // sync, refreshed totals included, and an application has to consume them first)
    bool twoStep = f == F_ADD && pr.below(4) != 0 && useBitset && mode != onlyData;
    // Without an update bitset a reduce sends every mirror and must leave each of them at the identity.  Two syncs follow
    // each other here as well, but the way an application has to use such a field: what a broadcast put into a mirror is
    // consumed (the mirror is cleared) before the next step, and the second step writes at masters only.  A mirror that was
    // sent but not reset would be sent -- and counted -- a second time.
    bool twoStepNB = f == F_ADD && !useBitset && !twoStep && pr.below(2) == 0;
    if (twoStepNB) twoStep = true;
    if (twoStep && pr.below(3) != 0) { mode = noData; enforcedDataMode = mode; }   // let get_data_mode() choose
    // min / max fields (monotone reductions) also under bulk-asynchronous execution; only with the default (non-enforced) or
    // any enforced encoding; never for add fields
    // (only with an update bitset and not with the enforced dense encoding: those send everything again in every sync, so the
    // execution never becomes quiescent -- recorded as finding D17 for the applications' --metadata=none --exec=Async)
    bool asyncRound = (f == F_MIN || f == F_MAX) && pr.below(3) == 0 && useBitset && mode != onlyData;
    // assignment needs the update bitset and a selective encoding as well: a dense message would overwrite the master with
    // the (old) values of proxies nobody wrote
    if (f == F_SET && (!useBitset || mode == onlyData)) { useBitset = true; if (mode == onlyData) { mode = noData; enforcedDataMode = mode; } }
    std::vector<uint32_t> mine(G->size(), 0);   // this host's own contribution of the first step, per proxy
    vh::Rng wr(seed * 104729 + round * 64 + me);
    for (int step = 0; step < (twoStep ? 2 : 1); ++step) {
      unsigned nwrites = 0;
      if (twoStepNB && step == 1)
        for (uint32_t l = 0; l < G->size(); ++l)
          if (!G->isOwned(G->getGID(l))) { auto& x = fld(G->getData(l), f); if (x.load() != mine[l]) x = 0; }   // changed by the sync (refreshed): consumed
      std::vector<uint32_t> pre(G->size());
      {
        VVL pv;
        for (uint32_t l = 0; l < G->size(); ++l) { pre[l] = fld(G->getData(l), f).load(); pv.push_back({(long long)G->getGID(l), G->isOwned(G->getGID(l)) ? 1 : 0, (long long)pre[l]}); }
        out->line(Rec().str("ev", "pre").i("h", me).i("round", round).i("step", step).raw("px", vh::jarr2(pv)));
      }
      for (uint32_t l = 0; l < G->size(); ++l) {
        bool eligible = w == 0 ? hasOut[l] : w == 1 ? hasIn[l] : true;
        bool readable = r == 0 ? hasOut[l] : r == 1 ? hasIn[l] : true;
        (void)readable;
        // second step: masters, and mirrors that hold the identity or still their own first-step contribution (i.e. that the
        // first broadcast did not refresh); a refreshed mirror holds the total, which an application consumes first
        if (step == 1 && twoStepNB && !G->isOwned(G->getGID(l))) eligible = false;
        if (step == 1 && !G->isOwned(G->getGID(l))) { uint32_t now = fld(G->getData(l), f).load(); if (!(now == 0 || (mine[l] != 0 && now == mine[l]))) eligible = false; }
        if (f == F_SET && (G->getGID(l) + (uint64_t)round) % H != me) eligible = false;     // one designated writer host per node
        if (!eligible || density == 0) continue;
        if (step == 1) goto write;     // second step: every proxy that may be written is
        if (density == 1 && wr.below(8) != 0) continue;
        if (density == 2 && wr.below(2) != 0) continue;
        if (density == 4 && wr.below(6) == 0) continue;
      write:
        uint32_t c = f == F_ADD ? 1 + (uint32_t)wr.below(9) : 900 + (uint32_t)wr.below(700);
        auto& x = fld(G->getData(l), f);
        if (f == F_MIN) galois::atomicMin(x, c); else if (f == F_ADD) galois::atomicAdd(x, c); else if (f == F_MAX) galois::atomicMax(x, c); else x = c;
        bits(f).set(l);
        if (step == 0) mine[l] = c;
        ++nwrites;
        out->line(Rec().str("ev", "write").i("h", me).i("round", round).i("gid", G->getGID(l)).i("c", c).i("step", step));
      }
      long iters = 1;
      if (asyncRound) iters = useBitset ? asyncLoop<true>(w, r, f, nwrites) : asyncLoop<false>(w, r, f, nwrites);
      else if (useBitset) dispatch<true, false>(w, r, f); else dispatch<false, false>(w, r, f);
      VVL px;
      for (uint32_t l = 0; l < G->size(); ++l) {
        uint64_t gid = G->getGID(l);
        px.push_back({(long long)gid, G->isOwned(gid) ? 1 : 0, hasOut[l], hasIn[l], (long long)pre[l], (long long)fld(G->getData(l), f).load()});
      }
      out->line(Rec().str("ev", "proxies").i("h", me).i("round", round).i("step", step).i("async", asyncRound ? 1 : 0).i("iters", iters).raw("px", vh::jarr2(px)));
    }
    out->flush();
    galois::runtime::getHostBarrier().wait();
  }
  out->line(Rec().str("ev", "end").i("h", me));
  out->flush();
  return 0;
}
