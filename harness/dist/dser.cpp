// C17 binding (serialisation half): every supported type and concatenations of them are serialised behind a
// prefix of 0..7 bytes (all buffer alignments), deserialised into fresh and into already-used targets, and the
// bytes produced / consumed and the equality of the values are logged together with a structural description
// ("shape") of the value from which TLC computes the wire size (SerializeAbs.tla).
//   dser <out.ndjson> <seed> <tier>
#include "vh/json.h"
#include "galois/Galois.h"
#include "galois/runtime/Serialize.h"
#include "galois/DynamicBitset.h"
#include "galois/gdeque.h"
#include <deque>
#include <tuple>

using vh::Rec;
using namespace galois::runtime;
typedef galois::runtime::SerializeBuffer SendBuffer;
typedef galois::runtime::DeSerializeBuffer RecvBuffer;
static vh::Out* out;
static vh::Rng* R;

// ---- shapes ---------------------------------------------------------------------------------
static std::string S(size_t bytes) { return "[\"s\"," + std::to_string(bytes) + "]"; }
static std::string Str(size_t len) { return "[\"str\"," + std::to_string(len) + "]"; }
static std::string Lin(size_t n, size_t sz) { return "[\"lin\"," + std::to_string(n) + "," + std::to_string(sz) + "]"; }
static std::string Seq(const std::vector<std::string>& e) { std::string s = "[\"seq\",["; for (size_t i = 0; i < e.size(); ++i) s += (i ? "," : "") + e[i]; return s + "]]"; }
static std::string Cat(const std::vector<std::string>& e) { std::string s = "[\"cat\",["; for (size_t i = 0; i < e.size(); ++i) s += (i ? "," : "") + e[i]; return s + "]]"; }
static std::string Bits(size_t n) { return "[\"bits\"," + std::to_string(n) + "]"; }
static std::string Raw(size_t n) { return "[\"raw\"," + std::to_string(n) + "]"; }

template <typename T> static std::string shapeOf(const T&, typename std::enable_if<std::is_arithmetic<T>::value>::type* = 0) { return S(sizeof(T)); }
static std::string shapeOf(const std::string& s) { return Str(s.size()); }
template <typename A, typename B> static std::string shapeOf(const std::pair<A, B>& p);
template <typename T> static std::string shapeOf(const std::vector<T>& v);
template <typename T> static std::string shapeOf(const std::deque<T>& v) { std::vector<std::string> e; for (auto& x : v) e.push_back(shapeOf(x)); return Seq(e); }
template <typename A, typename B> static std::string shapeOf(const std::pair<A, B>& p) { return Cat({shapeOf(p.first), shapeOf(p.second)}); }
template <typename T> static std::string shapeOf(const std::vector<T>& v) {
  if (is_memory_copyable<T>::value) return Lin(v.size(), sizeof(T));
  std::vector<std::string> e; for (auto& x : v) e.push_back(shapeOf(x)); return Seq(e);
}

struct POD3 { int a; char b; double c; bool operator==(const POD3& o) const { return a == o.a && b == o.b && c == o.c; } };
static std::string shapeOf(const POD3&) { return S(sizeof(POD3)); }

// ---- one round trip ---------------------------------------------------------------------------
template <typename T, typename Dirty, typename Eq> static void roundTrip(const char* type, const T& v, const std::string& shape, Dirty dirty, Eq eq) {
  for (int off = 0; off < 8; ++off) for (int used = 0; used < 2; ++used) {
    SendBuffer b;
    for (int k = 0; k < off; ++k) gSerialize(b, (uint8_t)(k + 1));
    size_t s0 = b.size();
    gSerialize(b, v);
    size_t produced = b.size() - s0;
    gSerialize(b, (uint32_t)0xDEADBEEF);
    RecvBuffer r(std::move(b));
    for (int k = 0; k < off; ++k) { uint8_t x; gDeserialize(r, x); }
    unsigned o0 = r.getOffset();
    T w{};
    if (used) dirty(w);
    bool threw = false;
    try { gDeserialize(r, w); } catch (...) { threw = true; }
    long long consumed = (long long)r.getOffset() - o0;
    uint32_t sentinel = 0;
    if (!threw && r.r_size() >= 4) gDeserialize(r, sentinel);
    out->line(Rec().str("k", "ser").str("type", type).i("off", off).i("used", used).raw("shape", shape).i("produced", produced).i("consumed", consumed)
                  .i("eq", (!threw && eq(v, w)) ? 1 : 0).i("sentinel", sentinel == 0xDEADBEEF ? 1 : 0).i("left", r.r_size()));
    out->flush();
  }
}
template <typename T> static void rt(const char* type, const T& v, const T& dirty) { roundTrip(type, v, shapeOf(v), [&](T& w) { w = dirty; }, [](const T& a, const T& b) { return a == b; }); }

static std::string rstr(size_t maxLen, bool nul = false) {
  size_t n = R->below(maxLen + 1); std::string s;
  for (size_t i = 0; i < n; ++i) s.push_back((char)(nul && R->below(6) == 0 ? 0 : 'a' + R->below(26)));
  return s;
}
template <typename T> static std::vector<T> rvec(size_t maxLen) { size_t n = R->below(maxLen + 1); std::vector<T> v(n); for (auto& x : v) x = (T)R->next(); return v; }

int main(int argc, char** argv) {
  if (argc < 4) { fprintf(stderr, "usage: dser out seed tier\n"); return 2; }
  vh::Out o(argv[1]);
  out = &o;
  vh::Rng rng(strtoull(argv[2], 0, 10));
  R = &rng;
  bool thorough = std::string(argv[3]) == "thorough";
  galois::SharedMemSys G;
  int reps = thorough ? 40 : 8;
  for (int rep = 0; rep < reps; ++rep) {
    out->flush();
    size_t big = rep == 0 ? 200000 : 50;
    rt<uint8_t>("uint8", (uint8_t)rng.next(), 7);
    rt<bool>("bool", rng.coin(), true);
    rt<int32_t>("int32", (int32_t)rng.next(), -1);
    rt<uint64_t>("uint64", rng.next(), 1);
    rt<double>("double", (double)(int64_t)rng.next() / 8.0, 2.5);
    rt<POD3>("struct", POD3{(int)rng.next(), 'x', 1.5}, POD3{1, 'y', 0.0});
    rt<std::pair<int, double>>("pair<int,double>", {(int)rng.next(), 0.25}, {1, 1.0});
    rt<std::string>("string", rstr(rep == 0 ? 0 : 40), "dirty");
    rt<std::vector<int>>("vector<int>", rvec<int>(big), {1, 2, 3});
    rt<std::vector<uint8_t>>("vector<uint8>", rvec<uint8_t>(big), {9});
    rt<std::vector<double>>("vector<double>", rvec<double>(50), {1.0});
    rt<std::vector<POD3>>("vector<struct>", std::vector<POD3>(rng.below(9), POD3{3, 'q', 2.0}), {POD3{1, 'y', 0.0}});
    { std::vector<std::string> v(rng.below(7)); for (auto& s : v) s = rstr(10); rt<std::vector<std::string>>("vector<string>", v, {"old", "stuff"}); }
    { std::vector<std::vector<int>> v(rng.below(6)); for (auto& s : v) s = rvec<int>(8); rt<std::vector<std::vector<int>>>("vector<vector<int>>", v, {{1}, {2, 3}}); }
    { std::vector<std::pair<int, int>> v(rng.below(9)); for (auto& s : v) s = {(int)rng.next(), (int)rng.next()}; rt<std::vector<std::pair<int, int>>>("vector<pair<int,int>>", v, {{1, 2}}); }
    { std::vector<std::pair<std::string, int>> v(rng.below(6)); for (auto& s : v) s = {rstr(6), (int)rng.next()}; rt<std::vector<std::pair<std::string, int>>>("vector<pair<string,int>>", v, {{"a", 2}}); }
    // (std::deque cannot be serialised at all on this tree: its gSizedObj overload is misnamed gSerializeObj and the real
    // gSerializeObj(deque) is declared after its users -- compile-time only, nothing to observe at run time)
    { // tuple: written element-wise, read back as one std::tuple (what sendSimple / genericLandingPad do)
      int a = (int)rng.next(); char c = 'c'; uint64_t u = rng.next();
      for (int off = 0; off < 8; ++off) {
        SendBuffer b; for (int k = 0; k < off; ++k) gSerialize(b, (uint8_t)k);
        size_t s0 = b.size(); gSerialize(b, a, c, u); size_t produced = b.size() - s0; gSerialize(b, (uint32_t)0xDEADBEEF);
        RecvBuffer r(std::move(b)); for (int k = 0; k < off; ++k) { uint8_t x; gDeserialize(r, x); }
        unsigned o0 = r.getOffset(); std::tuple<int, char, uint64_t> t; uint32_t sent = 0;
        gDeserialize(r, t); long long consumed = (long long)r.getOffset() - o0; gDeserialize(r, sent);
        out->line(Rec().str("k", "ser").str("type", "tuple<int,char,uint64>").i("off", off).i("used", 0).raw("shape", Cat({S(4), S(1), S(8)}))
                      .i("produced", produced).i("consumed", consumed).i("eq", (t == std::make_tuple(a, c, u)) ? 1 : 0).i("sentinel", sent == 0xDEADBEEF ? 1 : 0).i("left", r.r_size()));
      }
    }
    { // PODResizeableArray
      galois::PODResizeableArray<int> a; size_t n = rng.below(30); for (size_t i = 0; i < n; ++i) a.push_back((int)rng.next());
      roundTrip("PODResizeableArray<int>", a, Lin(a.size(), 4), [](auto& w) { w.push_back(5); }, [](auto& x, auto& y) { return x.size() == y.size() && std::equal(x.begin(), x.end(), y.begin()); });
    }
    { // gdeque
      galois::gdeque<int> a; size_t n = rng.below(40); for (size_t i = 0; i < n; ++i) a.push_back((int)rng.next());
      std::vector<std::string> e(n, S(4));
      roundTrip("gdeque<int>", a, Seq(e), [](auto& w) { w.push_back(5); }, [](auto& x, auto& y) { return x.size() == y.size() && std::equal(x.begin(), x.end(), y.begin()); });
    }
    { // bitset
      galois::DynamicBitSet a; size_t n = rep == 0 ? 0 : rng.below(300); a.resize(n);
      for (size_t i = 0; i < n; ++i) if (rng.coin()) a.set(i);
      roundTrip("DynamicBitSet", a, Bits(n), [](auto& w) { w.resize(70); w.set(3); }, [](auto& x, auto& y) { if (x.size() != y.size()) return false; for (size_t i = 0; i < x.size(); ++i) if (x.test(i) != y.test(i)) return false; return true; });
    }
    { // nested buffer: a serialised buffer appended raw, read back as its content
      SendBuffer inner; int x = (int)rng.next(); std::string s = rstr(10); gSerialize(inner, x, s);
      SendBuffer b; gSerialize(b, (uint8_t)1, inner, (uint32_t)0xDEADBEEF);
      size_t produced = b.size() - 1 - 4;
      RecvBuffer r(std::move(b)); uint8_t p; int x2 = 0; std::string s2; uint32_t sent = 0;
      gDeserialize(r, p); unsigned o0 = r.getOffset(); gDeserialize(r, x2, s2); long long consumed = (long long)r.getOffset() - o0; gDeserialize(r, sent);
      out->line(Rec().str("k", "ser").str("type", "nested SendBuffer").i("off", 1).i("used", 0).raw("shape", Raw(inner.size())).i("produced", produced).i("consumed", consumed)
                    .i("eq", (x2 == x && s2 == s) ? 1 : 0).i("sentinel", sent == 0xDEADBEEF ? 1 : 0).i("left", r.r_size()));
    }
    { // concatenation of several objects in one call
      int a = (int)rng.next(); std::string s = rstr(9); std::vector<double> v = rvec<double>(7); std::pair<int, int> p{1, (int)rng.next()};
      for (int off = 0; off < 8; ++off) {
        SendBuffer b; for (int k = 0; k < off; ++k) gSerialize(b, (uint8_t)k);
        size_t s0 = b.size(); gSerialize(b, a, s, v, p); size_t produced = b.size() - s0; gSerialize(b, (uint32_t)0xDEADBEEF);
        RecvBuffer r(std::move(b)); for (int k = 0; k < off; ++k) { uint8_t x; gDeserialize(r, x); }
        unsigned o0 = r.getOffset(); int a2 = 0; std::string s2; std::vector<double> v2; std::pair<int, int> p2; uint32_t sent = 0;
        gDeserialize(r, a2, s2, v2, p2); long long consumed = (long long)r.getOffset() - o0; gDeserialize(r, sent);
        out->line(Rec().str("k", "ser").str("type", "int,string,vector<double>,pair").i("off", off).i("used", 0).raw("shape", Cat({S(4), shapeOf(s), shapeOf(v), shapeOf(p)}))
                      .i("produced", produced).i("consumed", consumed).i("eq", (a2 == a && s2 == s && v2 == v && p2 == p) ? 1 : 0).i("sentinel", sent == 0xDEADBEEF ? 1 : 0).i("left", r.r_size()));
      }
    }
    // strings with embedded NUL characters (std::string allows them)
    if (rep % 4 == 1) { std::string s = rstr(12, true); s += '\0'; s += "tail"; rt<std::string>("string+NUL", s, ""); }
  }
  fprintf(stderr, "dser: %lld records\n", o.n);
  return 0;
}
