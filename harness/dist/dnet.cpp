// C17 binding (network half): an MPI program (1..4 hosts).  In every phase each host sends a planned set of tagged
// messages (sizes 1 byte .. a few MB, around the aggregation threshold) from 1..4 sender threads to the other
// hosts and to itself, while its main thread receives until it has everything the plan says it must get; a host
// barrier ends the phase.  Every send and receive is logged (per host file); payloads carry (phase, src, dst,
// tag, id) and a position-dependent pattern that the receiver verifies.  TraceNet.tla replays the merged log on
// FIFO channels per (src, dst, tag).
//   mpirun -n H dnet <out-prefix> <seed> <tier>      (writes <out-prefix>.<host>.ndjson)
#include "vh/json.h"
#include "galois/Galois.h"
#include "galois/runtime/Network.h"
#include "galois/runtime/Serialize.h"
#include "galois/DistGalois.h"
#include <atomic>
#include <mutex>
#include <thread>

using vh::Rec;
using namespace galois::runtime;

struct Planned { unsigned src, dst, tag, thread; uint64_t id; size_t size; };

static inline uint8_t pat(uint64_t id, size_t i) { return (uint8_t)(1 + ((id * 131 + i * 7) % 251)); }   // never 0 for small i

int main(int argc, char** argv) {
  if (argc < 4) { fprintf(stderr, "usage: dnet out-prefix seed tier\n"); return 2; }
  galois::DistMemSys G;
  auto& net = getSystemNetworkInterface();
  unsigned me = net.ID, H = net.Num;
  vh::Out o((std::string(argv[1]) + "." + std::to_string(me) + ".ndjson").c_str());
  uint64_t seed = strtoull(argv[2], 0, 10);
  bool thorough = std::string(argv[3]) == "thorough";
  std::mutex logm;
  long long seq = 0;
  auto log = [&](Rec r) { std::lock_guard<std::mutex> g(logm); r.i("h", me).i("seq", seq++); o.line(r); };
  static const size_t sizes[] = {1, 2, 3, 4, 5, 8, 100, 1000, 1399, 1400, 1401, 4096, 65536, 1 << 20, 3 << 20};
  int phases = thorough ? 24 : 8;
  const unsigned TAGBASE = 100;   // tags below are used by the runtime itself
  for (int ph = 0; ph < phases; ++ph) {
    // the plan is a function of (seed, phase): every host computes the same one
    vh::Rng pr(seed * 1000003 + ph);
    unsigned senders = 1 + (unsigned)pr.below(4), ntags = 1 + (unsigned)pr.below(3);
    int count = (int)pr.below(thorough ? 120 : 60) + (ph == 0 ? 0 : 1);
    bool bigPhase = pr.below(4) == 0;
    std::vector<Planned> plan;
    for (int k = 0; k < count; ++k) {
      Planned p;
      p.src = (unsigned)pr.below(H); p.dst = (unsigned)pr.below(H); p.tag = TAGBASE + (unsigned)pr.below(ntags);
      p.thread = (unsigned)pr.below(senders); p.id = (uint64_t)ph * 100000 + k;
      size_t si = pr.below(bigPhase ? sizeof(sizes) / sizeof(sizes[0]) : 12);
      p.size = sizes[si] + (si > 5 ? pr.below(3) : 0);
      if (p.size < 1) p.size = 1;
      plan.push_back(p);
    }
    size_t expect = 0;
    for (auto& p : plan) if (p.dst == me) ++expect;
    log(Rec().str("ev", "phase").i("ph", ph).i("hosts", H).i("senders", senders).i("tags", ntags).i("planned", plan.size()).i("expect", expect));
    // one lock per (dst, tag): the order in which messages of one channel are handed to the network is the logged order
    std::vector<std::mutex> chanLock(H * 4);
    std::vector<std::thread> ths;
    std::atomic<int> done(0);
    for (unsigned t = 0; t < senders; ++t)
      ths.emplace_back([&, t] {
        for (auto& p : plan) {
          if (p.src != me || p.thread != t) continue;
          SendBuffer b;
          // header: phase, src, dst, tag, id, size; then the pattern
          gSerialize(b, (uint32_t)ph, (uint32_t)p.src, (uint32_t)p.dst, (uint32_t)p.tag, (uint64_t)p.id, (uint64_t)p.size);
          for (size_t i = 0; i < p.size; ++i) gSerialize(b, pat(p.id, i));
          std::lock_guard<std::mutex> g(chanLock[p.dst * 4 + (p.tag - TAGBASE)]);
          log(Rec().str("ev", "send").i("ph", ph).i("dst", p.dst).i("tag", p.tag).i("id", p.id).i("size", p.size).i("t", t));
          net.sendTagged(p.dst, p.tag, b);
          if (p.id % 5 == 0) net.flush();
        }
        ++done;
      });
    // receive until everything planned for this host has arrived (head-of-line blocking between tags of one
    // source means all tags must be polled)
    size_t got = 0;
    auto deadline = std::chrono::steady_clock::now() + std::chrono::seconds(240);
    bool flushed = false;
    while (got < expect) {
      if (!flushed && done == (int)senders) { net.flush(); flushed = true; }
      bool any = false;
      for (unsigned tg = 0; tg < ntags; ++tg) {
        auto m = net.recieveTagged(TAGBASE + tg, nullptr);
        if (!m) continue;
        any = true;
        RecvBuffer& rb = m->second;
        uint32_t rph = 0, rsrc = 0, rdst = 0, rtag = 0; uint64_t rid = 0, rsize = 0;
        size_t total = rb.r_size();
        bool ok = total >= 32;
        if (ok) {
          gDeserialize(rb, rph, rsrc, rdst, rtag, rid, rsize);
          ok = rb.r_size() == rsize && rsrc == m->first && rdst == me && rtag == TAGBASE + tg;
          for (size_t i = 0; ok && i < rsize; ++i) { uint8_t c; gDeserialize(rb, c); if (c != pat(rid, i)) ok = false; }
        }
        log(Rec().str("ev", "recv").i("ph", ph).i("src", m->first).i("tag", TAGBASE + tg).i("id", rid).i("size", rsize).i("mph", rph).i("intact", ok ? 1 : 0));
        ++got;
      }
      if (!any) {
        std::this_thread::yield();
        if (std::chrono::steady_clock::now() > deadline) { log(Rec().str("ev", "timeout").i("ph", ph).i("got", got).i("expect", expect)); o.flush(); _exit(7); }
      }
    }
    for (auto& t : ths) t.join();
    if (!flushed) net.flush();
    // wait until the communication thread has handed everything to MPI, then make sure nothing extra arrives
    while (net.anyPendingSends()) std::this_thread::yield();
    getHostBarrier().wait();
    size_t extra = 0;
    for (unsigned tg = 0; tg < ntags; ++tg) while (auto m = net.recieveTagged(TAGBASE + tg, nullptr)) ++extra;
    log(Rec().str("ev", "barrier").i("ph", ph).i("got", got).i("extra", extra));
    getHostBarrier().wait();
    o.flush();
  }
  log(Rec().str("ev", "end"));
  return 0;
}
