// Shared harness for C01/C02/C07/C08: a generated operator program (per item: neighbourhood of
// lockable objects, pushes before/after the last acquire, voluntary abort on some attempt,
// priority level) is interpreted inside the real galois::for_each with a given worklist type.
// Observation is done here (operator entry, try/acquire, cautious point, pushes, finish,
// return of the loop, owner probe, per-object commit logs); no hook in the library.
#pragma once
#include "vh/json.h"
#include "vh/events.h"
#include "galois/Galois.h"
#include "galois/runtime/Context.h"
#include "galois/worklists/WorkList.h"
#ifdef VERIF_FLAVOUR_C
#include "verif_rt.h"
#define VH_YIELD() verif::point(nullptr, verif::K_YIELD, 0)
#else
#define VH_YIELD() do {} while (0)
#endif
#include <csignal>
#include <cstring>
#include <unistd.h>
#include <string>
#include <vector>

namespace fe {

using vh::kv; using vh::ks;

struct Obj : public galois::runtime::Lockable {
  volatile long stamp = 0;
  long logv[512];
  volatile int nlog = 0;
  char pad[64];
};

struct ItemProg {
  std::vector<int> nhood;        // object indices, in acquisition order (may repeat an object: re-acquisition)
  std::vector<int> flags;        // per nhood entry: 0 WRITE, 1 READ, 2 UNPROTECTED (no lock taken)
  std::vector<int> prePush;      // children pushed before the last acquire
  std::vector<int> postPush;     // children pushed after the cautious point
  int vabortOn = 0;              // voluntary abort on every attempt up to this number (0 = never)
  int level = 0;                 // priority / round
  int alloc = 0;                 // bytes taken from the per-iteration allocator
};

struct Program {
  std::vector<ItemProg> items;   // indexed by item id
  std::vector<int> initial;
  int nobj = 0;
};

static vh::EventLog* L;
static Program* P;
static Obj* objs;
static int attempts[1 << 16];
static int g_threads;
static bool g_probe1 = false; // single-thread voluntary-abort probe (separate process: it may crash)
static bool g_conflicts;

struct ObjProbe : public galois::runtime::LockManagerBase {
  // free/owned probe through the protected accessors
  static bool owned(galois::runtime::Lockable* l) {
    ObjProbe p;
    return p.getOwnerOf(l) != nullptr;
  }
  galois::runtime::LockManagerBase* getOwnerOf(galois::runtime::Lockable* l) { return getOwner(l); }
};

inline void logp(unsigned tid, const std::string& s) { L->ev(tid, s); }

struct Indexer {
  int operator()(int item) const { return P->items[item].level; }
};

template <typename Ctx>
inline void theOperator(int item, Ctx& ctx) {
  unsigned tid = galois::substrate::ThreadPool::getTID();
  ItemProg& ip = P->items[item];
  if (ctx.isFirstPass()) {
    // deterministic executor, inspect pass: only the neighbourhood is visited (marks, no exclusive
    // ownership yet); the pass ends at the cautious point.  Nothing of it is observable work.
    for (size_t k = 0; k < ip.nhood.size(); ++k)
      if (ip.flags[k] != 2) galois::runtime::acquire(&objs[ip.nhood[k]], ip.flags[k] == 1 ? galois::MethodFlag::READ : galois::MethodFlag::WRITE);
    ctx.cautiousPoint();
  }
  int att = __atomic_add_fetch(&attempts[item], 1, __ATOMIC_SEQ_CST);
  logp(tid, ks("ev", "start") + "," + kv("t", tid) + "," + kv("i", item) + "," + kv("a", att) + "," + kv("lv", ip.level));
  char* mem = nullptr;
  if (ip.alloc) {
    mem = (char*)ctx.getPerIterAlloc().allocate(ip.alloc);
    memset(mem, 0x40 + (item & 31), ip.alloc);
  }
  for (int c : ip.prePush) {
    ctx.push(c);
    logp(tid, ks("ev", "push") + "," + kv("t", tid) + "," + kv("i", item) + "," + kv("c", c) + "," + kv("clv", P->items[c].level));
  }
  for (size_t k = 0; k < ip.nhood.size(); ++k) {
    int o = ip.nhood[k];
    if (ip.flags[k] == 2 || !g_conflicts) continue; // UNPROTECTED: no acquisition
    logp(tid, ks("ev", "try") + "," + kv("t", tid) + "," + kv("o", o));
    VH_YIELD();
    galois::runtime::acquire(&objs[o], ip.flags[k] == 1 ? galois::MethodFlag::READ : galois::MethodFlag::WRITE);
    logp(tid, ks("ev", "acq") + "," + kv("t", tid) + "," + kv("o", o));
  }
  if (ip.vabortOn && att <= ip.vabortOn && g_conflicts && (g_threads > 1 || g_probe1)) {
    logp(tid, ks("ev", "vabort") + "," + kv("t", tid) + "," + kv("i", item));
    ctx.abort();
  }
  ctx.cautiousPoint();
  logp(tid, ks("ev", "cautious") + "," + kv("t", tid) + "," + kv("i", item));
  // ---- from here the iteration commits: non-commutative updates of the owned objects
  if (g_conflicts)
    for (size_t k = 0; k < ip.nhood.size(); ++k)
      if (ip.flags[k] != 2) {
        Obj& ob = objs[ip.nhood[k]];
        ob.stamp = item + 1;
      }
  VH_YIELD();
  for (int c : ip.postPush) {
    ctx.push(c);
    logp(tid, ks("ev", "push") + "," + kv("t", tid) + "," + kv("i", item) + "," + kv("c", c) + "," + kv("clv", P->items[c].level));
  }
  if (g_conflicts) {
    // each distinct owned object gets this item appended once; then re-read the stamps
    for (size_t k = 0; k < ip.nhood.size(); ++k) {
      if (ip.flags[k] == 2) continue;
      bool firstOcc = true;
      for (size_t j = 0; j < k; ++j) if (ip.nhood[j] == ip.nhood[k] && ip.flags[j] != 2) firstOcc = false;
      if (!firstOcc) continue;
      Obj& ob = objs[ip.nhood[k]];
      int n = ob.nlog;
      VH_YIELD();
      if (n < 512) ob.logv[n] = item;
      ob.nlog = n + 1;
      if (ob.stamp != item + 1)
        logp(tid, ks("ev", "foreign") + "," + kv("t", tid) + "," + kv("o", ip.nhood[k]) + "," + kv("seen", ob.stamp - 1));
    }
  }
  if (mem) {
    bool ok = true;
    for (int b = 0; b < ip.alloc; ++b) if (mem[b] != (char)(0x40 + (item & 31))) ok = false;
    if (!ok) logp(tid, ks("ev", "allocbad") + "," + kv("t", tid) + "," + kv("i", item));
  }
  logp(tid, ks("ev", "finish") + "," + kv("t", tid) + "," + kv("i", item));
}

// program generator: fan-out trees below the initial items, overlapping neighbourhoods
static int g_shape = 0;  // 0 normal, 1 one item pushes > 64 children before aborting, 2 deep chain with leaves, 3 sparse levels
inline void genProgram(Program& p, vh::Rng& r, int nInit, int nObj, int maxDepth, int maxFan, bool monotoneLevels,
                       bool withVabort, int levelSpread) {
  if (g_shape == 2) { maxDepth = 14; maxFan = 2; if (nInit > 2) nInit = 1 + (int)r.below(2); }
  if (g_shape == 3 && levelSpread) levelSpread = 24;
  p.items.clear(); p.initial.clear();
  p.nobj = nObj;
  struct Pending { int id; int depth; };
  std::vector<Pending> todo;
  for (int i = 0; i < nInit; ++i) {
    ItemProg ip;
    ip.level = levelSpread ? (int)r.below(levelSpread) : 0;
    p.items.push_back(ip);
    p.initial.push_back(i);
    todo.push_back({i, 0});
  }
  while (!todo.empty()) {
    Pending cur = todo.back();
    todo.pop_back();
    int k = nObj ? (int)r.below(std::min(nObj, 3) + 1) : 0;
    for (int j = 0; j < k; ++j) {
      p.items[cur.id].nhood.push_back((int)r.below(nObj));
      p.items[cur.id].flags.push_back(r.coin(1, 6) ? 1 : (r.coin(1, 10) ? 2 : 0));
    }
    if (k && r.coin(1, 5)) { // re-acquisition of an object already owned
      p.items[cur.id].nhood.push_back(p.items[cur.id].nhood[0]);
      p.items[cur.id].flags.push_back(0);
    }
    if (withVabort && r.coin(1, 6)) p.items[cur.id].vabortOn = r.coin(1, 5) ? 3 + (int)r.below(6) : 1 + (int)r.below(2);
    if (r.coin(1, 3)) p.items[cur.id].alloc = 8 + 8 * (int)r.below(40);
    if (g_shape == 1 && cur.id == 0 && withVabort && nObj > 0) {
      // one iteration pushes more than the fast-push-back limit (64) before its last acquire and aborts
      if (p.items[0].nhood.empty()) { p.items[0].nhood.push_back(0); p.items[0].flags.push_back(0); }
      p.items[0].vabortOn = 1;
      for (int f = 0; f < 70; ++f) {
        int cid = (int)p.items.size();
        ItemProg child; child.level = p.items[0].level;
        p.items.push_back(child);
        p.items[0].prePush.push_back(cid);
      }
      continue;
    }
    if (cur.depth < maxDepth && (int)p.items.size() < 60000) {
      int fan = (int)r.below(maxFan + 1);
      if (g_shape == 2) fan = (cur.depth % 2 == 0 || cur.id % 3 == 0) ? 1 + (int)r.below(2) : 0;   // chain plus leaves
      for (int f = 0; f < fan; ++f) {
        int cid = (int)p.items.size();
        ItemProg child;
        // monotone programs: children have equal or lower urgency (higher or equal level number)
        child.level = monotoneLevels ? p.items[cur.id].level + (g_shape == 3 ? (int)r.below(5) : (int)r.below(2 + (levelSpread > 4)))
                                     : (levelSpread ? (int)r.below(levelSpread) : 0);
        p.items.push_back(child);
        if (r.coin(1, 2) && !p.items[cur.id].nhood.empty()) p.items[cur.id].prePush.push_back(cid);
        else p.items[cur.id].postPush.push_back(cid);
        todo.push_back({cid, cur.depth + 1});
      }
    }
  }
}

inline std::string progJson(const Program& p) {
  // compact description kept in the reset record for replay / debugging
  std::string s = "[";
  for (size_t i = 0; i < p.items.size() && i < 64; ++i) {
    if (i) s += ",";
    s += "[" + vh::jarr(p.items[i].nhood) + "," + vh::jarr(p.items[i].prePush) + "," + vh::jarr(p.items[i].postPush) + "," +
         std::to_string(p.items[i].vabortOn) + "," + std::to_string(p.items[i].level) + "]";
  }
  return s + "]";
}

inline std::vector<int> initLevels(const Program& p) {
  std::vector<int> v;
  for (int i : p.initial) v.push_back(p.items[i].level);
  return v;
}

struct RunCfg {
  std::string wlname;
  std::string mode;
  int threads;
  bool conflicts;
  uint64_t seed;
  std::string kind; // "plain" | "level-bsp" | "level-obim" : which ordering rule the trace spec applies
  int descending = 0;
};

template <typename WL>
inline void runOne(Program& prog, const RunCfg& rc) {
  P = &prog;
  g_threads = rc.threads;
  g_conflicts = rc.conflicts;
  std::vector<Obj> obv(prog.nobj ? prog.nobj : 1);
  objs = obv.data();
  for (size_t i = 0; i < prog.items.size() && i < (1 << 16); ++i) attempts[i] = 0;
  galois::setActiveThreads(rc.threads);
  const char* topo = getenv("GALOIS_VERIF_TOPO");
  L->ev(64, ks("ev", "reset") + "," + ks("wl", rc.wlname) + "," + ks("mode", rc.mode) + "," + kv("threads", rc.threads) + "," +
                kv("cd", rc.conflicts ? 1 : 0) + "," + kv("seed", (long long)(rc.seed % 1000000007)) + "," + ks("kind", rc.kind) + "," +
                kv("desc", rc.descending) + "," + ks("topo", topo ? topo : "host") + "," + kv("nitems", (long long)prog.items.size()) +
                "," + kv("nobj", prog.nobj) + ",\"init\":" + vh::jarr(prog.initial) + ",\"initlv\":" + vh::jarr(initLevels(prog)) + ",\"prog\":" + progJson(prog));
#ifdef VERIF_FLAVOUR_C
  verif::Config cfg;
  cfg.mode = rc.mode == "ctl" ? verif::M_CTL : (rc.mode == "jitter" ? verif::M_JITTER : verif::M_PASS);
  cfg.seed = rc.seed;
  cfg.switch_pct = 5 + (int)(rc.seed % 60);
  cfg.pct_depth = (rc.seed % 4 == 3) ? 1 + (int)((rc.seed >> 8) % 4) : 0;
  cfg.max_steps = 6000000;
  cfg.threads = rc.threads;
  verif::configure(cfg);
#endif
  auto op = [](int item, auto& ctx) { theOperator(item, ctx); };
  if (rc.conflicts)
    galois::for_each(galois::iterate(prog.initial), op, galois::wl<WL>(), galois::per_iter_alloc(), galois::no_stats(),
                     galois::loopname("verif"));
  else
    galois::for_each(galois::iterate(prog.initial), op, galois::wl<WL>(), galois::per_iter_alloc(), galois::no_stats(),
                     galois::disable_conflict_detection(), galois::loopname("verif"));
#ifdef VERIF_FLAVOUR_C
  verif::Config off;
  verif::configure(off);
#endif
  L->ev(64, ks("ev", "return"));
  for (int o = 0; o < prog.nobj; ++o) {
    std::vector<long> lg;
    for (int k = 0; k < objs[o].nlog && k < 512; ++k) lg.push_back(objs[o].logv[k]);
    L->ev(64, ks("ev", "final") + "," + kv("o", o) + "," + kv("owned", ObjProbe::owned(&objs[o]) ? 1 : 0) + "," + kv("n", objs[o].nlog) + ",\"log\":" + vh::jarr(lg));
  }
  L->ev(64, ks("ev", "end"));
  L->flush();
}

static void onCrash(int sig) {
  L->ev(64, ks("ev", "crash") + "," + kv("sig", sig));
  L->flush();
  _exit(3);
}
static void installCrashHandler() {
  signal(SIGSEGV, onCrash); signal(SIGBUS, onCrash); signal(SIGABRT, onCrash); signal(SIGFPE, onCrash); signal(SIGILL, onCrash);
}
static void onAbort(const char* why) { L->ev(64, ks("ev", "hang") + "," + ks("why", why)); L->flush(); }

struct Args {
  std::string out, tier, mode, only;
  uint64_t seed;
  bool thorough;
};
inline Args parse(int argc, char** argv) {
  if (argc < 5) { fprintf(stderr, "usage: %s out seed tier mode [only-worklist]\n", argv[0]); exit(2); }
  Args a;
  a.out = argv[1]; a.seed = strtoull(argv[2], 0, 10); a.tier = argv[3]; a.mode = argv[4];
  a.only = argc > 5 ? argv[5] : "";
  a.thorough = a.tier == "thorough";
  return a;
}

// drives one worklist type through the standard scenario set of this mode
template <typename WL>
inline void campaign(const char* wlname, const Args& a, vh::Rng& rng, const char* kind = "plain", int descending = 0,
                     bool conflictsAllowed = true, int mult = 1) {
  if (!a.only.empty() && a.only != wlname) return;
  installCrashHandler();
  if (a.mode == "probe1") {
    // one thread, conflict detection on, an operator that calls ctx.abort() on its first attempt
    g_probe1 = true;
    RunCfg rc;
    rc.wlname = wlname; rc.mode = "probe1"; rc.seed = 1; rc.kind = "plain"; rc.threads = 1; rc.conflicts = true;
    Program prog;
    prog.nobj = 1;
    ItemProg ip; ip.nhood = {0}; ip.flags = {0}; ip.vabortOn = 1;
    prog.items.push_back(ip); prog.initial.push_back(0);
    runOne<WL>(prog, rc);
    return;
  }
  unsigned maxT = galois::substrate::getThreadPool().getMaxThreads();
  bool ctl = a.mode == "ctl";
  const char* em = getenv("VERIF_FE_MULT");   // a check may ask for more executions per worklist
  if (em) mult *= atoi(em) > 0 ? atoi(em) : 1;
  int execs = mult * (ctl ? (a.thorough ? 60 : 14) : (a.thorough ? 15 : 5));
  bool level = std::string(kind) != "plain";
  for (int e = 0; e < execs; ++e) {
    uint64_t s = rng.next();
    RunCfg rc;
    rc.wlname = wlname; rc.mode = a.mode; rc.seed = s; rc.kind = kind; rc.descending = descending;
    rc.threads = ctl ? 1 + (int)(s % std::min(maxT, 4u)) : 1 + (int)(s % std::min(maxT, a.thorough ? 16u : 8u));
    rc.conflicts = conflictsAllowed && (e % 3 != 2);
    Program prog;
    vh::Rng pr(s ^ 0x5555);
    g_shape = (e % 7 == 3) ? 1 : (e % 7 == 5) ? 2 : (level && e % 7 == 6) ? 3 : 0;
    if (g_shape == 1 && !rc.conflicts) g_shape = 0;
    if (g_shape == 1 && rc.threads < 2) rc.threads = 2;
    if (ctl) genProgram(prog, pr, 1 + (int)pr.below(5), rc.conflicts ? 1 + (int)pr.below(3) : 0, 2, 2, level, true, level ? 3 : 0);
    else genProgram(prog, pr, 1 + (int)pr.below(a.thorough ? 160 : 60), rc.conflicts ? 1 + (int)pr.below(6) : 0, 3, 2, level, true, level ? 6 : 0);
    if (descending) for (auto& it : prog.items) it.level = -it.level;
    g_shape = 0;
    runOne<WL>(prog, rc);
  }
  // bursts (free-running only): many short loops over a wide initial range with trivial items and nothing pushed -- the
  // threads spend the loop in the worklist's hand-over / stealing code rather than in the operator
  if (a.mode == "free") {
    int bursts = mult * (a.thorough ? 80 : 40);
    for (int e = 0; e < bursts; ++e) {
      uint64_t s = rng.next();
      RunCfg rc;
      rc.wlname = wlname; rc.mode = a.mode; rc.seed = s; rc.kind = kind; rc.descending = descending;
      rc.threads = 2 + (int)(s % (std::min(maxT, 8u) - 1));
      rc.conflicts = false;
      Program prog;
      vh::Rng pr(s ^ 0x3333);
      genProgram(prog, pr, 8 + (int)pr.below(57), 0, 0, 0, level, false, level ? 3 : 0);
      for (auto& it : prog.items) it.alloc = 0;
      if (descending) for (auto& it : prog.items) it.level = -it.level;
      runOne<WL>(prog, rc);
    }
  }
}

} // namespace fe
