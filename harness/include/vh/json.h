// Minimal NDJSON emitter for the harness (one record per line).
#pragma once
#include <cstdint>
#include <cstdio>
#include <string>
#include <vector>
#include <utility>

namespace vh {

class Rec {
  std::string s;
  bool first = true;
  void key(const char* k) {
    if (!first) s += ',';
    first = false;
    s += '"'; s += k; s += "\":";
  }
public:
  Rec() { s = "{"; }
  Rec& i(const char* k, long long v) { key(k); s += std::to_string(v); return *this; }
  Rec& u(const char* k, unsigned long long v) { key(k); s += std::to_string(v); return *this; }
  Rec& b(const char* k, bool v) { key(k); s += v ? "true" : "false"; return *this; }
  Rec& str(const char* k, const std::string& v) {
    key(k); s += '"';
    for (char c : v) { if (c == '"' || c == '\\') s += '\\'; s += c; }
    s += '"'; return *this;
  }
  Rec& raw(const char* k, const std::string& v) { key(k); s += v; return *this; }
  template <typename C>
  Rec& arr(const char* k, const C& c) {
    key(k); s += '[';
    bool f = true;
    for (auto& x : c) { if (!f) s += ','; f = false; s += std::to_string((long long)x); }
    s += ']'; return *this;
  }
  std::string done() const { return s + "}"; }
};

template <typename C>
inline std::string jarr(const C& c) {
  std::string s = "[";
  bool f = true;
  for (auto& x : c) { if (!f) s += ','; f = false; s += std::to_string((long long)x); }
  return s + "]";
}
inline std::string jarr2(const std::vector<std::vector<long long>>& c) {
  std::string s = "[";
  bool f = true;
  for (auto& x : c) { if (!f) s += ','; f = false; s += jarr(x); }
  return s + "]";
}
// 64-bit value as four 16-bit limbs, most significant first (TLC integers are 32-bit)
inline std::string limbs(uint64_t v) {
  return "[" + std::to_string((v >> 48) & 0xffff) + "," + std::to_string((v >> 32) & 0xffff) + "," +
         std::to_string((v >> 16) & 0xffff) + "," + std::to_string(v & 0xffff) + "]";
}

class Out {
  FILE* f;
public:
  long long n = 0;
  explicit Out(const char* path) { f = std::fopen(path, "w"); if (!f) { perror(path); std::exit(2); } }
  ~Out() { if (f) std::fclose(f); }
  void line(const std::string& s) { std::fputs(s.c_str(), f); std::fputc('\n', f); ++n; }
  void line(const Rec& r) { line(r.done()); }
  void flush() { std::fflush(f); }
};

struct Rng {
  uint64_t s;
  explicit Rng(uint64_t seed) : s(seed * 0x9E3779B97F4A7C15ull + 0x1234567ull) {}
  uint64_t next() {
    uint64_t z = (s += 0x9E3779B97F4A7C15ull);
    z = (z ^ (z >> 30)) * 0xBF58476D1CE4E5B9ull;
    z = (z ^ (z >> 27)) * 0x94D049BB133111EBull;
    return z ^ (z >> 31);
  }
  uint64_t below(uint64_t n) { return n ? next() % n : 0; }
  bool coin(unsigned num = 1, unsigned den = 2) { return below(den) < num; }
};

} // namespace vh
