// Thread-safe event log for concurrent harness programs: per-thread buffers + one global
// ticket (the ticket is taken with a seq_cst RMW *at the logging call*, so ticket order is a
// linearisation consistent with real time).  Uses __atomic builtins only (never interposed).
#pragma once
#include <cstdio>
#include <cstdlib>
#include <unistd.h>
#include <string>
#include <vector>
#include <algorithm>
#include <utility>

namespace vh {

class EventLog {
  static const int MAXT = 64;
  struct Ev { unsigned long ticket; std::string body; };
  std::vector<Ev> buf[MAXT + 1];
  unsigned long ticket = 0;
  FILE* f;
public:
  long total = 0;
  explicit EventLog(const char* path) { f = std::fopen(path, "w"); if (!f) { perror(path); std::exit(2); } }
  ~EventLog() { if (f) std::fclose(f); }
  unsigned long tick() { return __atomic_add_fetch(&ticket, 1, __ATOMIC_SEQ_CST); }
  // slot: thread id (0..MAXT-1) or MAXT for the main/driver thread outside regions
  void ev(int slot, std::string body) {
    unsigned long t = tick();
    if (slot < 0 || slot > MAXT) slot = MAXT;
    // an execution that logs millions of events between two flushes is not making progress (a livelock that keeps
    // re-executing); stop before the log exhausts memory.  Exit status 124 is what the drivers read as "did not finish".
    if (buf[slot].size() > 3000000) { std::fputs("vh: runaway execution (event log overflow)\n", stderr); _exit(124); }
    buf[slot].push_back(Ev{t, std::move(body)});
  }
  // write everything collected so far in ticket order
  void flush() {
    std::vector<Ev*> all;
    for (auto& b : buf) for (auto& e : b) all.push_back(&e);
    std::sort(all.begin(), all.end(), [](Ev* a, Ev* b) { return a->ticket < b->ticket; });
    for (auto* e : all) { std::fputs("{", f); std::fputs(e->body.c_str(), f); std::fputs("}\n", f); ++total; }
    for (auto& b : buf) b.clear();
    std::fflush(f);
  }
};

inline std::string kv(const char* k, long long v) { return std::string("\"") + k + "\":" + std::to_string(v); }
inline std::string ks(const char* k, const std::string& v) { return std::string("\"") + k + "\":\"" + v + "\""; }

} // namespace vh
