// Force-included (-include) in flavour C *before* any Galois header.  It first pulls in every
// standard / boost header the code base uses, then re-binds the names std::atomic, std::mutex
// and std::condition_variable to instrumented wrappers.  No Galois source file is changed.
#ifndef VERIF_PRELUDE_H
#define VERIF_PRELUDE_H
#ifdef __cplusplus
#include <algorithm>
#include <array>
#include <atomic>
#include <cassert>
#include <cerrno>
#include <chrono>
#include <climits>
#include <cmath>
#include <condition_variable>
#include <csetjmp>
#include <cstdarg>
#include <cstddef>
#include <cstdint>
#include <cstdio>
#include <cstdlib>
#include <cstring>
#include <ctime>
#include <deque>
#include <forward_list>
#include <fstream>
#include <functional>
#include <future>
#include <iomanip>
#include <iostream>
#include <iterator>
#include <limits>
#include <list>
#include <map>
#include <memory>
#include <mutex>
#include <numeric>
#include <optional>
#include <queue>
#include <random>
#include <set>
#include <shared_mutex>
#include <sstream>
#include <stdexcept>
#include <string>
#include <system_error>
#include <thread>
#include <tuple>
#include <type_traits>
#include <unordered_map>
#include <unordered_set>
#include <utility>
#include <variant>
#include <vector>
#include <boost/container/small_vector.hpp>
#include <boost/functional.hpp>
#include <boost/fusion/include/at_c.hpp>
#include <boost/fusion/include/vector.hpp>
#include <boost/iterator/counting_iterator.hpp>
#include <boost/iterator/filter_iterator.hpp>
#include <boost/iterator/iterator_adaptor.hpp>
#include <boost/iterator/iterator_facade.hpp>
#include <boost/iterator/reverse_iterator.hpp>
#include <boost/iterator/transform_iterator.hpp>
#include <boost/mpl/has_xxx.hpp>
#include <boost/mpl/if.hpp>
#include <boost/utility.hpp>
#include <boost/optional.hpp>
#include <boost/intrusive/list.hpp>
#include <boost/heap/priority_queue.hpp>
#include <numa.h>
#include <numaif.h>
#include <pthread.h>
#include <sched.h>
#include <sys/mman.h>
#include <unistd.h>

#include "verif_rt.h"

namespace std {

template <class T>
struct verif_atomic_alias {
  std::atomic<T> a;
  using value_type = T;
  static constexpr bool is_always_lock_free = std::atomic<T>::is_always_lock_free;
  verif_atomic_alias() noexcept = default;
  constexpr verif_atomic_alias(T v) noexcept : a(v) {}
  verif_atomic_alias(const verif_atomic_alias&) = delete;
  verif_atomic_alias& operator=(const verif_atomic_alias&) = delete;
  bool is_lock_free() const noexcept { return a.is_lock_free(); }

  T load(memory_order mo = memory_order_seq_cst) const noexcept {
    verif::OpScope s(&a, verif::K_LOAD, (int)mo, false);
    return a.load(mo);
  }
  void store(T v, memory_order mo = memory_order_seq_cst) noexcept {
    verif::OpScope s(&a, verif::K_STORE, (int)mo, true);
    a.store(v, mo);
  }
  T exchange(T v, memory_order mo = memory_order_seq_cst) noexcept {
    verif::OpScope s(&a, verif::K_RMW, (int)mo, true);
    return a.exchange(v, mo);
  }
  bool compare_exchange_weak(T& e, T d, memory_order s, memory_order f) noexcept {
    verif::OpScope sc(&a, verif::K_RMW, (int)s, true);   // (no spurious failures: failures are explored via schedules)
    bool r = a.compare_exchange_strong(e, d, s, f);
    if (!r) sc.failed((int)f);
    return r;
  }
  bool compare_exchange_weak(T& e, T d, memory_order mo = memory_order_seq_cst) noexcept {
    verif::OpScope sc(&a, verif::K_RMW, (int)mo, true);
    bool r = a.compare_exchange_strong(e, d, mo);
    if (!r) sc.failed(mo == memory_order_acq_rel ? (int)memory_order_acquire : (mo == memory_order_release ? (int)memory_order_relaxed : (int)mo));
    return r;
  }
  bool compare_exchange_strong(T& e, T d, memory_order s, memory_order f) noexcept {
    verif::OpScope sc(&a, verif::K_RMW, (int)s, true);   // (no spurious failures: failures are explored via schedules)
    bool r = a.compare_exchange_strong(e, d, s, f);
    if (!r) sc.failed((int)f);
    return r;
  }
  bool compare_exchange_strong(T& e, T d, memory_order mo = memory_order_seq_cst) noexcept {
    verif::OpScope sc(&a, verif::K_RMW, (int)mo, true);
    bool r = a.compare_exchange_strong(e, d, mo);
    if (!r) sc.failed(mo == memory_order_acq_rel ? (int)memory_order_acquire : (mo == memory_order_release ? (int)memory_order_relaxed : (int)mo));
    return r;
  }
#define VERIF_RMW(NAME)                                                                        \
  template <class U, class A = std::atomic<T>>                                                 \
  auto NAME(U v, memory_order mo = memory_order_seq_cst) noexcept                              \
      -> decltype(std::declval<A&>().NAME(v, mo)) {                                            \
    verif::OpScope sc(&a, verif::K_RMW, (int)mo, true);                                        \
    return a.NAME(v, mo);                                                                      \
  }
  VERIF_RMW(fetch_add) VERIF_RMW(fetch_sub) VERIF_RMW(fetch_or) VERIF_RMW(fetch_and) VERIF_RMW(fetch_xor)
#undef VERIF_RMW
  operator T() const noexcept { return load(); }
  T operator=(T v) noexcept { store(v); return v; }
  template <class U = T> auto operator++() noexcept -> decltype(std::declval<std::atomic<U>&>().fetch_add(1) + 1) { return fetch_add(1) + 1; }
  template <class U = T> auto operator++(int) noexcept -> decltype(std::declval<std::atomic<U>&>().fetch_add(1)) { return fetch_add(1); }
  template <class U = T> auto operator--() noexcept -> decltype(std::declval<std::atomic<U>&>().fetch_sub(1) - 1) { return fetch_sub(1) - 1; }
  template <class U = T> auto operator--(int) noexcept -> decltype(std::declval<std::atomic<U>&>().fetch_sub(1)) { return fetch_sub(1); }
  template <class U, class A = std::atomic<T>> auto operator+=(U v) noexcept -> decltype(std::declval<A&>().fetch_add(v) + v) { return fetch_add(v) + v; }
  template <class U, class A = std::atomic<T>> auto operator-=(U v) noexcept -> decltype(std::declval<A&>().fetch_sub(v) - v) { return fetch_sub(v) - v; }
  template <class U, class A = std::atomic<T>> auto operator|=(U v) noexcept -> decltype(std::declval<A&>().fetch_or(v) | v) { return fetch_or(v) | v; }
  template <class U, class A = std::atomic<T>> auto operator&=(U v) noexcept -> decltype(std::declval<A&>().fetch_and(v) & v) { return fetch_and(v) & v; }
  template <class U, class A = std::atomic<T>> auto operator^=(U v) noexcept -> decltype(std::declval<A&>().fetch_xor(v) ^ v) { return fetch_xor(v) ^ v; }
};

// cooperative mutex: inside a controlled region a blocked thread is known to the scheduler
class verif_mutex_alias {
  std::mutex real;
public:
  verif_mutex_alias() = default;
  verif_mutex_alias(const verif_mutex_alias&) = delete;
  void lock() {
    if (verif::in_region()) {
      while (true) {
        verif::point(this, verif::K_YIELD, 2);
        if (real.try_lock()) { verif::OpScope s(this, verif::K_LOCK, 2, true); return; }
        verif::point(this, verif::K_SPIN, 0);
      }
    } else {
      real.lock();
      verif::OpScope s(this, verif::K_LOCK, 2, false);   // logged once the mutex is held
    }
  }
  bool try_lock() {
    if (verif::in_region()) verif::point(this, verif::K_LOCK, 2);
    bool r = real.try_lock();
    if (r) { verif::OpScope s(this, verif::K_LOCK, 2, true); }
    return r;
  }
  void unlock() {
    verif::OpScope s(this, verif::K_UNLOCK, 3, true);     // logged before the mutex is given up
    real.unlock();
  }
};

class verif_cv_alias {
  std::condition_variable_any real;
  std::atomic<unsigned long> gen{0};
public:
  verif_cv_alias() = default;
  verif_cv_alias(const verif_cv_alias&) = delete;
  void notify_one() noexcept { verif::point(this, verif::K_CVNOTIFY, 5); gen.fetch_add(1); real.notify_all(); verif::wrote(this); }
  void notify_all() noexcept { verif::point(this, verif::K_CVNOTIFY, 5); gen.fetch_add(1); real.notify_all(); verif::wrote(this); }
  template <class Lock>
  void wait(Lock& lk) {
    if (verif::in_region()) {
      unsigned long g = gen.load();
      verif::point(this, verif::K_CVWAIT, 5);
      lk.unlock();
      while (gen.load() == g) verif::point(this, verif::K_SPIN, 0);
      lk.lock();
    } else {
      verif::point(this, verif::K_CVWAIT, 5);
      real.wait(lk);
    }
  }
  template <class Lock, class Pred>
  void wait(Lock& lk, Pred p) {
    while (!p()) wait(lk);
  }
};

} // namespace std

#define atomic verif_atomic_alias
#define mutex verif_mutex_alias
#define condition_variable verif_cv_alias
#endif // __cplusplus
#endif
