// Controlled-schedule / jitter runtime for the harness (flavour C).  No Galois headers here.
#pragma once
#include <cstdint>

namespace verif {

enum Kind : int { K_LOAD = 0, K_STORE = 1, K_RMW = 2, K_SPIN = 3, K_LOCK = 4, K_UNLOCK = 5, K_CVWAIT = 6,
                  K_CVNOTIFY = 7, K_FENCE = 8, K_YIELD = 9 };
enum Mode : int { M_PASS = 0, M_JITTER = 1, M_CTL = 2, M_SERIAL = 3 };
// M_SERIAL: real concurrency, but every interposed operation is executed and logged under one global
// lock, so the recorded operation stream is a total order consistent with the execution (C06).

// scheduling point *before* a synchronisation operation of the code under test
void point(const void* addr, int kind, int mo);
// after a store / RMW (any operation that may change what a spinning thread observes)
void wrote(const void* addr);
int mode();
bool in_region();            // calling thread currently takes part in a controlled region
int self();                  // tid inside the region or -1

// ---- harness-side control -------------------------------------------------------------
struct Config {
  int mode = M_PASS;
  uint64_t seed = 1;
  int switch_pct = 25;       // rand strategy: probability (percent) of a context switch at a point
  int pct_depth = 0;         // >0: PCT with that many priority change points
  long max_steps = 4000000;  // per region; exceeding it = "steplimit"
  const unsigned char* prefix = nullptr; // explicit schedule prefix (thread ids), then the strategy continues
  long prefix_len = 0;
  int post_write = 1;        // also a scheduling point after every store / RMW (see wrote())
  int threads = 0;           // participants of the next regions (0: read galois::runtime::activeThreads)
};
void configure(const Config&);
void set_threads(int n);
void reseed(uint64_t seed);
// statistics / outcome of the last region
struct Outcome { long steps; long switches; int deadlock; int steplimit; long regions; };
Outcome last();
// executed schedule of the last region (thread id per step)
const unsigned char* schedule(long* len);
// called (in the failing thread) before the process exits on a proven deadlock / step limit
void on_abort(void (*cb)(const char* why));
// RAII bracket around one interposed operation (prelude wrappers)
struct OpScope {
  bool held;
  bool write;
  const void* addr;
  long idx;
  OpScope(const void* a, int kind, int mo, bool isWrite);
  ~OpScope();
  void failed(int failure_mo);   // a compare-exchange that failed is a load with the failure order
};
// harness-declared plain (non-atomic) access, logged into the same stream
void plain(int var, bool isWrite);
// serialized stream access (M_SERIAL and M_CTL): records since the last drain
struct OpRec { int tid; const void* addr; short kind; short mo; };
long drain(OpRec* buf, long cap);
void stream_on(bool on);
int thread_index();   // dense id of the calling thread in the stream

// optional operation stream (C06): every interposed operation of threads inside a region
typedef void (*OpLogger)(int tid, const void* addr, int kind, int mo);
void set_op_logger(OpLogger);

} // namespace verif
