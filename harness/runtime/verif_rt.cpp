// Controlled-schedule runtime (engine "ctl") and jitter mode of flavour C.
// Exactly one thread of a parallel region runs at a time; every interposed atomic / mutex /
// condvar operation and every asmPause() spin iteration is a scheduling point at which the
// running thread decides (seeded strategy or explicit schedule) who runs next.
#include "verif_rt.h"

#include <atomic>
#include <cstdio>
#include <cstdlib>
#include <cstring>
#include <pthread.h>
#include <sched.h>
#include <semaphore.h>
#include <time.h>
#include <unistd.h>
#include <ctime>
#include <vector>

namespace galois { namespace runtime { extern unsigned int activeThreads; } }

namespace verif {

static const int MAXT = 64;
struct Slot {
  sem_t sem;
  bool reg, fin;
  long spins;
  unsigned long spinEpoch;
  long prio;
  bool semInit;
};
static Slot slots[MAXT];
static Config cfg;
static pthread_mutex_t regM = PTHREAD_MUTEX_INITIALIZER;
static int expected = 0, arrived = 0, finishedCnt = 0;
static volatile int current = -1;
static unsigned long epoch = 0;
static long steps = 0, switches = 0, lastProgress = 0, regions = 0;
static std::vector<unsigned char> sched;
static Outcome outcome = {0, 0, 0, 0, 0};
static thread_local int tl_tid = -1;
static thread_local unsigned long tl_jit = 0;
static void (*abortCb)(const char*) = nullptr;
static OpLogger opLogger = nullptr;
static std::vector<long> changePoints;
static long lowPrio = 0;

struct Rng {
  unsigned long s;
  unsigned long next() {
    unsigned long z = (s += 0x9E3779B97F4A7C15ull);
    z = (z ^ (z >> 30)) * 0xBF58476D1CE4E5B9ull;
    z = (z ^ (z >> 27)) * 0x94D049BB133111EBull;
    return z ^ (z >> 31);
  }
  unsigned long below(unsigned long n) { return n ? next() % n : 0; }
};
static Rng rng = {1};

int mode() { return cfg.mode; }
bool in_region() { return tl_tid >= 0; }
int self() { return tl_tid; }
void configure(const Config& c) { cfg = c; rng.s = c.seed * 0x2545F4914F6CDD1Dull + 77; }
void set_threads(int n) { cfg.threads = n; }
void reseed(uint64_t seed) { cfg.seed = seed; rng.s = seed * 0x2545F4914F6CDD1Dull + 77; }
Outcome last() { return outcome; }
const unsigned char* schedule(long* len) { *len = (long)sched.size(); return sched.data(); }
void on_abort(void (*cb)(const char*)) { abortCb = cb; }
void set_op_logger(OpLogger l) { opLogger = l; }

static void dumpSchedule() {
  const char* p = getenv("VERIF_SCHED_OUT");
  if (!p) return;
  FILE* f = fopen(p, "w");
  if (!f) return;
  for (size_t i = 0; i < sched.size(); ++i) fprintf(f, "%d%s", (int)sched[i], (i + 1) % 64 ? " " : "\n");
  fprintf(f, "\n");
  fclose(f);
}

static void abortRun(const char* why) {
  fprintf(stderr, "VERIF-ABORT %s steps=%ld switches=%ld region=%ld expected=%d finished=%d\n", why, steps, switches,
          regions, expected, finishedCnt);
  for (int t = 0; t < expected && t < MAXT; ++t)
    fprintf(stderr, "  thread %d: %s spins=%ld\n", t, slots[t].fin ? "finished" : (slots[t].reg ? "live" : "absent"),
            slots[t].spins);
  dumpSchedule();
  if (abortCb) abortCb(why);
  fflush(nullptr);
  _exit(strcmp(why, "deadlock") == 0 ? 43 : (strcmp(why, "steplimit") == 0 ? 44 : 45));
}

static inline bool blocked(int t) { return slots[t].spins >= 2 && slots[t].spinEpoch == epoch; }

static int chooseNext(int me) {
  int cands[MAXT], nc = 0, live[MAXT], nl = 0;
  for (int t = 0; t < expected; ++t) {
    if (!slots[t].reg || slots[t].fin) continue;
    live[nl++] = t;
    if (!blocked(t)) cands[nc++] = t;
  }
  if (nl == 0) return -1;
  long idx = (long)sched.size();
  if (cfg.prefix && idx < cfg.prefix_len) {
    int p = cfg.prefix[idx];
    if (p < expected && slots[p].reg && !slots[p].fin) return p;
  }
  long hard = 400L * nl + 4000;
  long quiet = steps - lastProgress;
  if (quiet > hard) abortRun("deadlock");
  if (nc > 0 && quiet > 150) {
    // nobody has written anything for a while (threads polling with loads only): turn strictly
    // fairly among the runnable threads so that whoever can make progress does; the hard limit
    // is therefore only reached when no thread can
    int start = 0;
    for (int i = 0; i < nc; ++i) if (cands[i] == me) start = i + 1;
    return cands[start % nc];
  }
  if (nc == 0) {
    // every live thread spins without any write in between: keep turning fairly; the hard limit decides
    int start = 0;
    for (int i = 0; i < nl; ++i) if (live[i] == me) start = i + 1;
    return live[start % nl];
  }
  if (cfg.pct_depth > 0) {
    for (size_t k = 0; k < changePoints.size(); ++k)
      if (changePoints[k] == steps && me >= 0) slots[me].prio = --lowPrio;
    // PCT never preempts the thread with the highest priority unless it yields.  A busy loop without a spin hint (e.g. retrying
    // to steal while the victim's lock holder is descheduled) would then run for ever: after a long uninterrupted run the
    // running thread is treated as if it had yielded.  Real schedulers are at least this fair.
    static int lastRun = -1;
    static long runLen = 0;
    if (me == lastRun) ++runLen; else { lastRun = me; runLen = 0; }
    if (me >= 0 && runLen > 20000) { slots[me].prio = --lowPrio; runLen = 0; }
    int best = cands[0];
    for (int i = 1; i < nc; ++i) if (slots[cands[i]].prio > slots[best].prio) best = cands[i];
    return best;
  }
  bool meOk = false;
  for (int i = 0; i < nc; ++i) if (cands[i] == me) meOk = true;
  if (meOk && (int)rng.below(100) >= cfg.switch_pct) return me;
  return cands[rng.below(nc)];
}

static void waitTurn(int me) {
  struct timespec ts;
  while (true) {
    clock_gettime(CLOCK_REALTIME, &ts);
    ts.tv_sec += 60;
    if (sem_timedwait(&slots[me].sem, &ts) == 0) return;
    // nobody handed the token over for a minute: the controller itself is stuck
    fprintf(stderr, "VERIF-ABORT controller-timeout thread=%d\n", me);
    fflush(nullptr);
    _exit(45);
  }
}

static void jitter() {
  if (!tl_jit) tl_jit = cfg.seed * 0x9E3779B97F4A7C15ull + (unsigned long)pthread_self();
  tl_jit ^= tl_jit << 13; tl_jit ^= tl_jit >> 7; tl_jit ^= tl_jit << 17;
  unsigned r = tl_jit & 1023;
  if (r < 96) sched_yield();
  else if (r < 104) { struct timespec ts = {0, (long)(20000 + (tl_jit >> 12) % 60000)}; nanosleep(&ts, nullptr); }
}

void point(const void* addr, int kind, int mo) {
  if (cfg.mode == M_PASS || cfg.mode == M_SERIAL) return;
  if (cfg.mode == M_JITTER) { jitter(); return; }
  int me = tl_tid;
  if (me < 0) return;
  if (opLogger) opLogger(me, addr, kind, mo);
  Slot& s = slots[me];
  if (kind == K_SPIN) {
    if (s.spinEpoch != epoch) { s.spinEpoch = epoch; s.spins = 0; }
    s.spins++;
    // PCT: a spin hint is a yield -- the polling thread drops below everybody else, otherwise a
    // high-priority thread polling for work would starve the thread that has the work
    if (cfg.pct_depth > 0) s.prio = --lowPrio;
  } else if (kind != K_LOAD && kind != K_LOCK) {
    s.spins = 0; // loads (and failed lock attempts) are what a spin loop consists of
  }
  ++steps;
  if (steps > cfg.max_steps) abortRun("steplimit");
  int next = chooseNext(me);
  sched.push_back((unsigned char)next);
  if (next != me) {
    ++switches;
    current = next;
    sem_post(&slots[next].sem);
    waitTurn(me);
  }
}

// ---- serialized operation stream ---------------------------------------------------------
static std::atomic<int> G(0);
static std::vector<OpRec> stream;
static bool streamOn = false;
static std::atomic<int> nextIndex(0);
static thread_local int tl_index = -1;
int thread_index() {
  if (tl_index < 0) tl_index = nextIndex.fetch_add(1);
  return tl_index;
}
void stream_on(bool on) { streamOn = on; }
long drain(OpRec* buf, long cap) {
  long n = (long)stream.size() < cap ? (long)stream.size() : cap;
  for (long i = 0; i < n; ++i) buf[i] = stream[i];
  stream.erase(stream.begin(), stream.begin() + n);
  return n;
}
// an operation stream that keeps growing without being drained belongs to an execution that is not making progress
// (every thread spinning): stop before it exhausts memory; 124 is what the drivers read as "did not finish"
static inline void streamGuard() {
  if (stream.size() > 200000000) {
    const char m[] = "verif_rt: runaway operation stream\n";
    if (write(2, m, sizeof m - 1)) {}
    if (abortCb) abortCb("runaway");
    _exit(124);
  }
}
static inline void lockG() { int z = 0; while (!G.compare_exchange_weak(z, 1, std::memory_order_acquire)) { z = 0; sched_yield(); } }
static inline void unlockG() { G.store(0, std::memory_order_release); }

// spin compression (serial mode, under G): a load identical to the thread's previous record, with nothing at all written
// by anybody in between, reads the same value and changes no clock -- it is not recorded
struct LastRec { const void* a; short kind, mo; long gw; };
static LastRec lastOf[256], prevOf[256];
static long gwrites = 0;
static time_t lastPush = 0;
static inline bool sameLoad(const LastRec& l, const void* a, int mo) { return l.a == a && l.kind == (short)K_LOAD && l.mo == (short)mo && l.gw == gwrites; }

OpScope::OpScope(const void* a, int kind, int mo, bool isWrite) : held(false), write(isWrite), addr(a), idx(-1) {
  if (cfg.mode == M_SERIAL) {
    if (!streamOn || kind == K_SPIN) return;
    lockG();
    held = true;
    int ti = thread_index() & 255;
    if (kind == K_LOAD && sameLoad(lastOf[ti], a, mo)) {
      // nothing but repeated loads by anybody for a minute: every thread is waiting for a store that never comes
      static long drops = 0;
      if ((++drops & 0xFFFF) == 0 && ::time(nullptr) - lastPush > 60) {
        const char m[] = "verif_rt: no progress for 60 s (all threads spinning)\n";
        if (::write(2, m, sizeof m - 1)) {}
        if (abortCb) abortCb("stalled");
        _exit(124);
      }
      return;
    }
    lastPush = ::time(nullptr);
    streamGuard();
    if (kind != K_LOAD) ++gwrites;
    idx = (long)stream.size();
    stream.push_back(OpRec{thread_index(), a, (short)kind, (short)mo});
    prevOf[ti] = lastOf[ti];
    lastOf[ti] = LastRec{a, (short)kind, (short)mo, gwrites};
    return;
  }
  if (cfg.mode == M_CTL && streamOn && tl_tid >= 0 && kind != K_SPIN) {
    point(a, kind, mo);                 // the switch happens before the operation: log when it is our turn again
    idx = (long)stream.size();
    stream.push_back(OpRec{tl_tid, a, (short)kind, (short)mo});
    return;
  }
  point(a, kind, mo);
}
void OpScope::failed(int fmo) {
  if (idx >= 0 && idx < (long)stream.size()) {
    stream[idx].kind = (short)K_LOAD; stream[idx].mo = (short)fmo;
    if (held && cfg.mode == M_SERIAL) {
      // (still under G: the record is the last one) it wrote nothing after all; a repeated failed exchange is a spin
      int ti = thread_index() & 255;
      --gwrites;
      if (idx == (long)stream.size() - 1 && sameLoad(prevOf[ti], addr, fmo)) { stream.pop_back(); lastOf[ti] = prevOf[ti]; idx = -1; }
      else lastOf[ti] = LastRec{addr, (short)K_LOAD, (short)fmo, gwrites};
    }
  }
  write = false;
}
OpScope::~OpScope() {
  if (held) { unlockG(); return; }
  if (write) wrote(addr);
}
void plain(int var, bool isWrite) {
  if (!streamOn) return;
  if (cfg.mode == M_SERIAL) {
    lockG();
    streamGuard();
    ++gwrites;
    stream.push_back(OpRec{thread_index(), (const void*)(long)var, (short)(isWrite ? 21 : 20), 0});
    unlockG();
  } else if (cfg.mode == M_CTL && tl_tid >= 0) {
    stream.push_back(OpRec{tl_tid, (const void*)(long)var, (short)(isWrite ? 21 : 20), 0});
  }
}

void wrote(const void*) {
  if (cfg.mode != M_CTL || tl_tid < 0) return;
  ++epoch;
  lastProgress = steps;
  // a second scheduling point *after* a store / RMW: the plain (uninstrumented) accesses that follow it in
  // program order can then be separated from it by other threads -- without this a racy "unlock; then tidy up
  // the object" sequence would always execute atomically
  if (!cfg.post_write) return;
  int me = tl_tid;
  ++steps;
  if (steps > cfg.max_steps) abortRun("steplimit");
  int next = chooseNext(me);
  sched.push_back((unsigned char)next);
  if (next != me) {
    ++switches;
    current = next;
    sem_post(&slots[next].sem);
    waitTurn(me);
  }
}

static void regionReset() {
  steps = 0; switches = 0; lastProgress = 0; epoch = 0; finishedCnt = 0;
  sched.clear();
  ++regions;
  expected = cfg.threads > 0 ? cfg.threads : (int)galois::runtime::activeThreads;
  if (expected > MAXT) expected = MAXT;
  for (int t = 0; t < MAXT; ++t) {
    if (!slots[t].semInit) { sem_init(&slots[t].sem, 0, 0); slots[t].semInit = true; }
    slots[t].reg = false; slots[t].fin = false; slots[t].spins = 0; slots[t].spinEpoch = ~0ul;
    slots[t].prio = (long)rng.below(1000000) + 1000;
  }
  lowPrio = 0;
  changePoints.clear();
  for (int k = 0; k < cfg.pct_depth; ++k) changePoints.push_back(1 + (long)rng.below(cfg.pct_depth > 0 ? 3000 : 1));
}

} // namespace verif

using namespace verif;

extern "C" void galois_verif_spin() {
  if (cfg.mode == M_PASS || cfg.mode == M_SERIAL) return;
  point(nullptr, K_SPIN, 0);
}

extern "C" void galois_verif_thread_begin(unsigned tid) {
  if (cfg.mode != M_CTL) return;
  if ((int)tid >= MAXT) return;
  pthread_mutex_lock(&regM);
  if (arrived == 0) regionReset();
  if ((int)tid >= expected) { // a thread that is not a participant of this region runs free
    pthread_mutex_unlock(&regM);
    return;
  }
  slots[tid].reg = true;
  ++arrived;
  bool lastOne = arrived == expected;
  pthread_mutex_unlock(&regM);
  tl_tid = (int)tid;
  if (lastOne) {
    int first = chooseNext(-1);
    sched.push_back((unsigned char)first);
    current = first;
    if (first != (int)tid) {
      sem_post(&slots[first].sem);
      waitTurn((int)tid);
    }
  } else {
    waitTurn((int)tid);
  }
}

extern "C" void galois_verif_thread_end(unsigned tid) {
  if (tl_tid < 0) return;
  int me = tl_tid;
  tl_tid = -1;
  slots[me].fin = true;
  ++finishedCnt;
  lastProgress = steps;
  ++epoch;
  if (finishedCnt == expected) {
    outcome.steps = steps; outcome.switches = switches; outcome.deadlock = 0; outcome.steplimit = 0;
    outcome.regions = regions;
    current = -1;
    pthread_mutex_lock(&regM);
    arrived = 0;
    pthread_mutex_unlock(&regM);
    return;
  }
  int next = chooseNext(-1);
  sched.push_back((unsigned char)next);
  current = next;
  sem_post(&slots[next].sem);
}
