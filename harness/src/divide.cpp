// C13 binding: calls the real work-division routines on enumerated + random inputs and
// logs (input, returned pieces) records for TLC (TraceDivide.tla).
//   divide <out.ndjson> <seed> <tier> <tmpdir>
#include "vh/json.h"

#include "galois/Galois.h"
#include "galois/gstl.h"
#include "galois/graphs/GraphHelpers.h"
#include "galois/graphs/FileGraph.h"
#include "galois/graphs/OfflineGraph.h"
#include "galois/runtime/Range.h"

#include <boost/iterator/counting_iterator.hpp>
#include <forward_list>
#include <list>
#include <vector>
#include <string>

using vh::Rec;
typedef std::vector<long long> VL;
typedef std::vector<VL> VVL;

static vh::Out* out;

// ------------------------------------------------------------------ block_range
template <typename IntTy>
static void blockInt(const char* ty, long long b, long long d, unsigned n) {
  VVL pieces;
  for (unsigned i = 0; i < n; ++i) {
    auto r = galois::block_range<IntTy>((IntTy)b, (IntTy)(b + d), i, n);
    pieces.push_back({(long long)r.first, (long long)r.second});
  }
  out->line(Rec().str("k", "block").str("ty", ty).i("b", b).i("d", d).i("n", n).raw("p", vh::jarr2(pieces)));
}

template <typename Cont>
static void blockIter(const char* ty, long long d, unsigned n) {
  Cont c;
  for (long long i = 0; i < d; ++i) c.push_front((int)i);
  VVL pieces;
  for (unsigned i = 0; i < n; ++i) {
    auto r = galois::block_range(c.begin(), c.end(), i, n);
    pieces.push_back({(long long)std::distance(c.begin(), r.first),
                      (long long)std::distance(c.begin(), r.second)});
  }
  out->line(Rec().str("k", "block").str("ty", ty).i("b", 0).i("d", d).i("n", n).raw("p", vh::jarr2(pieces)));
}

static void blockPtr(long long d, unsigned n) {
  std::vector<int> v(d + 1);
  int* base = v.data();
  VVL pieces;
  for (unsigned i = 0; i < n; ++i) {
    auto r = galois::block_range(base, base + d, i, n);
    pieces.push_back({(long long)(r.first - base), (long long)(r.second - base)});
  }
  out->line(Rec().str("k", "block").str("ty", "ptr").i("b", 0).i("d", d).i("n", n).raw("p", vh::jarr2(pieces)));
}

static void blockCounting(long long b, long long d, unsigned n) {
  typedef boost::counting_iterator<uint64_t> It;
  VVL pieces;
  for (unsigned i = 0; i < n; ++i) {
    auto r = galois::block_range(It(b), It(b + d), i, n);
    pieces.push_back({(long long)*r.first, (long long)*r.second});
  }
  out->line(Rec().str("k", "block").str("ty", "counting").i("b", b).i("d", d).i("n", n).raw("p", vh::jarr2(pieces)));
}

// 64-bit extremes below the overflow threshold: dist + num - 1 < 2^64 and numper*num < 2^64
static void blockBig(uint64_t d, unsigned n, bool iter = false) {
  unsigned __int128 lim = ((unsigned __int128)1) << 64;
  if ((unsigned __int128)d + n - 1 >= lim) return;
  unsigned __int128 numper = ((unsigned __int128)d + n - 1) / n;
  if (numper == 0) numper = 1;
  if (numper * n >= lim) return;
  std::vector<unsigned> ids = {0, 1, 2, n / 2, n / 2 + 1, n >= 2 ? n - 2 : 0, n - 1};
  std::string lo = "[", hi = "[", idl = "[";
  bool first = true;
  std::vector<unsigned> done;
  for (unsigned id : ids) {
    if (id >= n) continue;
    if (std::find(done.begin(), done.end(), id) != done.end()) continue;
    done.push_back(id);
  }
  std::sort(done.begin(), done.end());
  for (unsigned id : done) {
    std::pair<uint64_t, uint64_t> r;
    if (iter) {   // the iterator overload (what StandardRange / every static do_all uses), on counting iterators
      typedef boost::counting_iterator<uint64_t> CI;
      auto ri = galois::block_range(CI(0), CI(d), id, n);
      r = {*ri.first, *ri.second};
    } else r = galois::block_range<uint64_t>(0, d, id, n);
    if (!first) { lo += ","; hi += ","; idl += ","; }
    first = false;
    lo += vh::limbs(r.first); hi += vh::limbs(r.second); idl += std::to_string(id);
  }
  lo += "]"; hi += "]"; idl += "]";
  out->line(Rec().str("k", "blockbig").raw("d", vh::limbs(d)).i("n", n).raw("ids", idl).raw("lo", lo).raw("hi", hi));
}

// ------------------------------------------------------------------ graph divisions
struct FakeGraph {
  std::vector<uint64_t> ps; // ps[n] = edge end of node n
  typedef boost::counting_iterator<uint64_t> edge_iterator;
  edge_iterator edge_begin(uint64_t n) { return edge_iterator(n == 0 ? 0 : ps[n - 1]); }
  edge_iterator edge_end(uint64_t n) { return edge_iterator(ps[n]); }
  uint64_t operator[](uint64_t n) { return ps[n]; }
  size_t size() const { return ps.size(); }
};

static std::vector<uint64_t> prefix(const VL& deg) {
  std::vector<uint64_t> ps;
  uint64_t s = 0;
  for (auto d : deg) { s += d; ps.push_back(s); }
  return ps;
}

template <typename NodeTy>
static void divideCase(const char* ty, const VL& deg, size_t nw, size_t ew, size_t total,
                       const std::vector<unsigned>& scale, size_t bn, size_t en) {
  // sub-range [bn,en) of the prefix sum, addressed through nodeOffset/edgeOffset
  auto ps       = prefix(deg);
  uint64_t eoff = bn ? ps[bn - 1] : 0;
  uint64_t nn   = en - bn;
  uint64_t ne   = (en ? ps[en - 1] : 0) - eoff;
  VVL r;
  for (size_t id = 0; id < total; ++id) {
    auto g = galois::graphs::divideNodesBinarySearch<std::vector<uint64_t>, NodeTy>(
        (NodeTy)nn, ne, nw, ew, id, total, ps, scale, eoff, bn);
    r.push_back({(long long)*g.first.first, (long long)*g.first.second,
                 (long long)*g.second.first, (long long)*g.second.second});
  }
  out->line(Rec().str("k", "divide").str("ty", ty).arr("deg", deg).i("nw", nw).i("ew", ew).i("t", total)
                .arr("sc", scale).i("bn", bn).i("en", en).i("nn", nn).i("ne", ne).raw("r", vh::jarr2(r)));
}

static void unitCase(const VL& deg, unsigned units, unsigned bn, unsigned en, unsigned alpha, int variant) {
  auto ps = prefix(deg);
  std::vector<uint32_t> r;
  const char* v;
  FakeGraph g{ps};
  switch (variant) {
  case 0: v = "ps"; r = galois::graphs::determineUnitRangesFromPrefixSum(units, ps, alpha); break;
  case 1: v = "ps_sub"; r = galois::graphs::determineUnitRangesFromPrefixSum(units, ps, bn, en, alpha); break;
  case 2: v = "graph"; r = galois::graphs::determineUnitRangesFromGraph(g, units, alpha); break;
  default: v = "graph_sub"; r = galois::graphs::determineUnitRangesFromGraph(g, units, bn, en, alpha); break;
  }
  if (variant == 0 || variant == 2) { bn = 0; en = deg.size(); }
  out->line(Rec().str("k", "unit").str("v", v).arr("deg", deg).i("t", units).i("bn", bn).i("en", en)
                .i("alpha", alpha).arr("r", r));
}

// FileGraph built in memory through the writer; divideByNode / divideByEdge; OfflineGraph from disk
static void fileGraphCase(const VL& deg, size_t nw, size_t ew, size_t total, const std::string& tmp, bool offline) {
  galois::graphs::FileGraphWriter w;
  size_t nn = deg.size(), ne = 0;
  for (auto d : deg) ne += d;
  w.setNumNodes(nn);
  w.setNumEdges<void>(ne);
  w.phase1();
  for (size_t i = 0; i < nn; ++i) w.incrementDegree(i, deg[i]);
  w.phase2();
  for (size_t i = 0; i < nn; ++i)
    for (long long k = 0; k < deg[i]; ++k) w.addNeighbor(i, (i + k) % nn);
  w.finish();
  VVL r, r2;
  for (size_t id = 0; id < total; ++id) {
    auto g = w.divideByNode(nw, ew, id, total);
    r.push_back({(long long)*g.first.first, (long long)*g.first.second,
                 (long long)*g.second.first, (long long)*g.second.second});
    auto h = w.divideByEdge(nw, ew, id, total);
    r2.push_back({(long long)*h.first.first, (long long)*h.first.second,
                  (long long)*h.second.first, (long long)*h.second.second});
  }
  std::vector<unsigned> nosc;
  out->line(Rec().str("k", "divide").str("ty", "FileGraph").arr("deg", deg).i("nw", nw).i("ew", ew).i("t", total)
                .arr("sc", nosc).i("bn", 0).i("en", nn).i("nn", nn).i("ne", ne).raw("r", vh::jarr2(r)));
  out->line(Rec().str("k", "byedge").arr("deg", deg).i("t", total).i("nn", nn).i("ne", ne).raw("r", vh::jarr2(r2)));
  if (offline && nn > 0) {
    std::string path = tmp + "/divide_tmp.gr";
    w.toFile(path);
    galois::graphs::OfflineGraph og(path);
    VVL r3;
    for (size_t id = 0; id < total; ++id) {
      auto g = og.divideByNode(nw, ew, id, total);
      r3.push_back({(long long)*g.first.first, (long long)*g.first.second,
                    (long long)*g.second.first, (long long)*g.second.second});
    }
    out->line(Rec().str("k", "divide").str("ty", "OfflineGraph").arr("deg", deg).i("nw", nw).i("ew", ew).i("t", total)
                  .arr("sc", nosc).i("bn", 0).i("en", nn).i("nn", nn).i("ne", ne).raw("r", vh::jarr2(r3)));
    // every host of a distributed run loads its share with partFromFile (non-zero node / edge offsets)
    // and divides it again among its threads
    for (size_t hosts = 1; hosts <= 3; ++hosts)
      for (size_t h = 0; h < hosts; ++h) {
        auto share = w.divideByNode(0, 1, h, hosts);
        if (share.first.first == share.first.second) continue;
        galois::graphs::FileGraph part;
        part.partFromFile(path, share.first, share.second, false);
        size_t gb = *share.first.first, ge = *share.first.second;
        for (size_t tt = 1; tt <= 3; ++tt) {
          VVL r4;
          for (size_t id = 0; id < tt; ++id) {
            auto g = part.divideByNode(nw, ew, id, tt);
            r4.push_back({(long long)*g.first.first, (long long)*g.first.second,
                          (long long)*g.second.first, (long long)*g.second.second});
          }
          out->line(Rec().str("k", "divide").str("ty", "FileGraphPart").arr("deg", deg).i("nw", nw).i("ew", ew).i("t", tt)
                        .arr("sc", nosc).i("bn", gb).i("en", ge).i("nn", ge - gb).i("ne", part.sizeEdges()).raw("r", vh::jarr2(r4)));
        }
      }
  }
}

// SpecificRange::block_pair is evaluated on the pool threads themselves
static void specificCase(const std::vector<uint32_t>& tb, unsigned threads, uint32_t gb, uint32_t ge) {
  typedef boost::counting_iterator<uint32_t> It;
  galois::setActiveThreads(threads);
  std::vector<VL> pieces(threads, VL{0, 0});
  auto range = galois::runtime::makeSpecificRange(It(gb), It(ge), tb.data());
  galois::on_each([&](unsigned tid, unsigned) {
    auto p      = range.block_pair();
    pieces[tid] = {(long long)*p.first, (long long)*p.second};
  });
  out->line(Rec().str("k", "specific").arr("tb", tb).i("threads", threads).i("gb", gb).i("ge", ge)
                .raw("p", vh::jarr2(pieces)));
}

static void enumDeg(unsigned maxNodes, unsigned maxDeg, std::vector<VL>& res) {
  res.push_back({});
  size_t start = 0;
  for (unsigned k = 1; k <= maxNodes; ++k) {
    size_t end = res.size();
    for (size_t i = start; i < end; ++i)
      for (unsigned d = 0; d <= maxDeg; ++d) { VL x = res[i]; x.push_back(d); res.push_back(x); }
    start = end;
  }
}

int main(int argc, char** argv) {
  if (argc < 5) { fprintf(stderr, "usage: divide out seed tier tmpdir\n"); return 2; }
  vh::Out o(argv[1]);
  out = &o;
  vh::Rng rng(strtoull(argv[2], 0, 10));
  bool thorough = std::string(argv[3]) == "thorough";
  std::string tmp = argv[4];
  galois::SharedMemSys G;

  // ---- block_range: exhaustive small
  long long maxD = thorough ? 70 : 40;
  unsigned maxN = thorough ? 13 : 9;
  for (long long d = 0; d <= maxD; ++d)
    for (unsigned n = 1; n <= maxN; ++n) {
      blockInt<size_t>("size_t", 0, d, n);
      blockInt<uint32_t>("uint32_t", 5, d, n);
      blockInt<long>("long", 0, d, n);
      blockCounting(2, d, n);
      if (d <= 24) { blockIter<std::forward_list<int>>("fwd", d, n); blockIter<std::list<int>>("list", d, n); }
      blockPtr(d, n);
    }
  // random medium
  for (int k = 0; k < (thorough ? 4000 : 800); ++k) {
    long long d = rng.below(100000);
    unsigned n  = 1 + rng.below(rng.coin() ? 64 : 300);
    if (n > 300) n = 300;
    blockInt<size_t>("size_t", rng.below(1000), d, n);
  }
  // 64-bit extremes
  {
    std::vector<uint64_t> ds = {~0ull, ~0ull - 1, ~0ull - 15, 1ull << 63, (1ull << 63) - 1, (1ull << 63) + 1,
                                1ull << 32, (1ull << 32) - 1, (1ull << 32) + 1, 1ull << 62, 0xfffffffffffffff0ull,
                                0x8000000000000001ull, 12345678901234567ull};
    std::vector<unsigned> ns = {1, 2, 3, 5, 7, 16, 64, 1000, 65536, 0x7fffffff};
    for (int k = 0; k < 40; ++k) ds.push_back(rng.next() | (1ull << 63));
    for (auto d : ds)
      for (auto n : ns) { blockBig(d, n); blockBig(d, n, true); }
  }

  // ---- divideNodesBinarySearch: exhaustive small degree sequences
  std::vector<VL> degs;
  enumDeg(thorough ? 5 : 4, thorough ? 3 : 2, degs);
  unsigned maxParts = thorough ? 5 : 4;
  std::vector<unsigned> nosc;
  for (auto& deg : degs) {
    for (size_t nw = 0; nw <= 2; ++nw)
      for (size_t ew = 0; ew <= 2; ++ew) {
        if (!nw && !ew) continue;
        for (size_t t = 1; t <= maxParts; ++t) {
          divideCase<uint64_t>("u64", deg, nw, ew, t, nosc, 0, deg.size());
          if (nw == 1 && ew == 1) divideCase<uint32_t>("u32", deg, nw, ew, t, nosc, 0, deg.size());
        }
      }
    // scale factors over {1,2,3}
    for (size_t t = 1; t <= 3; ++t) {
      unsigned combos = 1;
      for (size_t i = 0; i < t; ++i) combos *= 3;
      for (unsigned c = 0; c < combos; ++c) {
        std::vector<unsigned> sc;
        unsigned x = c;
        for (size_t i = 0; i < t; ++i) { sc.push_back(1 + x % 3); x /= 3; }
        divideCase<uint64_t>("u64", deg, 1, 1, t, sc, 0, deg.size());
        if (deg.size() >= 2) divideCase<uint64_t>("u64", deg, 0, 1, t, sc, 1, deg.size());
      }
    }
    // node/edge offsets: every sub-range
    for (size_t bn = 0; bn <= deg.size(); ++bn)
      for (size_t en = bn; en <= deg.size(); ++en)
        for (size_t t = 1; t <= 3; ++t) {
          if (bn == 0 && en == deg.size()) continue;
          divideCase<uint64_t>("u64", deg, 1, 1, t, nosc, bn, en);
          divideCase<uint32_t>("u32", deg, 0, 1, t, nosc, bn, en);
        }
    // unit ranges, all four entry points
    for (unsigned t = 1; t <= maxParts + 1; ++t)
      for (unsigned alpha = 0; alpha <= 2; ++alpha) {
        if (!deg.empty()) { unitCase(deg, t, 0, 0, alpha, 0); }
        if (!deg.empty()) unitCase(deg, t, 0, 0, alpha, 2);
        if (alpha == 0) unitCase(deg, t, 0, 0, alpha, 0);
        for (unsigned bn = 0; bn <= deg.size(); ++bn)
          for (unsigned en = bn; en <= deg.size(); ++en) {
            unitCase(deg, t, bn, en, alpha, 1);
            unitCase(deg, t, bn, en, alpha, 3);
          }
      }
    // FileGraph / OfflineGraph
    if (!deg.empty())
      for (size_t t = 1; t <= maxParts; ++t) {
        fileGraphCase(deg, 1, 1, t, tmp, deg.size() >= 3 && t == 2);
        if (deg.size() >= 3 && t == 1) fileGraphCase(deg, 0, 1, t, tmp, true);
        fileGraphCase(deg, 0, 1, t, tmp, false);
        fileGraphCase(deg, 8, 4, t, tmp, false);
      }
  }
  // random larger: skewed degrees, zero runs, all edges on one node
  for (int k = 0; k < (thorough ? 3000 : 500); ++k) {
    unsigned nn = 1 + rng.below(40);
    VL deg(nn, 0);
    int shape = rng.below(4);
    for (unsigned i = 0; i < nn; ++i) {
      if (shape == 0) deg[i] = rng.below(8);
      else if (shape == 1) deg[i] = rng.coin(1, 5) ? rng.below(30) : 0;
      else if (shape == 2) deg[i] = 0;
      else deg[i] = rng.below(3);
    }
    if (shape == 2) deg[rng.below(nn)] = 1 + rng.below(60);
    size_t t = 1 + rng.below(12);
    size_t nw = rng.below(4), ew = rng.below(4);
    if (!nw && !ew) ew = 1;
    std::vector<unsigned> sc;
    if (rng.coin(1, 3)) for (size_t i = 0; i < t; ++i) sc.push_back(1 + rng.below(4));
    size_t bn = 0, en = nn;
    if (rng.coin(1, 3)) { bn = rng.below(nn + 1); en = bn + rng.below(nn - bn + 1); }
    divideCase<uint64_t>("u64", deg, nw, ew, t, sc, bn, en);
    unitCase(deg, 1 + rng.below(10), bn, en, rng.below(3), rng.below(4));
    if (k % 10 == 0) fileGraphCase(deg, nw, ew, t, tmp, k % 50 == 0);
  }

  // ---- SpecificRange clipping, on the pool threads
  unsigned maxT = std::min(4u, galois::substrate::getThreadPool().getMaxThreads());
  for (unsigned threads = 1; threads <= maxT; ++threads) {
    // all monotone beginnings over 0..4
    std::vector<uint32_t> tb(threads + 1, 0);
    std::function<void(unsigned)> rec = [&](unsigned pos) {
      if (pos == threads + 1) {
        uint32_t last = tb[threads];
        for (uint32_t gb = 0; gb <= last; ++gb)
          for (uint32_t ge = gb; ge <= last; ++ge) specificCase(tb, threads, gb, ge);
        return;
      }
      for (uint32_t v = tb[pos - 1]; v <= (thorough ? 5u : 4u); ++v) { tb[pos] = v; rec(pos + 1); }
    };
    rec(1);
  }
  fprintf(stderr, "divide: %lld records\n", o.n);
  return 0;
}
