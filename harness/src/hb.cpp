// C06 binding (flavour C only): locks exclude, and the promised synchronisation edges are
// happens-before edges under the memory orders the code requests.  Every scenario runs the real
// primitives / loops with harness-declared plain variables that are only accessed under the
// promised protection; the complete operation stream goes to TraceHB.tla.
//   hb <out.ndjson> <seed> <tier> <mode: serial|ctl>
#include "vh/json.h"
#include "vh/events.h"
#include "galois/Galois.h"
#include "galois/substrate/SimpleLock.h"
#include "galois/substrate/PtrLock.h"
#include "galois/substrate/PaddedLock.h"
#include "galois/substrate/ThreadRWlock.h"
#include "galois/substrate/Barrier.h"
#include "galois/runtime/Context.h"
#include "galois/worklists/WorkList.h"
#include "verif_rt.h"
#include <map>
#include <cstring>
#include <unistd.h>

using vh::kv; using vh::ks;
static FILE* F;
static std::string g_mode;
static long g_records = 0;
static std::string g_scn;

static void arm(int threads, uint64_t s) {
  verif::Config cfg;
  cfg.mode = g_mode == "ctl" ? verif::M_CTL : verif::M_SERIAL;
  cfg.seed = s;
  cfg.switch_pct = 10 + (int)(s % 60);
  cfg.pct_depth = (s % 4 == 3) ? 1 + (int)((s >> 8) % 3) : 0;
  cfg.max_steps = 3000000;
  cfg.threads = threads;
  verif::configure(cfg);
  verif::stream_on(true);
}
// The records of a scenario are held back until it ends.  On a heavily loaded machine the idle threads of a loop poll
// thousands of times while the one thread with work waits for a CPU, and a scenario that normally has some 40,000 records
// grows to millions; such a scenario is left out of the trace (an empty execution), never cut short -- a cut stream would
// miss synchronisation edges and raise false alarms.
static std::string g_pend, g_notes;
static long g_pendN = 0, g_skipped = 0;
static const long SCN_LIMIT = 1500000;
static void dump() {
  static std::vector<verif::OpRec> buf(1 << 16);
  static std::map<const void*, int> ids;
  long n;
  while ((n = verif::drain(buf.data(), (long)buf.size())) > 0) {
    for (long i = 0; i < n; ++i) {
      auto& r = buf[i];
      int x;
      if (r.kind >= 20) x = (int)(long)r.addr;
      else {
        auto it = ids.find(r.addr);
        if (it == ids.end()) it = ids.insert({r.addr, (int)ids.size() + 1}).first;
        x = it->second;
      }
      // spin compression: a load identical to the thread's previous record, with no write to that
      // location in between, cannot change any clock -- drop it
      static std::map<int, long> version;                     // location -> number of writes so far
      struct Last { int x, k, mo; long ver; };
      static std::map<int, Last> last;                        // thread -> last emitted record
      if (r.kind == verif::K_LOAD) {
        auto it = last.find(r.tid);
        if (it != last.end() && it->second.x == x && it->second.k == r.kind && it->second.mo == r.mo && it->second.ver == version[x]) continue;
      } else if (r.kind < 20) {
        version[x]++;
      }
      last[r.tid] = Last{x, (int)r.kind, (int)r.mo, version[x]};
      if (++g_pendN <= SCN_LIMIT) {
        char line[96];
        int len = snprintf(line, sizeof line, "{\"t\":%d,\"x\":%d,\"k\":%d,\"mo\":%d}\n", r.tid, x, (int)r.kind, (int)r.mo);
        g_pend.append(line, len);
      }
    }
  }
}
static void disarm() {
  verif::stream_on(false);
  verif::Config off;
  verif::configure(off);
  dump();
}
static void begin(const std::string& scn, int threads, uint64_t s) {
  g_scn = scn;
  fprintf(F, "{\"ev\":\"reset\",\"scn\":\"%s\",\"threads\":%d,\"mode\":\"%s\",\"seed\":%lld}\n", scn.c_str(), threads, g_mode.c_str(),
          (long long)(s % 1000000007));
}
static void flushPending() {
  if (g_pendN <= SCN_LIMIT) { fwrite(g_pend.data(), 1, g_pend.size(), F); g_records += g_pendN; }
  else { ++g_skipped; fprintf(stderr, "hb: scenario %s left out (%ld records: machine too busy)\n", g_scn.c_str(), g_pendN); }
  fwrite(g_notes.data(), 1, g_notes.size(), F);      // what the scenario itself observed (overlap in a critical section) is never left out
  g_pend.clear(); g_pendN = 0; g_notes.clear();
}
static void finish() { flushPending(); fprintf(F, "{\"ev\":\"end\"}\n"); fflush(F); }
static void note(const char* ev) { char line[160]; int len = snprintf(line, sizeof line, "{\"ev\":\"%s\",\"scn\":\"%s\"}\n", ev, g_scn.c_str()); g_notes.append(line, len); }
static void onAbort(const char* why) { if (strcmp(why, "runaway")) dump(); flushPending(); fprintf(F, "{\"ev\":\"hang\",\"why\":\"%s\",\"scn\":\"%s\"}\n", why, g_scn.c_str()); fflush(F); }

#define PR(v) verif::plain((v), false)
#define PW(v) verif::plain((v), true)
#define YIELD() verif::point(nullptr, verif::K_YIELD, 0)

// ---- S1: lock release -> next acquire; mutual exclusion by an occupancy counter ---------------
template <typename LockT>
static void lockScenario(const char* name, LockT& lk, unsigned threads, int iters, uint64_t s) {
  begin(std::string("lock:") + name, threads, s);
  volatile long occ = 0, shared = 0;
  long violations = 0;
  arm(threads, s);
  galois::substrate::getThreadPool().run(threads, [&]() {
    unsigned tid = galois::substrate::ThreadPool::getTID();
    for (int i = 0; i < iters; ++i) {
      if (i % 3 == 2) { while (!lk.try_lock()) YIELD(); } else lk.lock();
      PR(100); long o = occ; occ = o + 1; shared = shared + 1; PW(100);
      YIELD();
      if (o != 0 || occ != 1) __atomic_add_fetch(&violations, 1, __ATOMIC_SEQ_CST);
      occ = 0;
      lk.unlock();
    }
  });
  disarm();
  if (violations || shared != (long)threads * iters) note("excl");
  finish();
}
static void rwScenario(unsigned threads, int iters, uint64_t s) {
  begin("lock:ThreadRWlock", threads, s);
  galois::substrate::ThreadRWlock rw;
  long readers = 0, writers = 0, violations = 0;
  galois::setActiveThreads(threads);
  arm(threads, s);
  galois::substrate::getThreadPool().run(threads, [&]() {
    unsigned tid = galois::substrate::ThreadPool::getTID();
    vh::Rng r(s + tid);
    for (int i = 0; i < iters; ++i) {
      if (r.coin(1, 3)) {
        rw.writeLock();
        if (__atomic_load_n(&readers, __ATOMIC_SEQ_CST) || __atomic_fetch_add(&writers, 1, __ATOMIC_SEQ_CST)) __atomic_add_fetch(&violations, 1, __ATOMIC_SEQ_CST);
        PR(101); PW(101);
        YIELD();
        __atomic_fetch_sub(&writers, 1, __ATOMIC_SEQ_CST);
        rw.writeUnlock();
      } else {
        rw.readLock();
        __atomic_fetch_add(&readers, 1, __ATOMIC_SEQ_CST);
        if (__atomic_load_n(&writers, __ATOMIC_SEQ_CST)) __atomic_add_fetch(&violations, 1, __ATOMIC_SEQ_CST);
        PR(101);
        YIELD();
        __atomic_fetch_sub(&readers, 1, __ATOMIC_SEQ_CST);
        rw.readUnlock();
      }
    }
  });
  disarm();
  if (violations) note("excl");
  finish();
}

// ---- S1b: PtrLock as the head of a linked stack (the way ConExtLinkedStack / the chunk pools use it): the payload of
// a node written before it is published with unlock_and_set must be visible to whoever takes it off with
// lock + unlock_and_set / unlock_and_clear; try_lock and the CAS helpers are used on the way
struct PNode { PNode* next; int id; };
static void ptrStackScenario(unsigned threads, int iters, uint64_t s) {
  begin("lock:PtrLock-stack", threads, s);
  galois::substrate::PtrLock<PNode> head;
  static PNode nodes[8 * 16];
  long taken = 0, bad = 0;
  arm(threads, s);
  galois::substrate::getThreadPool().run(threads, [&]() {
    unsigned tid = galois::substrate::ThreadPool::getTID();
    for (int i = 0; i < iters; ++i) {
      PNode* n = &nodes[tid * 16 + i];
      n->id = 600 + (int)tid * 16 + i;
      PW(n->id);                                        // payload written before publication
      if (i % 2 == 0) { head.lock(); n->next = head.getValue(); head.unlock_and_set(n); }
      else {
        // lock-free publication on an unlocked head (CAS only succeeds when the lock bit is clear)
        PNode* h;
        do { h = head.getValue(); n->next = h; YIELD(); } while (!head.CAS(h, n));
      }
      YIELD();
      // take one off
      if (i % 3 == 1) { while (!head.try_lock()) YIELD(); } else head.lock();
      PNode* t = head.getValue();
      if (!t) { head.unlock(); continue; }
      if (t->next) head.unlock_and_set(t->next); else head.unlock_and_clear();
      PR(t->id); PW(t->id);                             // the taker owns the payload now
      if (t->id < 600) __atomic_add_fetch(&bad, 1, __ATOMIC_SEQ_CST);
      __atomic_add_fetch(&taken, 1, __ATOMIC_SEQ_CST);
    }
  });
  // drain the rest from the caller
  while (PNode* t = head.getValue()) { head.lock(); if (t->next) head.unlock_and_set(t->next); else head.unlock_and_clear(); PR(t->id); ++taken; }
  disarm();
  if (bad || taken != (long)threads * iters) note("excl");
  finish();
}

// ---- S2: barrier arrival -> departure ---------------------------------------------------------
static void barrierScenario(const char* kind, unsigned P, int phases, uint64_t s) {
  std::unique_ptr<galois::substrate::Barrier> own;
  std::string k = kind;
  if (k == "counting") own = galois::substrate::createCountingBarrier(P);
  else if (k == "mcs") own = galois::substrate::createMCSBarrier(P);
  else if (k == "dissemination") own = galois::substrate::createDisseminationBarrier(P);
  else if (k == "topo") own = galois::substrate::createTopoBarrier(P);
  else if (k == "simple") own = galois::substrate::createSimpleBarrier(P);
  galois::substrate::Barrier& b = own ? *own : galois::substrate::getBarrier(P);
  begin(std::string("barrier:") + kind, P, s);
  arm(P, s);
  galois::substrate::getThreadPool().run(P, [&]() {
    unsigned tid = galois::substrate::ThreadPool::getTID();
    for (int ph = 0; ph < phases; ++ph) {
      PW(200 + tid);
      b.wait();
      PR(200 + (tid + 1) % P);
      PR(200 + (tid + P - 1) % P);
      b.wait();
    }
  });
  disarm();
  finish();
}

// ---- S3: entry to and return from parallel loops ----------------------------------------------
static void regionScenario(unsigned threads, int which, bool fast, uint64_t s, int reps = 3) {
  const char* names[] = {"on_each", "do_all", "do_all_steal", "for_each", "pool.run"};
  begin(std::string("region:") + names[which] + (fast ? ":fast" : ""), threads, s);
  galois::setActiveThreads(threads);
  auto& tp = galois::substrate::getThreadPool();
  if (fast) tp.burnPower(threads);
  arm(threads, s);
  for (int rep = 0; rep < reps; ++rep) {
    PW(300);                                          // written by the caller before the loop
    auto body = [&](unsigned tid) { PR(300); PW(310 + tid); };
    std::vector<int> items(threads * 2);
    for (size_t i = 0; i < items.size(); ++i) items[i] = (int)i;
    switch (which) {
    case 0: galois::on_each([&](unsigned tid, unsigned) { body(tid); }); break;
    case 1: galois::do_all(galois::iterate(0u, threads), [&](unsigned) { body(galois::substrate::ThreadPool::getTID()); }, galois::no_stats()); break;
    case 2: galois::do_all(galois::iterate(0u, threads * 4), [&](unsigned) { body(galois::substrate::ThreadPool::getTID()); }, galois::steal(), galois::chunk_size<1>(), galois::no_stats()); break;
    case 3: galois::for_each(galois::iterate(items), [&](int, auto&) { body(galois::substrate::ThreadPool::getTID()); }, galois::no_stats(), galois::disable_conflict_detection(), galois::no_pushes()); break;
    default: tp.run(threads, [&]() { body(galois::substrate::ThreadPool::getTID()); }); break;
    }
    for (unsigned t = 0; t < threads; ++t) PR(310 + t);  // read by the caller after the loop returned
  }
  disarm();
  if (fast) tp.beKind();
  finish();
}

// ---- S4 / S5: lockable hand-over between iterations; worklist push -> pop ----------------------
struct LObj : public galois::runtime::Lockable { long v = 0; };
struct HbIndexer { unsigned operator()(int item) const { return item < 6 ? 0u : (unsigned)(item % 3) + 1; } };
template <typename WL>
static void forEachScenario(const char* wlname, unsigned threads, uint64_t s) {
  begin(std::string("for_each:") + wlname, threads, s);
  galois::setActiveThreads(threads);
  static LObj objs[2];
  const int N = 6, CH = 2;
  std::vector<int> init;
  for (int i = 0; i < N; ++i) init.push_back(i);
  arm(threads, s);
  for (int i = 0; i < N; ++i) PW(500 + i);            // payload of the initial items, written by the caller
  galois::for_each(
      galois::iterate(init),
      [&](int item, auto& ctx) {
        int o = item % 2;
        PR(500 + item);                                 // S5: the payload written by whoever pushed this item
        galois::runtime::acquire(&objs[o], galois::MethodFlag::WRITE);
        PR(400 + o); PW(400 + o);                       // S4: object data, handed over from the previous owner
        if (item < N)
          for (int c = 0; c < CH; ++c) { int child = N + item * CH + c; PW(500 + child); ctx.push(child); }
      },
      galois::wl<WL>(), galois::no_stats(), galois::loopname("hb"));
  for (int i = 0; i < N + N * CH; ++i) PR(500 + i);   // the caller reads everything after the loop
  PR(400); PR(401);
  disarm();
  finish();
}

int main(int argc, char** argv) {
  if (argc < 5) { fprintf(stderr, "usage: hb out seed tier mode\n"); return 2; }
  F = fopen(argv[1], "w");
  uint64_t seed = strtoull(argv[2], 0, 10);
  bool thorough = std::string(argv[3]) == "thorough";
  g_mode = argv[4];
  verif::thread_index(); // the main thread is thread 0 of the stream
  galois::SharedMemSys G;
  verif::on_abort(onAbort);
  vh::Rng rng(seed);
  bool ctl = g_mode == "ctl";
  unsigned maxT = std::min(galois::substrate::getThreadPool().getMaxThreads(), ctl ? 3u : (thorough ? 8u : 6u));
  int reps = ctl ? (thorough ? 30 : 6) : (thorough ? 10 : 3);
  int iters = ctl ? 3 : 6;
  namespace W = galois::worklists;
  for (int rep = 0; rep < reps; ++rep)
    for (unsigned t = 2; t <= maxT; ++t) {
      { galois::substrate::SimpleLock l; lockScenario("SimpleLock", l, t, iters, rng.next()); }
      { galois::substrate::PtrLock<int> l; lockScenario("PtrLock", l, t, iters, rng.next()); }
      { galois::substrate::PaddedLock<true> l; lockScenario("PaddedLock", l, t, iters, rng.next()); }
      ptrStackScenario(t, iters, rng.next());
      rwScenario(t, iters, rng.next());
      for (const char* k : {"counting", "mcs", "dissemination", "topo", "simple", "system"}) barrierScenario(k, t, 2, rng.next());
      if (!ctl) {
        for (int w = 0; w < 5; ++w) regionScenario(t, w, false, rng.next());
        regionScenario(t, 0, true, rng.next());
        regionScenario(t, 4, true, rng.next());
        // bursts of back-to-back regions with an empty body: the next wake-up is posted while the workers are still on their
        // way back to sleep
        regionScenario(t, 4, false, rng.next(), 60);
        regionScenario(t, 0, false, rng.next(), 60);
      }
      forEachScenario<W::PerSocketChunkFIFO<2>>("PerSocketChunkFIFO<2>", t, rng.next());
      forEachScenario<W::ChunkLIFO<1>>("ChunkLIFO<1>", t, rng.next());
      forEachScenario<W::PerThreadChunkFIFO<2>>("PerThreadChunkFIFO<2>", t, rng.next());
      forEachScenario<W::FIFO<>>("FIFO", t, rng.next());
      // one more family per repetition (rotating), so that every hand-over path of the worklists is walked
      switch (rep % 6) {
      case 0: forEachScenario<W::PerSocketChunkLIFO<2>>("PerSocketChunkLIFO<2>", t, rng.next()); break;
      case 1: forEachScenario<W::OrderedByIntegerMetric<HbIndexer, W::PerSocketChunkFIFO<2>>>("OBIM", t, rng.next()); break;
      case 2: forEachScenario<W::LocalQueue<W::PerSocketChunkFIFO<2>, W::GFIFO<>>>("LocalQueue", t, rng.next()); break;
      case 3: forEachScenario<W::BulkSynchronous<>>("BulkSynchronous", t, rng.next()); break;
      case 4: forEachScenario<W::PerSocketChunkBag<2>>("PerSocketChunkBag<2>", t, rng.next()); break;
      default: forEachScenario<W::PerThreadChunkLIFO<2>>("PerThreadChunkLIFO<2>", t, rng.next()); break;
      }
    }
  fprintf(stderr, "hb: %ld records, %ld scenarios left out\n", g_records, g_skipped);
  fclose(F);
  return 0;
}
