// C15 binding: reductions and concurrently filled collections on real pool threads.
//   collections <out.ndjson> <seed> <tier>
// Every record is one scenario: the updates given to each thread and what the library answered.
// Floating-point values are dyadic (multiples of 1/8) and logged scaled by 8, so every fold is exact.
#include "vh/json.h"

#include "galois/Galois.h"
#include "galois/Reduction.h"
#include "galois/AtomicHelpers.h"
#include "galois/DynamicBitset.h"
#include "galois/UnionFind.h"
#include "galois/PerThreadContainer.h"
#include "galois/Bag.h"

#ifdef VERIF_FLAVOUR_C
#include "verif_rt.h"
#endif
#include <atomic>
#include <thread>
#include <algorithm>
#include <functional>

using vh::Rec;
typedef std::vector<long long> VL;
typedef std::vector<VL> VVL;
static vh::Out* out;
static unsigned maxT;

static bool g_ctl = false;
static void arm(unsigned threads, uint64_t s) {
#ifdef VERIF_FLAVOUR_C
  if (!g_ctl) return;
  verif::Config cfg;
  cfg.mode = verif::M_CTL; cfg.seed = s; cfg.switch_pct = 10 + (int)(s % 70);
  cfg.pct_depth = (s % 4 == 3) ? 1 + (int)((s >> 8) % 3) : 0;
  cfg.max_steps = 2000000; cfg.threads = threads;
  verif::configure(cfg);
#endif
}
static void disarm() {
#ifdef VERIF_FLAVOUR_C
  if (!g_ctl) return;
  verif::Config off;
  verif::configure(off);
#endif
}
static void jitter(vh::Rng& r) {
  if (g_ctl) return;
  unsigned k = r.below(8);
  if (k == 0) std::this_thread::yield();
  else if (k == 1) for (volatile int i = 0; i < 200; ++i) {}
}

template <typename T> struct Scale { static constexpr long long s = 1; };
template <> struct Scale<float> { static constexpr long long s = 8; };
template <> struct Scale<double> { static constexpr long long s = 8; };
template <typename T> static T fromLog(long long v) { return (T)v / (T)Scale<T>::s; }
template <typename T> static long long toLog(T v) {
  // identities like numeric_limits::max() do not fit TLC's 32-bit integers: clamp symbolically
  long double x = (long double)v * Scale<T>::s;
  if (x > 1000000000.0L) return 1000000000;
  if (x < -1000000000.0L) return -1000000000;
  return (long long)x;
}

// ---- reducers ------------------------------------------------------------------------
template <typename T, typename R>
static void reduceCase(const char* kind, const char* ty, R& red, const VVL& upd, const std::vector<std::vector<int>>& sign,
                       long long afterResetVal, std::function<void(R&, T, int)> apply, uint64_t seed) {
  unsigned threads = upd.size();
  galois::setActiveThreads(threads);
  galois::on_each([&](unsigned tid, unsigned) {
    vh::Rng r(seed * 131 + tid);
    for (size_t i = 0; i < upd[tid].size(); ++i) { jitter(r); apply(red, fromLog<T>(upd[tid][i]), sign[tid][i]); }
  });
  // every third case: the number of active threads is lowered between the region and reduce() -- the partial values of
  // the threads that took part must still be folded in
  unsigned rthreads = threads;
  if (threads > 1 && seed % 3 == 0) { rthreads = 1 + (unsigned)((seed / 3) % (threads - 1)); galois::setActiveThreads(rthreads); }
  long long res1 = toLog<T>(red.reduce());
  long long res2 = toLog<T>(red.reduce()); // reduce is idempotent without new updates
  red.reset();
  galois::setActiveThreads(threads);
  // after reset the reducible holds the identity: one more update must be the whole answer
  galois::on_each([&](unsigned tid, unsigned nt) { if (tid == nt - 1) apply(red, fromLog<T>(afterResetVal), +1); });
  long long res3 = toLog<T>(red.reduce());
  red.reset();
  VVL sg;
  for (auto& s : sign) sg.push_back(VL(s.begin(), s.end()));
  out->line(Rec().str("k", "reduce").str("kind", kind).str("ty", ty).i("threads", threads).i("rthreads", rthreads).raw("upd", vh::jarr2(upd))
                .raw("sign", vh::jarr2(sg)).i("res", res1).i("res2", res2).i("arv", afterResetVal).i("res3", res3));
}

template <typename T>
static void reducersFor(const char* ty, vh::Rng& rng, bool thorough, bool isSigned) {
  // value domain (logged units): includes negatives, zero, and all-negative multisets
  VL dom = isSigned ? VL{-24, -9, -1, 0, 3, 16} : VL{0, 1, 5, 16};
  std::vector<VVL> cases;
  // exhaustive: all multisets of size <= 3 over dom, all assignments to <= 3 threads (by thread index per element)
  for (unsigned n = 0; n <= 3; ++n) {
    std::vector<unsigned> idx(n, 0);
    while (true) {
      bool sorted = true;
      for (unsigned i = 1; i < n; ++i) if (idx[i - 1] > idx[i]) sorted = false;
      if (sorted) {
        unsigned combos = 1;
        for (unsigned i = 0; i < n; ++i) combos *= 3;
        for (unsigned c = 0; c < combos; ++c) {
          VVL upd(3);
          unsigned x = c;
          for (unsigned i = 0; i < n; ++i) { upd[x % 3].push_back(dom[idx[i]]); x /= 3; }
          cases.push_back(upd);
        }
      }
      unsigned p = 0;
      while (p < n && ++idx[p] == dom.size()) { idx[p] = 0; ++p; }
      if (p == n) break;
    }
  }
  // random larger: 1..maxT threads, up to 40 updates each
  for (int k = 0; k < (thorough ? 300 : 60); ++k) {
    unsigned t = 1 + rng.below(maxT);
    VVL upd(t);
    bool allneg = isSigned && rng.coin(1, 3);
    for (auto& u : upd) {
      unsigned m = rng.below(40);
      for (unsigned i = 0; i < m; ++i) {
        long long v = rng.below(2000);
        if (isSigned) v = allneg ? -1 - v : v - 1000;
        u.push_back(v);
      }
    }
    cases.push_back(upd);
  }
  uint64_t s = rng.next();
  for (auto& upd : cases) {
    std::vector<std::vector<int>> plus;
    for (auto& u : upd) plus.push_back(std::vector<int>(u.size(), 1));
    long long arv = isSigned ? -7 : 2;
    {
      galois::GAccumulator<T> r;
      reduceCase<T, galois::GAccumulator<T>>("sum", ty, r, upd, plus, arv, [](galois::GAccumulator<T>& a, T v, int) { a += v; }, ++s);
    }
    {
      // mixed += / -= (every second update of a thread is a subtraction)
      std::vector<std::vector<int>> sg;
      for (auto& u : upd) { std::vector<int> q; for (size_t i = 0; i < u.size(); ++i) q.push_back(i % 2 ? -1 : 1); sg.push_back(q); }
      if (isSigned) {
        galois::GAccumulator<T> r;
        reduceCase<T, galois::GAccumulator<T>>("sum", ty, r, upd, sg, arv,
            [](galois::GAccumulator<T>& a, T v, int sgn) { if (sgn > 0) a += v; else a -= v; }, ++s);
      }
    }
    {
      galois::GReduceMax<T> r;
      reduceCase<T, galois::GReduceMax<T>>("max", ty, r, upd, plus, arv, [](galois::GReduceMax<T>& a, T v, int) { a.update(v); }, ++s);
    }
    {
      galois::GReduceMin<T> r;
      reduceCase<T, galois::GReduceMin<T>>("min", ty, r, upd, plus, arv, [](galois::GReduceMin<T>& a, T v, int) { a.update(v); }, ++s);
    }
  }
}

static void logicalAndUser(vh::Rng& rng, bool thorough) {
  uint64_t s = rng.next();
  for (unsigned t = 1; t <= std::min(3u, maxT); ++t)
    for (unsigned mask = 0; mask < (1u << (2 * t)); ++mask) {
      VVL upd(t);
      unsigned x = mask;
      for (unsigned i = 0; i < t; ++i) { unsigned n = x & 1; x >>= 1; unsigned v = x & 1; x >>= 1; if (n) upd[i].push_back(v); }
      std::vector<std::vector<int>> plus;
      for (auto& u : upd) plus.push_back(std::vector<int>(u.size(), 1));
      { galois::GReduceLogicalAnd r; reduceCase<bool, galois::GReduceLogicalAnd>("and", "bool", r, upd, plus, 0, [](galois::GReduceLogicalAnd& a, bool v, int) { a.update(v); }, ++s); }
      { galois::GReduceLogicalOr r; reduceCase<bool, galois::GReduceLogicalOr>("or", "bool", r, upd, plus, 1, [](galois::GReduceLogicalOr& a, bool v, int) { a.update(v); }, ++s); }
    }
  // user-defined merge with identity: bitwise or over unsigned with identity 0; and a move-only-ish vector concat size
  for (int k = 0; k < (thorough ? 200 : 50); ++k) {
    unsigned t = 1 + rng.below(maxT);
    VVL upd(t);
    for (auto& u : upd) { unsigned m = rng.below(6); for (unsigned i = 0; i < m; ++i) u.push_back(1u << rng.below(12)); }
    std::vector<std::vector<int>> plus;
    for (auto& u : upd) plus.push_back(std::vector<int>(u.size(), 1));
    auto r = galois::make_reducible([](unsigned a, unsigned b) { return a | b; }, []() { return 0u; });
    typedef decltype(r) R;
    reduceCase<unsigned, R>("bitor", "unsigned", r, upd, plus, 4, [](R& a, unsigned v, int) { a.update(v); }, ++s);
    // multiset union through a sorted vector merge (non-trivial T, moved through reduce())
    auto r2 = galois::make_reducible(
        [](std::vector<int> a, std::vector<int> b) { std::vector<int> o; std::merge(a.begin(), a.end(), b.begin(), b.end(), std::back_inserter(o)); return o; },
        []() { return std::vector<int>(); });
    galois::setActiveThreads(t);
    galois::on_each([&](unsigned tid, unsigned) { for (auto v : upd[tid]) r2.update(std::vector<int>{(int)v}); });
    std::vector<int> all = r2.reduce();
    VL got(all.begin(), all.end());
    out->line(Rec().str("k", "reducevec").i("threads", t).raw("upd", vh::jarr2(upd)).arr("res", got));
  }
}

// ---- bitset --------------------------------------------------------------------------
static VVL zeroRuns(galois::DynamicBitSet& b) {
  VVL runs;
  size_t n = b.size();
  size_t i = 0;
  while (i < n) {
    if (!b.test(i)) { size_t j = i; while (j + 1 < n && !b.test(j + 1)) ++j; runs.push_back({(long long)i, (long long)j}); i = j + 1; }
    else ++i;
  }
  return runs;
}
static VL setBits(galois::DynamicBitSet& b) { VL v; for (size_t i = 0; i < b.size(); ++i) if (b.test(i)) v.push_back(i); return v; }

static bool bitsetConcurrentOnly = false;
static void bitsetCases(vh::Rng& rng, bool thorough) {
  galois::setActiveThreads(std::min(4u, maxT));
  // range reset at every alignment: start from all ones
  std::vector<size_t> sizes = {1, 2, 63, 64, 65, 127, 128, 130, 192};
  if (thorough) { sizes.push_back(129); sizes.push_back(256); sizes.push_back(200); }
  if (bitsetConcurrentOnly) sizes.clear();
  for (size_t n : sizes) {
    galois::DynamicBitSet b;
    b.resize(n);
    for (size_t begin = 0; begin < n; ++begin)
      for (size_t end = begin; end < n; ++end) {
        if (n > 130 && !thorough && (begin % 64 > 2 && begin % 64 < 62) && (end % 64 > 2 && end % 64 < 62) && ((begin * 31 + end) % 7)) continue;
        for (size_t i = 0; i < n; ++i) b.set(i);
        b.reset(begin, end);
        out->line(Rec().str("k", "bitreset").i("n", n).i("begin", begin).i("end", end).raw("zero", vh::jarr2(zeroRuns(b))));
      }
  }
  // concurrent set/reset/test, bitwise ops, count, getOffsets
  for (int k = 0; k < (thorough ? 400 : 80); ++k) {
    size_t n = 1 + rng.below(200);
    unsigned t = 1 + rng.below(maxT);
    galois::setActiveThreads(t);
    galois::DynamicBitSet a, b;
    a.resize(n); b.resize(n);
    VVL sets(t), firsts(t);
    for (auto& s : sets) { unsigned m = rng.below(30); for (unsigned i = 0; i < m; ++i) s.push_back(rng.below(n)); }
    uint64_t seed = rng.next();
    arm(t, seed);
    galois::on_each([&](unsigned tid, unsigned) {
      vh::Rng r(seed + tid);
      for (auto i : sets[tid]) { jitter(r); if (!a.set(i)) firsts[tid].push_back(i); }
    });
    disarm();
    VL other;
    for (size_t i = 0; i < n; ++i) if (rng.coin(1, 3)) { b.set(i); other.push_back(i); }
    VL afterSet = setBits(a);
    long long cnt = a.count();
    auto offs = a.getOffsets();
    galois::DynamicBitSet c; c.resize(n);
    c.bitwise_or(a); c.bitwise_or(b); VL orr = setBits(c);
    c.reset(); c.bitwise_and(a, b); VL andd = setBits(c);
    c.reset(); c.bitwise_xor(a, b); VL xorr = setBits(c);
    // concurrent single-bit reset of a random subset
    VVL resets(t), rfirst(t);
    for (auto& s : resets) { unsigned m = rng.below(20); for (unsigned i = 0; i < m; ++i) s.push_back(rng.below(n)); }
    arm(t, seed * 3);
    galois::on_each([&](unsigned tid, unsigned) {
      vh::Rng r(seed * 3 + tid);
      for (auto i : resets[tid]) { jitter(r); if (a.reset(i)) rfirst[tid].push_back(i); }
    });
    disarm();
    VL afterReset = setBits(a);
    out->line(Rec().str("k", "bitset").i("n", n).i("threads", t).raw("sets", vh::jarr2(sets)).raw("firsts", vh::jarr2(firsts))
                  .arr("after", afterSet).i("count", cnt).arr("offsets", offs).arr("other", other).arr("or", orr)
                  .arr("and", andd).arr("xor", xorr).raw("resets", vh::jarr2(resets)).raw("rfirst", vh::jarr2(rfirst))
                  .arr("after2", afterReset));
  }
}

// ---- atomic helpers, union-find, per-thread containers, insert bag -------------------
static void atomicCases(vh::Rng& rng, bool thorough) {
  for (int k = 0; k < (thorough ? 600 : 150); ++k) {
    unsigned t = 1 + rng.below(maxT);
    galois::setActiveThreads(t);
    VVL upd(t), olds(t);
    for (auto& u : upd) { unsigned m = 1 + rng.below(g_ctl ? 4 : 30); for (unsigned i = 0; i < m; ++i) u.push_back((long long)rng.below(2000) - 1000); }
    long long init = g_ctl ? (k % 2 ? -1001 : 1001) : (long long)rng.below(2000) - 1000;
    int which = k % 4;
    std::atomic<long> cell(init);
    uint64_t seed = rng.next();
    arm(t, seed);
    galois::on_each([&](unsigned tid, unsigned) {
      vh::Rng r(seed + tid);
      for (auto v : upd[tid]) {
        jitter(r);
        long o;
        switch (which) {
        case 0: o = galois::atomicMin(cell, (long)v); break;
        case 1: o = galois::atomicMax(cell, (long)v); break;
        case 2: o = galois::atomicAdd(cell, (long)v); break;
        default: o = galois::atomicSubtract(cell, (long)v); break;
        }
        olds[tid].push_back(o);
      }
    });
    disarm();
    const char* names[] = {"min", "max", "add", "sub"};
    out->line(Rec().str("k", "atomic").str("kind", names[which]).i("threads", t).i("init", init).raw("upd", vh::jarr2(upd))
                  .raw("olds", vh::jarr2(olds)).i("res", cell.load()));
  }
}

struct UFNode : galois::UnionFindNode<UFNode> {
  UFNode() : galois::UnionFindNode<UFNode>(this) {}
};

static void unionFindCases(vh::Rng& rng, bool thorough) {
  for (int k = 0; k < (thorough ? 500 : 120); ++k) {
    unsigned n = 2 + rng.below(k % 3 == 0 ? 6 : 40);
    unsigned t = 1 + rng.below(maxT);
    galois::setActiveThreads(t);
    std::vector<UFNode> nodes(n);
    std::vector<VVL> pairs(t);
    VVL flat(t);
    for (unsigned i = 0; i < t; ++i) {
      unsigned m = rng.below(n);
      for (unsigned j = 0; j < m; ++j) { long a = rng.below(n), b = rng.below(n); pairs[i].push_back({a, b}); flat[i].push_back(a); flat[i].push_back(b); }
    }
    uint64_t seed = rng.next();
    std::vector<long> merged(t, 0);
    arm(t, seed);
    galois::on_each([&](unsigned tid, unsigned) {
      vh::Rng r(seed + tid);
      for (auto& p : pairs[tid]) { jitter(r); if (nodes[p[0]].merge(&nodes[p[1]])) ++merged[tid]; }
    });
    disarm();
    VL rep;
    for (unsigned i = 0; i < n; ++i) rep.push_back(nodes[i].findAndCompress() - &nodes[0]);
    VL rep2;
    for (unsigned i = 0; i < n; ++i) rep2.push_back(nodes[i].find() - &nodes[0]);
    long totalMerged = 0;
    for (auto m : merged) totalMerged += m;
    out->line(Rec().str("k", "unionfind").i("n", n).i("threads", t).raw("pairs", vh::jarr2(flat)).arr("rep", rep).arr("rep2", rep2)
                  .i("merged", totalMerged));
  }
}

static void perThreadCases(vh::Rng& rng, bool thorough) {
  for (int k = 0; k < (thorough ? 300 : 80); ++k) {
    unsigned t = 1 + rng.below(maxT);
    galois::setActiveThreads(t);
    VVL vals(t);
    long long next = 1;
    for (auto& v : vals) { unsigned m = rng.below(k % 2 ? 50 : 6); for (unsigned i = 0; i < m; ++i) v.push_back(next++); }
    galois::PerThreadVector<int> pv;
    galois::PerThreadDeque<int> pd;
    galois::PerThreadSet<int> ps;
    galois::InsertBag<int> bag;
    galois::InsertBag<int, 64> bagSmall;
    uint64_t seed = rng.next();
    galois::on_each([&](unsigned tid, unsigned) {
      vh::Rng r(seed + tid);
      for (auto v : vals[tid]) {
        jitter(r);
        pv.get().push_back((int)v);
        pd.get().push_front((int)v);
        ps.get().insert((int)v % 17);
        bag.push((int)v);
        bagSmall.push_back((int)v);
      }
    });
    VL a(pv.begin_all(), pv.end_all()), b(pd.begin_all(), pd.end_all()), c;
    for (unsigned i = 0; i < ps.numRows(); ++i) for (auto x : ps.get(i)) c.push_back(x);
    VL d(bag.begin(), bag.end()), e(bagSmall.begin(), bagSmall.end());
    VL ar(pv.rbegin_all(), pv.rend_all());
    long long sizeAll = pv.size_all();
    // local iteration on each thread sees exactly that thread's items
    VVL local(t);
    galois::on_each([&](unsigned tid, unsigned) { for (auto it = bag.local_begin(); it != bag.local_end(); ++it) local[tid].push_back(*it); });
    for (auto* v : {&a, &b, &c, &d, &e, &ar}) std::sort(v->begin(), v->end());
    for (auto& l : local) std::sort(l.begin(), l.end());
    out->line(Rec().str("k", "perthread").i("threads", t).raw("vals", vh::jarr2(vals)).arr("vec", a).arr("rvec", ar).arr("deq", b)
                  .arr("set", c).arr("bag", d).arr("bag64", e).i("size_all", sizeAll).raw("local", vh::jarr2(local))
                  .b("empty_all", pv.empty_all()));
  }
}

int main(int argc, char** argv) {
  if (argc < 4) { fprintf(stderr, "usage: collections out seed tier\n"); return 2; }
  vh::Out o(argv[1]);
  out = &o;
  vh::Rng rng(strtoull(argv[2], 0, 10));
  bool thorough = std::string(argv[3]) == "thorough";
  galois::SharedMemSys G;
  maxT = std::min(8u, galois::substrate::getThreadPool().getMaxThreads());
  g_ctl = argc > 4 && std::string(argv[4]) == "ctl";
  if (g_ctl) {
    // controlled schedules over the CAS loops and concurrent collections: small scope, many schedules
    maxT = std::min(3u, maxT);
    for (int rep = 0; rep < (thorough ? 12 : 3); ++rep) {
      atomicCases(rng, false);
      unionFindCases(rng, false);
    }
    bitsetConcurrentOnly = true;
    bitsetCases(rng, false);
    fprintf(stderr, "collections(ctl): %lld records\n", o.n);
    return 0;
  }
  reducersFor<int>("int", rng, thorough, true);
  reducersFor<long>("long", rng, thorough, true);
  reducersFor<unsigned>("unsigned", rng, thorough, false);
  reducersFor<float>("float", rng, thorough, true);
  reducersFor<double>("double", rng, thorough, true);
  logicalAndUser(rng, thorough);
  bitsetCases(rng, thorough);
  atomicCases(rng, thorough);
  unionFindCases(rng, thorough);
  perThreadCases(rng, thorough);
  fprintf(stderr, "collections: %lld records\n", o.n);
  return 0;
}
