// C04 binding: the real termination detectors (ring = system detector, tree = instantiated
// directly) driven by a work-ledger program on pool threads.
//   term <out.ndjson> <seed> <tier> <mode: ctl|jitter|free>
#include "vh/json.h"
#include "vh/events.h"
#include "galois/Galois.h"
#include "galois/substrate/Termination.h"
#include "galois/substrate/Barrier.h"
#include "galois/substrate/ThreadPool.h"
#ifdef VERIF_FLAVOUR_C
#include "verif_rt.h"
#define YIELD() verif::point(nullptr, verif::K_YIELD, 0)
#else
#define YIELD() do {} while (0)
#endif

using vh::kv; using vh::ks;
static vh::EventLog* L;

static void onAbort(const char* why) { L->ev(64, ks("ev", "hang") + "," + ks("why", why)); L->flush(); }

struct TreeDet : galois::substrate::internal::TreeTerminationDetection<> {
  void arm(unsigned n) { init(n); }
};

struct Cell { long v; char pad[120]; };
static Cell inbox[64];
static long created, budget;

// directed program class "late transfer": one designated holder keeps its unit for a while (the token travels up to it
// and waits there), then hands work to a thread the token has already passed, and only then finishes
static int lateHolder = -1, lateTarget = 0, lateSpin = 0, lateArmed = 0;

static bool takeUnit(unsigned t) {
  long c = __atomic_load_n(&inbox[t].v, __ATOMIC_SEQ_CST);
  while (c > 0) {
    if (__atomic_compare_exchange_n(&inbox[t].v, &c, c - 1, false, __ATOMIC_SEQ_CST, __ATOMIC_SEQ_CST)) return true;
  }
  return false;
}

static void loopOnce(galois::substrate::TerminationDetection& term, unsigned n, uint64_t seed, bool jit) {
  auto& tp = galois::substrate::getThreadPool();
#ifdef VERIF_FLAVOUR_C
  verif::set_threads(n);
#endif
  auto& barrier = galois::substrate::getBarrier(n); // as the executors do: fetched (and re-initialised) before the region
  tp.run(n, [&]() {
    unsigned tid = galois::substrate::ThreadPool::getTID();
    vh::Rng r(seed * 31 + tid);
    term.initializeThread();
    // (init / report events are not logged: volume)
    barrier.wait();
    while (true) {
      bool did = false;
      while (takeUnit(tid)) {
        L->ev(tid, ks("ev", "take") + "," + kv("t", tid));
        did = true;
        YIELD();
        if (jit && r.coin(1, 4)) for (volatile int i = 0; i < (int)r.below(2000); ++i) {}
        if ((int)tid == lateHolder && __atomic_exchange_n(&lateArmed, 0, __ATOMIC_SEQ_CST) == 1) {
          for (int k = 0; k < lateSpin; ++k) { YIELD(); if (jit) for (volatile int i = 0; i < 3000; ++i) {} }
          __atomic_fetch_add(&created, 1, __ATOMIC_SEQ_CST);
          L->ev(tid, ks("ev", "xfer") + "," + kv("t", tid) + "," + kv("u", lateTarget));
          __atomic_fetch_add(&inbox[lateTarget].v, 1, __ATOMIC_SEQ_CST);
          YIELD();
        }
        // while holding the unit, possibly create work for others (bounded)
        for (int k = 0; k < 2; ++k)
          if (r.coin(1, 2) && __atomic_fetch_add(&created, 1, __ATOMIC_SEQ_CST) < budget) {
            unsigned u = r.below(n);
            L->ev(tid, ks("ev", "xfer") + "," + kv("t", tid) + "," + kv("u", u));
            __atomic_fetch_add(&inbox[u].v, 1, __ATOMIC_SEQ_CST);
            YIELD();
          }
        L->ev(tid, ks("ev", "done") + "," + kv("t", tid));
      }
      YIELD();
      // reports are not logged (volume); the ledger events and the observations decide NoEarlyAnnounce
      term.localTermination(did);
      if (term.globalTermination()) {
        L->ev(tid, ks("ev", "observe") + "," + kv("t", tid));
        break;
      }
      if (jit && r.coin(1, 16)) std::this_thread::yield();
    }
  });
}

int main(int argc, char** argv) {
  if (argc < 5) { fprintf(stderr, "usage: term out seed tier mode\n"); return 2; }
  vh::EventLog log(argv[1]);
  L = &log;
  uint64_t seed = strtoull(argv[2], 0, 10);
  bool thorough = std::string(argv[3]) == "thorough";
  std::string mode = argv[4];
  galois::SharedMemSys G;
  auto& tp = galois::substrate::getThreadPool();
  unsigned maxN = std::min(tp.getMaxThreads(), mode == "ctl" ? (thorough ? 5u : 4u) : (thorough ? 16u : 8u));
  vh::Rng rng(seed);
#ifdef VERIF_FLAVOUR_C
  verif::on_abort(onAbort);
#endif
  unsigned execs = mode == "ctl" ? (thorough ? 3000 : 1200) : (thorough ? 300 : 40);
  TreeDet tree;
  for (int det = 0; det < 2; ++det)
    for (unsigned n = 1; n <= maxN; ++n)
      for (unsigned e = 0; e < execs; ++e) {
        uint64_t s = rng.next();
        L->ev(64, ks("ev", "reset") + "," + ks("det", det ? "tree" : "ring") + "," + kv("n", n) + "," + ks("mode", mode) + "," +
                      kv("seed", (long long)(s % 1000000007)));
#ifdef VERIF_FLAVOUR_C
        verif::Config cfg;
        cfg.mode = mode == "ctl" ? verif::M_CTL : (mode == "jitter" ? verif::M_JITTER : verif::M_PASS);
        cfg.seed = s;
        cfg.switch_pct = 5 + (int)(s % 70);
        cfg.pct_depth = (e % 4 == 3) ? 1 + (int)(s % 4) : 0;
        cfg.max_steps = 3000000;
        verif::configure(cfg);
#endif
        // two consecutive loops on the same detector object, re-armed to a different thread count
        unsigned counts[2] = {n, 1 + (unsigned)(s % maxN)};
        for (int lp = 0; lp < 2; ++lp) {
          unsigned m = counts[lp];
          for (auto& c : inbox) c.v = 0;
          created = 0;
          budget = (mode == "ctl" ? 4 : 20) * m + 2;
          // initial work: mostly on thread 0, sometimes spread, sometimes none at all
          unsigned w = (unsigned)rng.below(4);
          for (unsigned k = 0; k < w; ++k) {
            unsigned t = rng.coin(1, 2) ? 0 : (unsigned)rng.below(m);
            inbox[t].v++;
            L->ev(64, ks("ev", "seed") + "," + kv("t", t));
          }
          lateHolder = -1; lateArmed = 0;
          if (m >= 3 && e % 3 == 2) {
            // the holder is not thread 0 and not necessarily the last one; the target lies behind it in the ring / tree order
            lateHolder = 1 + (int)rng.below(m - 1);
            lateTarget = (int)rng.below((unsigned)lateHolder);
            lateSpin = 5 + (int)rng.below(mode == "ctl" ? 60 : 400);
            lateArmed = 1;
            inbox[lateHolder].v++;
            L->ev(64, ks("ev", "seed") + "," + kv("t", lateHolder));
          }
          galois::substrate::TerminationDetection* term;
          if (det) { tree.arm(m); term = &tree; }
          else term = &galois::substrate::getSystemTermination(m);
          L->ev(64, ks("ev", "loop") + "," + kv("n", m));
          loopOnce(*term, m, s + lp, mode != "ctl");
          L->ev(64, ks("ev", "returned"));
        }
#ifdef VERIF_FLAVOUR_C
        verif::Config off;
        verif::configure(off);
#endif
        L->ev(64, ks("ev", "end"));
        L->flush();
      }
  fprintf(stderr, "term: %ld events\n", log.total);
  return 0;
}
