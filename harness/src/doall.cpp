// C03 binding: do_all (all range kinds, chunk sizes, steal on/off), on_each and raw ThreadPool::run
// region sequences on real pool threads; per-element / per-thread invocation counts.
//   doall <out.ndjson> <seed> <tier> <mode: ctl|jitter|free>
#include "vh/json.h"
#include "galois/Galois.h"
#include <boost/iterator/counting_iterator.hpp>
#include <functional>
#include <atomic>
#include <unistd.h>
#include "galois/Bag.h"
#include "galois/substrate/ThreadPool.h"
#ifdef VERIF_FLAVOUR_C
#include "verif_rt.h"
#endif
#include <forward_list>
#include <list>
#include <vector>
#include <csignal>
#include <unistd.h>

using vh::Rec;
typedef std::vector<long long> VL;
static vh::Out* out;
static std::string g_mode;
static uint64_t g_seed;
static std::string g_cur;

static void onAbort(const char* why) {
  out->line(Rec().str("k", "hang").str("why", why).str("during", g_cur));
  out->flush();
}
static void onCrash(int sig) {
  out->line(Rec().str("k", "crash").i("sig", sig).str("during", g_cur));
  out->flush();
  _exit(3);
}

static void arm(int threads, uint64_t s) {
#ifdef VERIF_FLAVOUR_C
  verif::Config cfg;
  cfg.mode = g_mode == "ctl" ? verif::M_CTL : (g_mode == "jitter" ? verif::M_JITTER : verif::M_PASS);
  cfg.seed = s;
  cfg.switch_pct = 5 + (int)(s % 70);
  cfg.pct_depth = (s % 4 == 3) ? 1 + (int)((s >> 8) % 4) : 0;
  cfg.max_steps = 4000000;
  cfg.threads = threads;
  verif::configure(cfg);
#endif
}
static void disarm() {
#ifdef VERIF_FLAVOUR_C
  verif::Config off;
  verif::configure(off);
#endif
}

struct Counts {
  std::vector<int> cnt;
  std::vector<int> who;
  long finished = 0;
  explicit Counts(size_t n) : cnt(n, 0), who(n, -1) {}
  size_t slowBelow = 0;       // unbalanced work: the elements below this index (the first thread's block) are slow
  void hit(size_t e, vh::Rng* r) {
    __atomic_add_fetch(&cnt[e], 1, __ATOMIC_SEQ_CST);
    who[e] = galois::substrate::ThreadPool::getTID();
    if (e < slowBelow) { for (volatile int i = 0; i < 3000; ++i) {} }
    else if (r && !slowBelow) { int k = r->below(40); for (volatile int i = 0; i < k * 20; ++i) {} }
    __atomic_add_fetch(&finished, 1, __ATOMIC_SEQ_CST);
  }
};

static bool g_unbalanced = false;
static void report(const char* kind, size_t n, unsigned chunk, bool steal, unsigned threads, Counts& c, uint64_t s) {
  std::vector<VL> bad;
  for (size_t e = 0; e < n && bad.size() < 8; ++e) if (c.cnt[e] != 1) bad.push_back({(long long)e, c.cnt[e]});
  VL per(threads, 0);
  long other = 0;
  for (size_t e = 0; e < n; ++e) { if (c.who[e] >= 0 && c.who[e] < (int)threads) per[c.who[e]]++; else if (c.cnt[e]) other++; }
  // without stealing the elements of thread t are exactly its block of the range (static partition)
  long misplaced = 0;
  if (!steal && std::string(kind) != "bag") {
    for (unsigned t = 0; t < threads; ++t) {
      auto r = galois::block_range((size_t)0, n, t, threads);
      for (size_t e = r.first; e < r.second; ++e) if (c.who[e] != (int)t) ++misplaced;
    }
  }
  const char* topo = getenv("GALOIS_VERIF_TOPO");
  out->line(Rec().str("k", "doall").str("kind", kind).i("n", n).i("chunk", chunk).i("steal", steal ? 1 : 0).i("threads", threads)
                .str("mode", g_mode).str("topo", topo ? topo : "host").i("seed", s % 1000000007).raw("bad", vh::jarr2(bad))
                .i("finished", c.finished).arr("per", per).i("foreign", other).i("misplaced", misplaced));
}

template <unsigned CS, bool STEAL>
static void doAllCase(size_t n, unsigned threads, uint64_t s, int kindSel) {
  galois::setActiveThreads(threads);
  Counts c(n);
  if (g_unbalanced) c.slowBelow = n / std::max(1u, threads);
  vh::Rng r(s);
  vh::Rng* rp = g_mode == "ctl" ? nullptr : &r;
  const char* kind = "int";
  g_cur = "do_all n=" + std::to_string(n) + " chunk=" + std::to_string(CS) + " steal=" + std::to_string(STEAL) + " threads=" + std::to_string(threads);
  auto fn = [&](size_t e) { c.hit(e, rp); };
  if (kindSel == 0) {
    arm(threads, s);
    if (STEAL) galois::do_all(galois::iterate((size_t)0, n), fn, galois::chunk_size<CS>(), galois::steal(), galois::no_stats());
    else galois::do_all(galois::iterate((size_t)0, n), fn, galois::chunk_size<CS>(), galois::no_stats());
    disarm();
  } else if (kindSel == 1) {
    kind = "vec";
    std::vector<size_t> v(n);
    for (size_t i = 0; i < n; ++i) v[i] = i;
    arm(threads, s);
    if (STEAL) galois::do_all(galois::iterate(v), fn, galois::chunk_size<CS>(), galois::steal(), galois::no_stats());
    else galois::do_all(galois::iterate(v), fn, galois::chunk_size<CS>(), galois::no_stats());
    disarm();
  } else if (kindSel == 2) {
    kind = "list";
    std::list<size_t> v;
    for (size_t i = 0; i < n; ++i) v.push_back(i);
    arm(threads, s);
    if (STEAL) galois::do_all(galois::iterate(v), fn, galois::chunk_size<CS>(), galois::steal(), galois::no_stats());
    else galois::do_all(galois::iterate(v), fn, galois::chunk_size<CS>(), galois::no_stats());
    disarm();
  } else if (kindSel == 3) {
    kind = "fwd";
    std::forward_list<size_t> v;
    for (size_t i = n; i > 0; --i) v.push_front(i - 1);
    arm(threads, s);
    if (STEAL) galois::do_all(galois::iterate(v.begin(), v.end()), fn, galois::chunk_size<CS>(), galois::steal(), galois::no_stats());
    else galois::do_all(galois::iterate(v.begin(), v.end()), fn, galois::chunk_size<CS>(), galois::no_stats());
    disarm();
  } else {
    kind = "bag"; // container with local iterators, filled in parallel by another thread count
    galois::InsertBag<size_t> bag;
    unsigned fillT = 1 + (unsigned)(s % std::max(1u, threads + 1));
    galois::setActiveThreads(fillT);
    galois::on_each([&](unsigned tid, unsigned nt) { for (size_t i = tid; i < n; i += nt) bag.push(i); });
    galois::setActiveThreads(threads);
    arm(threads, s);
    if (STEAL) galois::do_all(galois::iterate(bag), fn, galois::chunk_size<CS>(), galois::steal(), galois::no_stats());
    else galois::do_all(galois::iterate(bag), fn, galois::chunk_size<CS>(), galois::no_stats());
    disarm();
  }
  report(kind, n, CS, STEAL, threads, c, s);
}

// do_all over a SpecificRange: the caller supplies where every thread's block of [0, N) begins and asks for a sub-range
// [gb, ge) of it (what the graph classes hand out as allNodesRange / masterNodesRange ...); every element of the
// sub-range exactly once, nothing outside it
template <unsigned CS, bool STEAL>
static void specificCase(size_t N, unsigned threads, uint64_t s) {
  galois::setActiveThreads(threads);
  vh::Rng r(s);
  std::vector<uint32_t> starts(threads + 1, 0);
  starts[threads] = (uint32_t)N;
  for (unsigned t = 1; t < threads; ++t) starts[t] = (uint32_t)r.below(N + 1);
  std::sort(starts.begin(), starts.end());
  size_t gb, ge;
  switch (r.below(6)) {
  case 0: gb = 0; ge = N; break;                                         // everything
  case 1: gb = 0; ge = r.below(N + 1); break;                            // a prefix
  case 2: gb = r.below(N + 1); ge = N; break;                            // a suffix
  case 3: { unsigned t = (unsigned)r.below(threads); size_t lo = starts[t], hi = starts[t + 1];   // strictly inside one thread's block
            gb = lo + (hi > lo ? r.below(hi - lo) : 0); ge = gb + (hi > gb ? r.below(hi - gb) : 0); break; }
  default: gb = r.below(N + 1); ge = gb + r.below(N + 1 - gb); break;    // anything (incl. empty and one-element ranges)
  }
  Counts c(N);
  vh::Rng* rp = g_mode == "ctl" ? nullptr : &r;
  g_cur = "do_all specific N=" + std::to_string(N) + " [" + std::to_string(gb) + "," + std::to_string(ge) + ") threads=" + std::to_string(threads);
  auto fn = [&](size_t e) { if (e < N) c.hit(e, rp); };
  typedef boost::counting_iterator<size_t> It;
  auto range = galois::runtime::makeSpecificRange(It(gb), It(ge), starts.data());
  arm(threads, s);
  if (STEAL) galois::do_all(galois::iterate(range), fn, galois::chunk_size<CS>(), galois::steal(), galois::no_stats());
  else galois::do_all(galois::iterate(range), fn, galois::chunk_size<CS>(), galois::no_stats());
  disarm();
  std::vector<VL> bad;
  VL per(threads, 0);
  long other = 0, misplaced = 0;
  for (size_t e = 0; e < N; ++e) {
    long want = e >= gb && e < ge ? 1 : 0;
    if (c.cnt[e] != want && bad.size() < 8) bad.push_back({(long long)e, c.cnt[e]});
    if (c.cnt[e]) { if (c.who[e] >= 0 && c.who[e] < (int)threads) per[c.who[e]]++; else other++; }
    if (!STEAL && want && c.cnt[e] == 1 && !(e >= starts[c.who[e]] && e < starts[c.who[e] + 1])) ++misplaced;
  }
  const char* topo = getenv("GALOIS_VERIF_TOPO");
  out->line(Rec().str("k", "doall").str("kind", "specific").i("n", ge - gb).i("chunk", CS).i("steal", STEAL ? 1 : 0).i("threads", threads)
                .str("mode", g_mode).str("topo", topo ? topo : "host").i("seed", s % 1000000007).raw("bad", vh::jarr2(bad))
                .i("finished", c.finished).arr("per", per).i("foreign", other).i("misplaced", misplaced));
}

template <unsigned CS>
static void bothSteal(size_t n, unsigned threads, uint64_t s, int kindSel) {
  if (kindSel == 5) { specificCase<CS, true>(n, threads, s); specificCase<CS, false>(n, threads, s + 1); return; }
  doAllCase<CS, true>(n, threads, s, kindSel);
  doAllCase<CS, false>(n, threads, s + 1, kindSel);
}

static void chunkDispatch(unsigned cs, size_t n, unsigned threads, uint64_t s, int kindSel) {
  switch (cs) {
  case 1: bothSteal<1>(n, threads, s, kindSel); break;
  case 2: bothSteal<2>(n, threads, s, kindSel); break;
  case 3: bothSteal<3>(n, threads, s, kindSel); break;
  case 4: bothSteal<4>(n, threads, s, kindSel); break;
  case 16: bothSteal<16>(n, threads, s, kindSel); break;
  case 64: bothSteal<64>(n, threads, s, kindSel); break;
  default: bothSteal<4096>(n, threads, s, kindSel); break;
  }
}

static void onEachAndRegions(vh::Rng& rng, unsigned maxT, int reps) {
  auto& tp = galois::substrate::getThreadPool();
  unsigned poolMax = tp.getMaxThreads();
  for (int rep = 0; rep < reps; ++rep) {
    // a sequence of regions with changing thread counts: on_each, raw run(), on_each ...
    unsigned len = 2 + (unsigned)rng.below(4);
    std::vector<VL> counts;
    VL seq, kinds, joined;
    bool fast = g_mode != "ctl" && rng.coin(1, 3);
    uint64_t s = rng.next();
    unsigned fastN = 1 + (unsigned)rng.below(maxT);
    if (fast) tp.burnPower(fastN);
    for (unsigned k = 0; k < len; ++k) {
      unsigned n = fast ? fastN : 1 + (unsigned)rng.below(maxT);
      std::vector<int> cnt(poolMax + 1, 0);
      long fin = 0;
      int kind = (int)rng.below(2);
      g_cur = "region n=" + std::to_string(n);
      auto body = [&](unsigned tid) {
        __atomic_add_fetch(&cnt[std::min(tid, poolMax)], 1, __ATOMIC_SEQ_CST);
        if (g_mode != "ctl") for (volatile int i = 0; i < (int)(tid * 300); ++i) {}
        __atomic_add_fetch(&fin, 1, __ATOMIC_SEQ_CST);
      };
      galois::setActiveThreads(n);
      arm(n, s + k);
      if (kind == 0) galois::on_each([&](unsigned tid, unsigned nt) { body(nt == n ? tid : poolMax); });
      else tp.run(n, [&]() { body(galois::substrate::ThreadPool::getTID()); });
      disarm();
      counts.push_back(VL(cnt.begin(), cnt.end()));
      seq.push_back(n); kinds.push_back(kind); joined.push_back(fin);
    }
    if (fast) tp.beKind();
    const char* topo = getenv("GALOIS_VERIF_TOPO");
    out->line(Rec().str("k", "regions").str("mode", g_mode).str("topo", topo ? topo : "host").i("fast", fast ? 1 : 0).arr("seq", seq)
                  .arr("kinds", kinds).arr("joined", joined).raw("counts", vh::jarr2(counts)).i("seed", s % 1000000007));
  }
}

int main(int argc, char** argv) {
  if (argc < 5) { fprintf(stderr, "usage: doall out seed tier mode\n"); return 2; }
  vh::Out o(argv[1]);
  out = &o;
  g_seed = strtoull(argv[2], 0, 10);
  bool thorough = std::string(argv[3]) == "thorough";
  g_mode = argv[4];
  galois::SharedMemSys G;
  signal(SIGSEGV, onCrash); signal(SIGABRT, onCrash); signal(SIGBUS, onCrash);
#ifdef VERIF_FLAVOUR_C
  verif::on_abort(onAbort);
#endif
  vh::Rng rng(g_seed);
  if (g_mode == "pool16") {
    // regions with changing thread counts up to the full pool (the wake-up tree has sub-trees only from 11 threads on); the check
    // runs this mode confined to one or two CPUs, so that a thread woken early really runs before its parent continues
    g_mode = "free";
    onEachAndRegions(rng, galois::substrate::getThreadPool().getMaxThreads(), thorough ? 600 : 150);
    fprintf(stderr, "doall(pool16): %lld records\n", o.n);
    return 0;
  }
  bool ctl = g_mode == "ctl";
  unsigned maxT = std::min(galois::substrate::getThreadPool().getMaxThreads(), ctl ? 4u : (thorough ? 16u : 8u));
  if (ctl) {
    // small scope, many schedules: ranges 0..9, chunks 1..4, every range kind
    int reps = thorough ? 12 : 2;
    for (int rep = 0; rep < reps; ++rep)
      for (size_t n = 0; n <= 9; ++n)
        for (unsigned cs : {1u, 2u, 3u})
          for (unsigned t = 1; t <= maxT; ++t) {
            if ((n + cs + t + rep) % 2 && !thorough) continue;
            chunkDispatch(cs, n, t, rng.next(), (int)rng.below(6));
          }
  } else {
    std::vector<size_t> sizes = {0, 1, 2, 3, 5, 7, 8, 15, 16, 17, 63, 64, 65, 100, 1000, 4095, 4096, 4097, 10000};
    if (thorough) { sizes.push_back(100000); sizes.push_back(65537); }
    for (size_t n : sizes)
      for (unsigned cs : {1u, 2u, 3u, 4u, 16u, 64u, 4096u}) {
        if (!thorough && (n * 7 + cs) % 3 == 0) continue;
        unsigned t = 1 + (unsigned)rng.below(maxT);
        chunkDispatch(cs, n, t, rng.next(), (int)rng.below(6));
      }
  }
  if (g_mode == "free" && getenv("GALOIS_VERIF_TOPO")) {
    // work stealing across sockets: unbalanced work (the first thread's block is slow, everybody else runs dry and steals),
    // forward-only and random-access ranges, small chunks, many repetitions
    g_unbalanced = true;
    for (int rep = 0; rep < (thorough ? 500 : 120); ++rep) {
      size_t n = rep % 3 == 0 ? 500 : rep % 3 == 1 ? 2000 : 4097;
      unsigned t = std::max(2u, std::min(maxT, 4u + (unsigned)rng.below(5)));
      uint64_t s = rng.next();
      int kindSel = rep % 2 ? 2 : 1;
      if (rep % 4 < 2) doAllCase<3, true>(n, t, s, kindSel); else doAllCase<1, true>(n, t, s, kindSel);
    }
    g_unbalanced = false;
  }
  onEachAndRegions(rng, maxT, ctl ? (thorough ? 300 : 60) : (thorough ? 200 : 40));
  if (g_mode == "free" && galois::substrate::getThreadPool().getMaxThreads() >= 3) {
    // last of all: one pool thread is taken away for good (runDedicated, as the network layer does); "all threads" now means
    // one fewer, and loops sized by what setActiveThreads() answers must still cover everything exactly once
    auto& tp = galois::substrate::getThreadPool();
    unsigned poolMax = tp.getMaxThreads();
    static std::atomic<bool> stop(false);
    static std::function<void(void)> ded = [] { while (!stop.load()) usleep(500); };
    tp.runDedicated(ded);
    unsigned all = galois::setActiveThreads(poolMax + 3);
    std::vector<VL> counts; VL seq, joined;
    for (int rep = 0; rep < 3; ++rep) {
      VL cnt(poolMax + 1, 0); long fin = 0;
      g_cur = "on_each after runDedicated";
      galois::on_each([&](unsigned tid, unsigned nt) { __atomic_add_fetch(&cnt[nt == all && tid < poolMax ? tid : poolMax], 1, __ATOMIC_SEQ_CST); __atomic_add_fetch(&fin, 1, __ATOMIC_SEQ_CST); });
      seq.push_back(all); counts.push_back(cnt); joined.push_back(fin);
    }
    out->line(Rec().str("k", "regions").str("mode", g_mode).i("pool", poolMax).i("dedicated", 1).arr("seq", seq).raw("counts", vh::jarr2(counts)).arr("joined", joined));
    for (size_t n : {(size_t)7, (size_t)1000, (size_t)4097}) {
      doAllCase<1, false>(n, all, rng.next(), 0);
      doAllCase<3, false>(n, all, rng.next(), 1);
      doAllCase<2, true>(n, all, rng.next(), 1);
    }
    stop.store(true);
  }
  fprintf(stderr, "doall: %lld records\n", o.n);
  return 0;
}
