// for_each over per-thread chunked (stealing), simple locked, local-queue, stable-iterator and owner-computes worklists
#include "vh/foreach_harness.h"
namespace W = galois::worklists;
struct OwnerFn {
  unsigned operator()(int item) const { return (unsigned)item % galois::getActiveThreads(); }
};
int main(int argc, char** argv) {
  fe::Args a = fe::parse(argc, argv);
  vh::EventLog log(a.out.c_str());
  fe::L = &log;
  galois::SharedMemSys G;
  vh::Rng rng(a.seed);
#ifdef VERIF_FLAVOUR_C
  verif::on_abort(fe::onAbort);
#endif
  fe::campaign<W::PerThreadChunkFIFO<1>>("PerThreadChunkFIFO<1>", a, rng);
  fe::campaign<W::PerThreadChunkFIFO<2>>("PerThreadChunkFIFO<2>", a, rng);
  fe::campaign<W::PerThreadChunkLIFO<2>>("PerThreadChunkLIFO<2>", a, rng);
  fe::campaign<W::FIFO<>>("FIFO", a, rng);
  fe::campaign<W::LIFO<>>("LIFO", a, rng);
  fe::campaign<W::GFIFO<>>("GFIFO", a, rng);
  fe::campaign<W::GLIFO<>>("GLIFO", a, rng);
  fe::campaign<W::LocalQueue<W::PerSocketChunkFIFO<2>, W::GFIFO<>>>("LocalQueue<PerSocketChunkFIFO<2>,GFIFO>", a, rng);
  fe::campaign<W::LocalQueue<W::ChunkLIFO<2>, W::LIFO<>>>("LocalQueue<ChunkLIFO<2>,LIFO>", a, rng);
  fe::campaign<W::StableIterator<false>>("StableIterator<false>", a, rng);
  fe::campaign<W::StableIterator<true>>("StableIterator<true>", a, rng);
  fe::campaign<W::OwnerComputes<OwnerFn, W::ChunkLIFO<2>>>("OwnerComputes<ChunkLIFO<2>>", a, rng);
  fe::campaign<W::OrderedList<>>("OrderedList", a, rng);
  fprintf(stderr, "foreach_b: %ld events\n", log.total);
  return 0;
}
