// C09 binding: the real Galois allocators driven by allocation/free/clear histories from one or
// several pool threads (incl. freeing on another thread); every returned block is reported with its
// address (split into two words), usable size and the allocator's granularity; canaries are written
// into live blocks and re-checked at free.  TraceAlloc.tla keeps the live-interval map.
//   alloc <out.ndjson> <seed> <tier> <mode: seq|free>
#include "vh/json.h"
#include "vh/events.h"
#include "galois/Galois.h"
#ifdef VERIF_FLAVOUR_C
#include "verif_rt.h"
#endif
#include "galois/Mem.h"
#include "galois/runtime/Mem.h"
#include "galois/runtime/PagePool.h"
#include "galois/substrate/PerThreadStorage.h"
#include "galois/LargeArray.h"
#include <csignal>
#include <cstring>
#include <unistd.h>

using vh::kv; using vh::ks;
static vh::EventLog* L;
static void onCrash(int sig) { L->ev(64, ks("ev", "crash") + "," + kv("sig", sig)); L->flush(); _exit(3); }

struct Blk { char* p; size_t usable; int heap; unsigned char tag; };

static std::string addr(const void* p) {
  uintptr_t a = (uintptr_t)p;
  return kv("hi", (long long)(a >> 20)) + "," + kv("lo", (long long)(a & 0xFFFFF));
}
static void logAlloc(int t, int heap, size_t req, void* p, size_t usable, size_t gran) {
  // sizes as (megabytes, bytes) pairs like the addresses
  L->ev(t, ks("ev", "alloc") + "," + kv("h", heap) + "," + kv("t", t) + "," + kv("rm", (long long)(req >> 20)) + "," + kv("req", (long long)(req & 0xFFFFF)) + "," + addr(p) + "," +
               kv("um", (long long)(usable >> 20)) + "," + kv("usable", (long long)(usable & 0xFFFFF)) + "," + kv("g", (long long)gran) + "," + kv("null", p ? 0 : 1));
}
static void fill(Blk& b) { if (b.p) memset(b.p, b.tag, b.usable); }
static bool intact(const Blk& b) { for (size_t i = 0; i < b.usable; ++i) if ((unsigned char)b.p[i] != b.tag) return false; return true; }
static void logFree(int t, const Blk& b) {
  if (!intact(b)) L->ev(t, ks("ev", "bad") + "," + ks("what", "canary") + "," + kv("h", b.heap));
  L->ev(t, ks("ev", "free") + "," + kv("h", b.heap) + "," + kv("t", t) + "," + addr(b.p));
}

// heaps: 0..2 fixed-size (24, 8, 100 bytes), 3 power-of-two blocks, 4 variable-size bump heap, 5 per-iteration bump+malloc,
//        6 page pool, 7 per-thread storage objects, 8 large arrays
typedef galois::runtime::BumpWithMallocHeap<galois::runtime::FreeListHeap<galois::runtime::SystemHeap>> IterHeap;
struct Heaps {
  galois::runtime::FixedSizeHeap f24{24}, f8{8}, f100{100};
  galois::runtime::FixedSizeHeap f12{12}, f20{20}, f9{9};   // heaps 9, 10, 11: sizes between two multiples of 8
  galois::runtime::VariableSizeHeap var;
  IterHeap iter;
};
static const size_t FS[3] = {24, 8, 100};
static const size_t FS2[3] = {12, 20, 9};
static galois::runtime::FixedSizeHeap& fixedHeap(Heaps& H, int heap) { return heap == 0 ? H.f24 : heap == 1 ? H.f8 : heap == 2 ? H.f100 : heap == 9 ? H.f12 : heap == 10 ? H.f20 : H.f9; }
static bool isFixed(int heap) { return heap <= 2 || (heap >= 9 && heap <= 11); }

struct PtsObj { virtual ~PtsObj() {} virtual char* at(unsigned t) = 0; virtual size_t size() = 0; };
template <size_t N> struct PtsImpl : PtsObj {
  struct Pay { char c[N]; };
  galois::substrate::PerThreadStorage<Pay> s;
  char* at(unsigned t) override { return s.getRemote(t)->c; }
  size_t size() override { return N; }
};
static PtsObj* mkPts(int k) {
  switch (k % 5) { case 0: return new PtsImpl<4>(); case 1: return new PtsImpl<8>(); case 2: return new PtsImpl<100>(); case 3: return new PtsImpl<128>(); default: return new PtsImpl<200>(); }
}
// per-thread storage objects by size class (powers of two from a cache line to 64 KB)
static PtsObj* mkPtsSize(size_t n) {
  switch (n) {
  case 128: return new PtsImpl<128>(); case 256: return new PtsImpl<256>(); case 512: return new PtsImpl<512>(); case 1024: return new PtsImpl<1024>();
  case 2048: return new PtsImpl<2048>(); case 4096: return new PtsImpl<4096>(); case 8192: return new PtsImpl<8192>(); default: return new PtsImpl<65536>();
  }
}

static Blk doAlloc(Heaps& H, int heap, size_t req, int t, vh::Rng& r, std::vector<std::pair<PtsObj*, Blk>>* ptsLive,
                   std::vector<std::pair<galois::LargeArray<char>*, Blk>>* laLive) {
  Blk b{nullptr, 0, heap, (unsigned char)(1 + r.below(250))};
  size_t gran = 8;
  switch (heap) {
  case 0: case 1: case 2: case 9: case 10: case 11: { auto& h = fixedHeap(H, heap); req = heap <= 2 ? FS[heap] : FS2[heap - 9]; b.p = (char*)h.allocate(req); b.usable = req; gran = heap <= 2 ? 8 : 1; break; }
  case 3: { b.p = (char*)galois::runtime::Pow_2_BlockHeap::getInstance()->allocateBlock(req); b.usable = req; break; }
  case 4: {
    if (r.coin(1, 3)) { size_t got = 0; b.p = (char*)H.var.allocate(req, got); b.usable = got; if (got < req) req = got; }
    else { b.p = (char*)H.var.allocate(req); b.usable = req; }
    break; }
  case 5: { b.p = (char*)H.iter.allocate(req); b.usable = req; break; }
  case 6: { b.p = (char*)galois::runtime::pagePoolAlloc(); req = b.usable = 4096; gran = galois::runtime::pagePoolSize(); break; } // canary on the first 4 KB only
  case 7: { PtsObj* o = mkPts((int)req); b.p = o->at(t); req = b.usable = o->size(); gran = 1; ptsLive->push_back({o, b}); break; }
  default: { auto* a = new galois::LargeArray<char>(); if (req % 2) a->allocateInterleaved(req); else a->allocateBlocked(req); b.p = a->data(); b.usable = req; gran = 4096; laLive->push_back({a, b}); break; }
  }
  logAlloc(t, heap, req, b.p, b.usable, gran);
  fill(b);
  if (heap == 7 && !ptsLive->empty()) ptsLive->back().second = b;
  if (heap == 8 && !laLive->empty()) laLive->back().second = b;
  return b;
}

static size_t pickSize(int heap, vh::Rng& r, bool small) {
  static const size_t edge[] = {1, 7, 8, 9, 15, 16, 17, 24, 31, 32, 33, 63, 64, 65, 100, 127, 128, 129, 255, 256, 257, 1000, 4095, 4096, 4097,
                                65535, 65536, 65537, 70000, 1 << 20, (2 << 20) - 8, (2 << 20) - 9, 2 << 20, (2 << 20) + 1, 3 << 20};
  size_t s = edge[r.below(sizeof(edge) / sizeof(edge[0]))];
  if (heap == 4) { while (s > (2u << 20) - 16 && !r.coin(1, 4)) s = edge[r.below(30)]; if (s > (2u << 20) - 8) s = (2u << 20) - 8; } // bump heap: at most a page minus header
  if (heap == 3 && s > 200000) s = 70000;
  if (heap == 8) s = small ? 1 + r.below(5000) : 1 + r.below(3u << 20);
  if (heap == 7) s = r.below(5);
  // (the per-iteration heap keeps half of its oversize requests -- they go to its malloc fallback in the middle of a run of page-sized bumps)
  if (small && (heap == 4 || (heap == 5 && r.coin(1, 2))) && s > 100000) s = 4097;
  return s;
}

static void seqHistory(uint64_t seed, int len, int h) {
  vh::Rng r(seed);
  Heaps H;
  std::vector<Blk> live;
  std::vector<std::pair<PtsObj*, Blk>> pts;
  std::vector<std::pair<galois::LargeArray<char>*, Blk>> las;
  L->ev(64, ks("ev", "reset") + "," + ks("mode", "seq") + "," + kv("threads", 1) + "," + kv("seed", (long long)(seed % 1000000007)) + "," + kv("focus", h));
  int pages = 0;
  for (int i = 0; i < len; ++i) {
    int heap = h >= 0 && r.coin(2, 3) ? h : (int)r.below(12);
    int act = (int)r.below(10);
    if (act < 6 || live.empty()) {
      if (heap == 6 && ++pages > 24) continue;
      Blk b = doAlloc(H, heap, pickSize(heap, r, true), 0, r, &pts, &las);
      if (heap != 7 && heap != 8 && b.p) live.push_back(b);
    } else if (act < 9) {
      size_t k = r.below(live.size());
      Blk b = live[k];
      if (b.heap == 4 || b.heap == 5) { // bump heaps: blocks stay valid until clear(); check the canary now
        if (!intact(b)) L->ev(0, ks("ev", "bad") + "," + ks("what", "canary") + "," + kv("h", b.heap));
        continue;
      }
      logFree(0, b);
      switch (b.heap) {
      case 0: case 1: case 2: case 9: case 10: case 11: fixedHeap(H, b.heap).deallocate(b.p); break;
      case 3: galois::runtime::Pow_2_BlockHeap::getInstance()->deallocateBlock(b.p, b.usable); break;
      case 6: galois::runtime::pagePoolFree(b.p); --pages; break;
      }
      live.erase(live.begin() + k);
    } else {
      int which = r.coin() ? 4 : 5;
      for (size_t k = 0; k < live.size();) {
        if (live[k].heap == which) { if (!intact(live[k])) L->ev(0, ks("ev", "bad") + "," + ks("what", "canary") + "," + kv("h", which)); live.erase(live.begin() + k); } else ++k;
      }
      L->ev(0, ks("ev", "clear") + "," + kv("h", which));
      if (which == 4) H.var.clear(); else H.iter.clear();
    }
    if (h == 8 && i % 7 == 3 && las.size() < 6) {
      // a floating array of several gigabytes (address space only; nothing but three of its pages is ever touched): it must
      // be mapped over its whole length and overlap nothing
      static const size_t huge[] = {(4ull << 30) - 4096, 4ull << 30, (4ull << 30) + (2ull << 20), 5ull << 30, (2ull << 30) + 1, 9ull << 30};
      size_t n = huge[r.below(6)];
      auto* a = new galois::LargeArray<char>();
      a->allocateFloating(n);
      Blk b{a->data(), n, 8, 0};
      logAlloc(0, 8, n, b.p, n, 4096);
      if (b.p) { b.p[0] = 1; b.p[n / 2] = 2; b.p[n - 1] = 3; if (b.p[0] != 1 || b.p[n / 2] != 2 || b.p[n - 1] != 3) L->ev(0, ks("ev", "bad") + "," + ks("what", "huge") + "," + kv("h", 8)); }
      b.usable = 0;   // (no canary over gigabytes)
      las.push_back({a, b});
    }
    if (!pts.empty() && r.coin(1, 4)) { size_t k = r.below(pts.size()); logFree(0, pts[k].second); delete pts[k].first; pts.erase(pts.begin() + k); }
    if (!las.empty() && r.coin(1, 3)) { size_t k = r.below(las.size()); logFree(0, las[k].second); las[k].first->deallocate(); delete las[k].first; las.erase(las.begin() + k); }
  }
  // drain
  for (auto& b : live) {
    if (b.heap == 4 || b.heap == 5) continue;
    logFree(0, b);
    switch (b.heap) {
    case 0: case 1: case 2: case 9: case 10: case 11: fixedHeap(H, b.heap).deallocate(b.p); break;
    case 3: galois::runtime::Pow_2_BlockHeap::getInstance()->deallocateBlock(b.p, b.usable); break;
    case 6: galois::runtime::pagePoolFree(b.p); break;
    }
  }
  L->ev(0, ks("ev", "clear") + "," + kv("h", 4)); H.var.clear();
  L->ev(0, ks("ev", "clear") + "," + kv("h", 5)); H.iter.clear();
  for (auto& p : pts) { logFree(0, p.second); delete p.first; }
  for (auto& a : las) { logFree(0, a.second); a.first->deallocate(); delete a.first; }
  L->ev(64, ks("ev", "end"));
  L->flush();
}

// concurrent mixes on the shared heaps with hand-over of blocks to other threads for freeing
struct Slot { Blk b; volatile int full; char pad[64]; };
static void concurrent(uint64_t seed, unsigned threads, int opsPerThread) {
  Heaps H;
  static Slot box[64][8];
  for (auto& row : box) for (auto& s : row) s.full = 0;
  L->ev(64, ks("ev", "reset") + "," + ks("mode", "free") + "," + kv("threads", threads) + "," + kv("seed", (long long)(seed % 1000000007)) + "," + kv("focus", -1));
  galois::setActiveThreads(threads);
  galois::on_each([&](unsigned tid, unsigned nt) {
    vh::Rng r(seed * 131 + tid);
    std::vector<Blk> mine;
    auto release = [&](const Blk& b) {
      logFree(tid, b);
      switch (b.heap) {
      case 0: case 1: case 2: case 9: case 10: case 11: fixedHeap(H, b.heap).deallocate(b.p); break;
      case 3: galois::runtime::Pow_2_BlockHeap::getInstance()->deallocateBlock(b.p, b.usable); break;
      case 6: galois::runtime::pagePoolFree(b.p); break;
      }
    };
    for (int i = 0; i < opsPerThread; ++i) {
      int act = (int)r.below(10);
      if (act < 5) {
        int heap = (int)r.below(4);
        if (r.coin(1, 4)) heap = 9 + (int)r.below(3);
        if (r.coin(1, 40)) heap = 6;
        Blk b = doAlloc(H, heap, pickSize(heap, r, true), tid, r, nullptr, nullptr);
        if (b.p) mine.push_back(b);
      } else if (act < 7 && !mine.empty()) {
        size_t k = r.below(mine.size()); release(mine[k]); mine.erase(mine.begin() + k);
      } else if (act < 9 && !mine.empty()) {
        // hand a block to another thread, which frees it (cross-thread free)
        unsigned to = (unsigned)r.below(nt);
        Slot& s = box[to][r.below(8)];
        int expect = 0;
        if (__atomic_compare_exchange_n(&s.full, &expect, 2, false, __ATOMIC_ACQ_REL, __ATOMIC_RELAXED)) {   // claim the slot
          size_t k = r.below(mine.size());
          s.b = mine[k]; mine.erase(mine.begin() + k);
          __atomic_store_n(&s.full, 1, __ATOMIC_RELEASE);
        }
      }
      for (auto& s : box[tid]) if (__atomic_load_n(&s.full, __ATOMIC_ACQUIRE) == 1) { Blk b = s.b; __atomic_store_n(&s.full, 0, __ATOMIC_RELEASE); release(b); }
    }
    for (auto& b : mine) release(b);
  });
  for (auto& row : box) for (auto& s : row) if (s.full) {
    logFree(0, s.b);
    switch (s.b.heap) {
    case 0: case 1: case 2: case 9: case 10: case 11: fixedHeap(H, s.b.heap).deallocate(s.b.p); break;
    case 3: galois::runtime::Pow_2_BlockHeap::getInstance()->deallocateBlock(s.b.p, s.b.usable); break;
    case 6: galois::runtime::pagePoolFree(s.b.p); break;
    }
    s.full = 0;
  }
  L->ev(64, ks("ev", "end"));
  L->flush();
}

// per-thread storage with an exhausted page: once the bump pointer has reached the end of the 2 MB per-thread page
// every allocation is served from the free lists of offsets, splitting larger free blocks
static void ptsExhausted(uint64_t seed, int ops) {
  vh::Rng r(seed);
  L->ev(64, ks("ev", "reset") + "," + ks("mode", "pts") + "," + kv("threads", 1) + "," + kv("seed", (long long)(seed % 1000000007)) + "," + kv("focus", 7));
  std::vector<std::pair<PtsObj*, Blk>> live;
  auto add = [&](size_t n) {
    PtsObj* o = mkPtsSize(n);
    Blk b{o->at(0), o->size(), 7, (unsigned char)(1 + r.below(250))};
    logAlloc(0, 7, b.usable, b.p, b.usable, 128);
    fill(b);
    live.push_back({o, b});
    return b;
  };
  auto drop = [&](size_t k) { if (!intact(live[k].second)) L->ev(0, ks("ev", "bad") + "," + ks("what", "canary") + "," + kv("h", 7)); logFree(0, live[k].second); delete live[k].first; live.erase(live.begin() + k); };
  // the page is aligned to its size, so the offset of a block is its address modulo the page size
  const size_t page = galois::substrate::allocSize();
  Blk first = add(128);
  size_t used = ((uintptr_t)first.p & (page - 1)) + 128;
  // fill the page completely with 64 KB, 4 KB and 128 B objects (all sizes are multiples of 128)
  for (size_t sz : {(size_t)65536, (size_t)4096, (size_t)128}) while (used + sz <= page) { add(sz); used += sz; }
  // mirror of the free lists (counts per size class, as the unmodified algorithm keeps them): an allocation that no free
  // block can serve terminates the process by design, so only servable requests are issued
  std::vector<int> freeCls(31, 0);
  auto clsOf = [](size_t n) { unsigned i = 7; while ((1u << i) < n) ++i; return i; };
  for (int i = 0; i < ops; ++i) {
    if (r.coin(1, 2) && live.size() > 4) { size_t k = r.below(live.size() - 1); freeCls[clsOf(live[k].second.usable)]++; drop(k); }   // never the very last block
    else {
      static const size_t cls[] = {128, 256, 512, 1024, 2048, 4096, 8192};
      size_t want = cls[r.below(7)];
      unsigned ll = clsOf(want), index = ll;
      while (index < 31 && freeCls[index] == 0) ++index;
      if (index == 31) continue;
      freeCls[index]--;
      if (index > ll) { size_t start = want, end = (size_t)1 << index; for (unsigned k = index - 1; start < end; --k) { freeCls[k]++; start += (size_t)1 << k; } }
      add(want);
    }
  }
  while (!live.empty()) drop(live.size() - 1);
  L->ev(64, ks("ev", "end"));
  L->flush();
}

#ifdef VERIF_FLAVOUR_C
// page pool under controlled schedules: pages are allocated, freed by their owner and handed to other threads
// that free them (the free list of a page belongs to the thread that first allocated it)
static void ctlPages(uint64_t seed, unsigned threads, int opsPerThread) {
  static Slot box[8][4];
  for (auto& row : box) for (auto& s : row) s.full = 0;
  L->ev(64, ks("ev", "reset") + "," + ks("mode", "ctlpage") + "," + kv("threads", threads) + "," + kv("seed", (long long)(seed % 1000000007)) + "," + kv("focus", 6));
  galois::setActiveThreads(threads);
  Heaps* none = nullptr;
  verif::Config cfg;
  cfg.mode = verif::M_CTL; cfg.seed = seed; cfg.switch_pct = 10 + (int)(seed % 70); cfg.pct_depth = (seed % 4 == 3) ? 1 + (int)((seed >> 8) % 3) : 0;
  cfg.max_steps = 4000000; cfg.threads = threads;
  verif::configure(cfg);
  galois::on_each([&](unsigned tid, unsigned nt) {
    vh::Rng r(seed * 131 + tid);
    std::vector<Blk> mine;
    auto release = [&](const Blk& b) { if (!intact(b)) L->ev(tid, ks("ev", "bad") + "," + ks("what", "canary") + "," + kv("h", 6)); logFree(tid, b); galois::runtime::pagePoolFree(b.p); };
    for (int i = 0; i < opsPerThread; ++i) {
      int act = (int)r.below(10);
      if (act < 5 && mine.size() < 3) { Blk b = doAlloc(*none, 6, 0, tid, r, nullptr, nullptr); if (b.p) mine.push_back(b); }
      else if (act < 7 && !mine.empty()) { size_t k = r.below(mine.size()); release(mine[k]); mine.erase(mine.begin() + k); }
      else if (!mine.empty()) {
        unsigned to = (unsigned)r.below(nt);
        Slot& s = box[to][r.below(4)];
        int expect = 0;
        if (__atomic_compare_exchange_n(&s.full, &expect, 2, false, __ATOMIC_ACQ_REL, __ATOMIC_RELAXED)) {
          size_t k = r.below(mine.size()); s.b = mine[k]; mine.erase(mine.begin() + k);
          __atomic_store_n(&s.full, 1, __ATOMIC_RELEASE);
        }
      }
      for (auto& s : box[tid]) if (__atomic_load_n(&s.full, __ATOMIC_ACQUIRE) == 1) { Blk b = s.b; __atomic_store_n(&s.full, 0, __ATOMIC_RELEASE); release(b); }
    }
    for (auto& b : mine) release(b);
  });
  verif::Config off;
  verif::configure(off);
  for (auto& row : box) for (auto& s : row) if (s.full) { logFree(0, s.b); galois::runtime::pagePoolFree(s.b.p); s.full = 0; }
  L->ev(64, ks("ev", "end"));
  L->flush();
}
#endif

int main(int argc, char** argv) {
  if (argc < 5) { fprintf(stderr, "usage: alloc out seed tier mode\n"); return 2; }
  vh::EventLog log(argv[1]);
  L = &log;
  uint64_t seed = strtoull(argv[2], 0, 10);
  bool thorough = std::string(argv[3]) == "thorough";
  std::string mode = argv[4];
  galois::SharedMemSys G;
  signal(SIGSEGV, onCrash); signal(SIGABRT, onCrash); signal(SIGBUS, onCrash);
  vh::Rng rng(seed);
  if (mode == "seq") {
    // the very first operation on a fresh heap is a case of its own
    for (int h = 0; h < 12; ++h) for (int k = 0; k < (thorough ? 40 : 8); ++k) seqHistory(rng.next(), 1 + k % 4, h);
    for (int k = 0; k < (thorough ? 600 : 120); ++k) seqHistory(rng.next(), 20 + (int)rng.below(60), k % 13 - 1);
  } else if (mode == "pts") {
    ptsExhausted(rng.next(), thorough ? 4000 : 800);
#ifdef VERIF_FLAVOUR_C
  } else if (mode == "ctlpage") {
    for (int k = 0; k < (thorough ? 1500 : 300); ++k) ctlPages(rng.next(), 2 + (unsigned)rng.below(2), 12 + (int)rng.below(14));
#endif
  } else {
    unsigned maxT = std::min(galois::substrate::getThreadPool().getMaxThreads(), thorough ? 16u : 8u);
    for (int k = 0; k < (thorough ? 120 : 30); ++k) concurrent(rng.next(), 1 + (unsigned)rng.below(maxT), thorough ? 400 : 150);
  }
  fprintf(stderr, "alloc: %ld events\n", log.total);
  return 0;
}
