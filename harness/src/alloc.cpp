// C09 binding: the real Galois allocators driven by allocation/free/clear histories from one or
// several pool threads (incl. freeing on another thread); every returned block is reported with its
// address (split into two words), usable size and the allocator's granularity; canaries are written
// into live blocks and re-checked at free.  TraceAlloc.tla keeps the live-interval map.
//   alloc <out.ndjson> <seed> <tier> <mode: seq|free>
#include "vh/json.h"
#include "vh/events.h"
#include "galois/Galois.h"
#include "galois/Mem.h"
#include "galois/runtime/Mem.h"
#include "galois/runtime/PagePool.h"
#include "galois/substrate/PerThreadStorage.h"
#include "galois/LargeArray.h"
#include <csignal>
#include <cstring>
#include <unistd.h>

using vh::kv; using vh::ks;
static vh::EventLog* L;
static void onCrash(int sig) { L->ev(64, ks("ev", "crash") + "," + kv("sig", sig)); L->flush(); _exit(3); }

struct Blk { char* p; size_t usable; int heap; unsigned char tag; };

static std::string addr(const void* p) {
  uintptr_t a = (uintptr_t)p;
  return kv("hi", (long long)(a >> 20)) + "," + kv("lo", (long long)(a & 0xFFFFF));
}
static void logAlloc(int t, int heap, size_t req, void* p, size_t usable, size_t gran) {
  L->ev(t, ks("ev", "alloc") + "," + kv("h", heap) + "," + kv("t", t) + "," + kv("req", (long long)req) + "," + addr(p) + "," +
               kv("usable", (long long)usable) + "," + kv("g", (long long)gran) + "," + kv("null", p ? 0 : 1));
}
static void fill(Blk& b) { if (b.p) memset(b.p, b.tag, b.usable); }
static bool intact(const Blk& b) { for (size_t i = 0; i < b.usable; ++i) if ((unsigned char)b.p[i] != b.tag) return false; return true; }
static void logFree(int t, const Blk& b) {
  if (!intact(b)) L->ev(t, ks("ev", "bad") + "," + ks("what", "canary") + "," + kv("h", b.heap));
  L->ev(t, ks("ev", "free") + "," + kv("h", b.heap) + "," + kv("t", t) + "," + addr(b.p));
}

// heaps: 0..2 fixed-size (24, 8, 100 bytes), 3 power-of-two blocks, 4 variable-size bump heap, 5 per-iteration bump+malloc,
//        6 page pool, 7 per-thread storage objects, 8 large arrays
typedef galois::runtime::BumpWithMallocHeap<galois::runtime::FreeListHeap<galois::runtime::SystemHeap>> IterHeap;
struct Heaps {
  galois::runtime::FixedSizeHeap f24{24}, f8{8}, f100{100};
  galois::runtime::VariableSizeHeap var;
  IterHeap iter;
};
static const size_t FS[3] = {24, 8, 100};

struct PtsObj { virtual ~PtsObj() {} virtual char* at(unsigned t) = 0; virtual size_t size() = 0; };
template <size_t N> struct PtsImpl : PtsObj {
  struct Pay { char c[N]; };
  galois::substrate::PerThreadStorage<Pay> s;
  char* at(unsigned t) override { return s.getRemote(t)->c; }
  size_t size() override { return N; }
};
static PtsObj* mkPts(int k) {
  switch (k % 5) { case 0: return new PtsImpl<4>(); case 1: return new PtsImpl<8>(); case 2: return new PtsImpl<100>(); case 3: return new PtsImpl<128>(); default: return new PtsImpl<200>(); }
}

static Blk doAlloc(Heaps& H, int heap, size_t req, int t, vh::Rng& r, std::vector<std::pair<PtsObj*, Blk>>* ptsLive,
                   std::vector<std::pair<galois::LargeArray<char>*, Blk>>* laLive) {
  Blk b{nullptr, 0, heap, (unsigned char)(1 + r.below(250))};
  size_t gran = 8;
  switch (heap) {
  case 0: case 1: case 2: { auto& h = heap == 0 ? H.f24 : heap == 1 ? H.f8 : H.f100; req = FS[heap]; b.p = (char*)h.allocate(req); b.usable = req; break; }
  case 3: { b.p = (char*)galois::runtime::Pow_2_BlockHeap::getInstance()->allocateBlock(req); b.usable = req; break; }
  case 4: {
    if (r.coin(1, 3)) { size_t got = 0; b.p = (char*)H.var.allocate(req, got); b.usable = got; if (got < req) req = got; }
    else { b.p = (char*)H.var.allocate(req); b.usable = req; }
    break; }
  case 5: { b.p = (char*)H.iter.allocate(req); b.usable = req; break; }
  case 6: { b.p = (char*)galois::runtime::pagePoolAlloc(); req = b.usable = 4096; gran = galois::runtime::pagePoolSize(); break; } // canary on the first 4 KB only
  case 7: { PtsObj* o = mkPts((int)req); b.p = o->at(t); req = b.usable = o->size(); gran = 1; ptsLive->push_back({o, b}); break; }
  default: { auto* a = new galois::LargeArray<char>(); if (req % 2) a->allocateInterleaved(req); else a->allocateBlocked(req); b.p = a->data(); b.usable = req; gran = 4096; laLive->push_back({a, b}); break; }
  }
  logAlloc(t, heap, req, b.p, b.usable, gran);
  fill(b);
  if (heap == 7 && !ptsLive->empty()) ptsLive->back().second = b;
  if (heap == 8 && !laLive->empty()) laLive->back().second = b;
  return b;
}

static size_t pickSize(int heap, vh::Rng& r, bool small) {
  static const size_t edge[] = {1, 7, 8, 9, 15, 16, 17, 24, 31, 32, 33, 63, 64, 65, 100, 127, 128, 129, 255, 256, 257, 1000, 4095, 4096, 4097,
                                65535, 65536, 65537, 70000, 1 << 20, (2 << 20) - 8, (2 << 20) - 9, 2 << 20, (2 << 20) + 1, 3 << 20};
  size_t s = edge[r.below(sizeof(edge) / sizeof(edge[0]))];
  if (heap == 4) { while (s > (2u << 20) - 16 && !r.coin(1, 4)) s = edge[r.below(30)]; if (s > (2u << 20) - 8) s = (2u << 20) - 8; } // bump heap: at most a page minus header
  if (heap == 3 && s > 200000) s = 70000;
  if (heap == 8) s = small ? 1 + r.below(5000) : 1 + r.below(3u << 20);
  if (heap == 7) s = r.below(5);
  if (small && (heap == 4 || heap == 5) && s > 100000) s = 4097;
  return s;
}

static void seqHistory(uint64_t seed, int len, int h) {
  vh::Rng r(seed);
  Heaps H;
  std::vector<Blk> live;
  std::vector<std::pair<PtsObj*, Blk>> pts;
  std::vector<std::pair<galois::LargeArray<char>*, Blk>> las;
  L->ev(64, ks("ev", "reset") + "," + ks("mode", "seq") + "," + kv("threads", 1) + "," + kv("seed", (long long)(seed % 1000000007)) + "," + kv("focus", h));
  int pages = 0;
  for (int i = 0; i < len; ++i) {
    int heap = h >= 0 && r.coin(2, 3) ? h : (int)r.below(9);
    int act = (int)r.below(10);
    if (act < 6 || live.empty()) {
      if (heap == 6 && ++pages > 24) continue;
      Blk b = doAlloc(H, heap, pickSize(heap, r, true), 0, r, &pts, &las);
      if (heap != 7 && heap != 8 && b.p) live.push_back(b);
    } else if (act < 9) {
      size_t k = r.below(live.size());
      Blk b = live[k];
      if (b.heap == 4 || b.heap == 5) { // bump heaps: blocks stay valid until clear(); check the canary now
        if (!intact(b)) L->ev(0, ks("ev", "bad") + "," + ks("what", "canary") + "," + kv("h", b.heap));
        continue;
      }
      logFree(0, b);
      switch (b.heap) {
      case 0: H.f24.deallocate(b.p); break; case 1: H.f8.deallocate(b.p); break; case 2: H.f100.deallocate(b.p); break;
      case 3: galois::runtime::Pow_2_BlockHeap::getInstance()->deallocateBlock(b.p, b.usable); break;
      case 6: galois::runtime::pagePoolFree(b.p); --pages; break;
      }
      live.erase(live.begin() + k);
    } else {
      int which = r.coin() ? 4 : 5;
      for (size_t k = 0; k < live.size();) {
        if (live[k].heap == which) { if (!intact(live[k])) L->ev(0, ks("ev", "bad") + "," + ks("what", "canary") + "," + kv("h", which)); live.erase(live.begin() + k); } else ++k;
      }
      L->ev(0, ks("ev", "clear") + "," + kv("h", which));
      if (which == 4) H.var.clear(); else H.iter.clear();
    }
    if (!pts.empty() && r.coin(1, 4)) { size_t k = r.below(pts.size()); logFree(0, pts[k].second); delete pts[k].first; pts.erase(pts.begin() + k); }
    if (!las.empty() && r.coin(1, 3)) { size_t k = r.below(las.size()); logFree(0, las[k].second); las[k].first->deallocate(); delete las[k].first; las.erase(las.begin() + k); }
  }
  // drain
  for (auto& b : live) {
    if (b.heap == 4 || b.heap == 5) continue;
    logFree(0, b);
    switch (b.heap) {
    case 0: H.f24.deallocate(b.p); break; case 1: H.f8.deallocate(b.p); break; case 2: H.f100.deallocate(b.p); break;
    case 3: galois::runtime::Pow_2_BlockHeap::getInstance()->deallocateBlock(b.p, b.usable); break;
    case 6: galois::runtime::pagePoolFree(b.p); break;
    }
  }
  L->ev(0, ks("ev", "clear") + "," + kv("h", 4)); H.var.clear();
  L->ev(0, ks("ev", "clear") + "," + kv("h", 5)); H.iter.clear();
  for (auto& p : pts) { logFree(0, p.second); delete p.first; }
  for (auto& a : las) { logFree(0, a.second); a.first->deallocate(); delete a.first; }
  L->ev(64, ks("ev", "end"));
  L->flush();
}

// concurrent mixes on the shared heaps with hand-over of blocks to other threads for freeing
struct Slot { Blk b; volatile int full; char pad[64]; };
static void concurrent(uint64_t seed, unsigned threads, int opsPerThread) {
  Heaps H;
  static Slot box[64][8];
  for (auto& row : box) for (auto& s : row) s.full = 0;
  L->ev(64, ks("ev", "reset") + "," + ks("mode", "free") + "," + kv("threads", threads) + "," + kv("seed", (long long)(seed % 1000000007)) + "," + kv("focus", -1));
  galois::setActiveThreads(threads);
  galois::on_each([&](unsigned tid, unsigned nt) {
    vh::Rng r(seed * 131 + tid);
    std::vector<Blk> mine;
    auto release = [&](const Blk& b) {
      logFree(tid, b);
      switch (b.heap) {
      case 0: H.f24.deallocate(b.p); break; case 1: H.f8.deallocate(b.p); break; case 2: H.f100.deallocate(b.p); break;
      case 3: galois::runtime::Pow_2_BlockHeap::getInstance()->deallocateBlock(b.p, b.usable); break;
      case 6: galois::runtime::pagePoolFree(b.p); break;
      }
    };
    for (int i = 0; i < opsPerThread; ++i) {
      int act = (int)r.below(10);
      if (act < 5) {
        int heap = (int)r.below(4);
        if (r.coin(1, 40)) heap = 6;
        Blk b = doAlloc(H, heap, pickSize(heap, r, true), tid, r, nullptr, nullptr);
        if (b.p) mine.push_back(b);
      } else if (act < 7 && !mine.empty()) {
        size_t k = r.below(mine.size()); release(mine[k]); mine.erase(mine.begin() + k);
      } else if (act < 9 && !mine.empty()) {
        // hand a block to another thread, which frees it (cross-thread free)
        unsigned to = (unsigned)r.below(nt);
        Slot& s = box[to][r.below(8)];
        int expect = 0;
        if (__atomic_compare_exchange_n(&s.full, &expect, 2, false, __ATOMIC_ACQ_REL, __ATOMIC_RELAXED)) {   // claim the slot
          size_t k = r.below(mine.size());
          s.b = mine[k]; mine.erase(mine.begin() + k);
          __atomic_store_n(&s.full, 1, __ATOMIC_RELEASE);
        }
      }
      for (auto& s : box[tid]) if (__atomic_load_n(&s.full, __ATOMIC_ACQUIRE) == 1) { Blk b = s.b; __atomic_store_n(&s.full, 0, __ATOMIC_RELEASE); release(b); }
    }
    for (auto& b : mine) release(b);
  });
  for (auto& row : box) for (auto& s : row) if (s.full) {
    logFree(0, s.b);
    switch (s.b.heap) {
    case 0: H.f24.deallocate(s.b.p); break; case 1: H.f8.deallocate(s.b.p); break; case 2: H.f100.deallocate(s.b.p); break;
    case 3: galois::runtime::Pow_2_BlockHeap::getInstance()->deallocateBlock(s.b.p, s.b.usable); break;
    case 6: galois::runtime::pagePoolFree(s.b.p); break;
    }
    s.full = 0;
  }
  L->ev(64, ks("ev", "end"));
  L->flush();
}

int main(int argc, char** argv) {
  if (argc < 5) { fprintf(stderr, "usage: alloc out seed tier mode\n"); return 2; }
  vh::EventLog log(argv[1]);
  L = &log;
  uint64_t seed = strtoull(argv[2], 0, 10);
  bool thorough = std::string(argv[3]) == "thorough";
  std::string mode = argv[4];
  galois::SharedMemSys G;
  signal(SIGSEGV, onCrash); signal(SIGABRT, onCrash); signal(SIGBUS, onCrash);
  vh::Rng rng(seed);
  if (mode == "seq") {
    // the very first operation on a fresh heap is a case of its own
    for (int h = 0; h < 9; ++h) for (int k = 0; k < (thorough ? 40 : 8); ++k) seqHistory(rng.next(), 1 + k % 4, h);
    for (int k = 0; k < (thorough ? 600 : 120); ++k) seqHistory(rng.next(), 20 + (int)rng.below(60), k % 10 - 1);
  } else {
    unsigned maxT = std::min(galois::substrate::getThreadPool().getMaxThreads(), thorough ? 16u : 8u);
    for (int k = 0; k < (thorough ? 120 : 30); ++k) concurrent(rng.next(), 1 + (unsigned)rng.below(maxT), thorough ? 400 : 150);
  }
  fprintf(stderr, "alloc: %ld events\n", log.total);
  return 0;
}
