// C05 binding: every barrier implementation on real pool threads; per-thread phase stamps are
// written before wait() and all stamps are read after it.  Flavour C: controlled schedules
// (mode ctl) or jitter; flavour F: free running.
//   barriers <out.ndjson> <seed> <tier> <mode: ctl|jitter|free> [kinds,comma-separated]
#include "vh/json.h"
#include "vh/events.h"
#include "galois/Galois.h"
#include "galois/substrate/Barrier.h"
#include "galois/substrate/ThreadPool.h"
#ifdef VERIF_FLAVOUR_C
#include "verif_rt.h"
#endif
#include <cstring>
#include <memory>

using vh::kv; using vh::ks;
static vh::EventLog* L;
static std::string g_cur;

static void onAbort(const char* why) {
  // threads of the region are stuck: record the hang for the execution in progress
  L->ev(64, ks("ev", "hang") + "," + ks("why", why));
  L->flush();
}

struct Stamp { volatile long v; char pad[120]; };
static Stamp stamps[64];

static void phases(galois::substrate::Barrier& b, unsigned P, unsigned K, unsigned base, uint64_t seed) {
  auto& tp = galois::substrate::getThreadPool();
#ifdef VERIF_FLAVOUR_C
  verif::set_threads(P);
#endif
  tp.run(P, [&]() {
    unsigned tid = galois::substrate::ThreadPool::getTID();
    vh::Rng r(seed * 977 + tid);
    for (unsigned k = 1; k <= K; ++k) {
      // a fast thread re-enters while slow ones are still leaving: uneven local work
      if (r.coin(1, 3)) for (volatile int i = 0; i < (int)r.below(300); ++i) {}
      stamps[tid].v = base + k;
      L->ev(tid, ks("ev", "arr") + "," + kv("t", tid) + "," + kv("k", base + k));
      b.wait();
      long mn = 1 << 30;
      for (unsigned u = 0; u < P; ++u) mn = std::min(mn, (long)stamps[u].v);
      L->ev(tid, ks("ev", "dep") + "," + kv("t", tid) + "," + kv("k", base + k) + "," + kv("min", mn));
    }
  });
}

int main(int argc, char** argv) {
  if (argc < 5) { fprintf(stderr, "usage: barriers out seed tier mode [kinds]\n"); return 2; }
  vh::EventLog log(argv[1]);
  L = &log;
  uint64_t seed = strtoull(argv[2], 0, 10);
  bool thorough = std::string(argv[3]) == "thorough";
  std::string mode = argv[4];
  std::string kinds = argc > 5 ? argv[5] : "counting,mcs,dissemination,topo,simple,pthread,system";
  galois::SharedMemSys G;
  auto& tp = galois::substrate::getThreadPool();
  unsigned maxP = std::min(tp.getMaxThreads(), mode == "ctl" ? (thorough ? 5u : 4u) : (thorough ? 12u : 8u));
  const char* topo = getenv("GALOIS_VERIF_TOPO");
  vh::Rng rng(seed);
#ifdef VERIF_FLAVOUR_C
  verif::on_abort(onAbort);
#endif
  unsigned execs = mode == "ctl" ? (thorough ? 400 : 60) : (thorough ? 40 : 12);
  unsigned K = mode == "ctl" ? 3 : (thorough ? 300 : 60);
  size_t pos = 0;
  while (pos < kinds.size()) {
    size_t c = kinds.find(',', pos);
    if (c == std::string::npos) c = kinds.size();
    std::string kind = kinds.substr(pos, c - pos);
    pos = c + 1;
    if (kind == "pthread" && mode == "ctl") continue; // blocks in the kernel: not schedulable cooperatively
    for (unsigned P = 1; P <= maxP; ++P)
      for (unsigned e = 0; e < execs; ++e) {
        uint64_t s = rng.next();
        std::unique_ptr<galois::substrate::Barrier> own;
        galois::substrate::Barrier* b;
        if (kind == "counting") own = galois::substrate::createCountingBarrier(P);
        else if (kind == "mcs") own = galois::substrate::createMCSBarrier(P);
        else if (kind == "dissemination") own = galois::substrate::createDisseminationBarrier(P);
        else if (kind == "topo") own = galois::substrate::createTopoBarrier(P);
        else if (kind == "simple") own = galois::substrate::createSimpleBarrier(P);
        else if (kind == "pthread") own = galois::substrate::createPthreadBarrier(P);
        b = own ? own.get() : &galois::substrate::getBarrier(P);
        for (auto& st : stamps) st.v = 0;
        L->ev(64, ks("ev", "reset") + "," + ks("bar", kind) + "," + kv("P", P) + "," + kv("K", K) + "," + ks("mode", mode) +
                      "," + kv("seed", (long long)(s % 1000000007)) + "," + ks("topo", topo ? topo : "host"));
#ifdef VERIF_FLAVOUR_C
        verif::Config cfg;
        cfg.mode = mode == "ctl" ? verif::M_CTL : (mode == "jitter" ? verif::M_JITTER : verif::M_PASS);
        cfg.seed = s;
        cfg.switch_pct = 10 + (int)(s % 60);
        cfg.pct_depth = (e % 3 == 2) ? 1 + (int)(s % 3) : 0;
        cfg.max_steps = 400000;
        verif::configure(cfg);
#endif
        phases(*b, P, K, 0, s);
        // re-initialise to a different participant count between regions and go on
        unsigned P2 = 1 + (unsigned)(s % maxP);
        if (kind == "system") b = &galois::substrate::getBarrier(P2);
        else b->reinit(P2);
        for (auto& st : stamps) st.v = K;
        L->ev(64, ks("ev", "reinit") + "," + kv("P", P2));
        phases(*b, P2, 2, K, s + 1);
        // and back (reuse of the same object with the original count)
        if (kind == "system") b = &galois::substrate::getBarrier(P);
        else b->reinit(P);
        for (auto& st : stamps) st.v = K + 2;
        L->ev(64, ks("ev", "reinit") + "," + kv("P", P));
        phases(*b, P, 2, K + 2, s + 2);
#ifdef VERIF_FLAVOUR_C
        verif::Config off;
        verif::configure(off);
#endif
        L->ev(64, ks("ev", "end"));
        L->flush();
      }
  }
  fprintf(stderr, "barriers: %ld events\n", log.total);
  return 0;
}
