// C10 binding: morph-graph mutation.  (1) sequential histories on every flavour with a full
// structural dump through the public API after each operation; (2) mutation programs inside the
// real for_each (one mutator per iteration, default conflict flags) with the commit log taken by
// the operator and a full dump after the loop.  TraceMorph.tla replays the operations on MorphAbs.
//   morph <out.ndjson> <seed> <tier> <mode: seq|ctl|jitter|free>
#include "vh/json.h"
#include "vh/events.h"
#include "galois/Galois.h"
#include "galois/graphs/MorphGraph.h"
#ifdef VERIF_FLAVOUR_C
#include "verif_rt.h"
#endif
#include <algorithm>
#include <csignal>
#include <map>
#include <unistd.h>

using vh::kv; using vh::ks;
typedef std::vector<long long> VL;
static vh::EventLog* L;
static std::string g_mode;

static void onAbort(const char* why) { L->ev(64, ks("ev", "hang") + "," + ks("why", why)); L->flush(); }
static void onCrash(int sig) { L->ev(64, ks("ev", "crash") + "," + kv("sig", sig)); L->flush(); _exit(3); }

struct MOp { int op; int a; int b; int d; }; // 0 addnode 1 rmnode 2 addedge 3 addmulti 4 rmedge 5 find 6 setdata 7 setnode 8 incdata 9 findall
static const char* OPN[] = {"addnode", "rmnode", "addedge", "addmulti", "rmedge", "find", "setdata", "setnode", "incdata", "findall"};

template <typename G, bool HasIn, bool Undirected>
struct Driver {
  typedef typename G::GraphNode GN;
  G g;
  std::vector<GN> node;         // id -> handle (created lazily, never re-added after removal)
  std::vector<char> state;      // 0 unused, 1 active, 2 removed
  bool sortedG = false;         // edges are kept sorted by destination (findEdgeSortedByDst is usable)
  explicit Driver(int maxNodes) : node(maxNodes, nullptr), state(maxNodes, 0) {}
  int idOf(GN n) { for (size_t i = 0; i < node.size(); ++i) if (node[i] == n) return (int)i; return -1; }

  // performs the operation with default flags (inside for_each these acquire); returns the result list
  VL apply(const MOp& o) {
    switch (o.op) {
    case 0: { GN n = g.createNode(o.a * 100); node[o.a] = n; g.addNode(n); return {1}; }
    case 1: { g.removeNode(node[o.a]); return {1}; }
    case 2: { auto pre = g.findEdge(node[o.a], node[o.b]); bool existed = pre != g.edge_end(node[o.a]);
              auto e = g.addEdge(node[o.a], node[o.b]);
              if (!existed) g.getEdgeData(e) = o.d;
              return {existed ? 0 : 1, (long long)g.getEdgeData(e)}; }
    case 3: { auto e = g.addMultiEdge(node[o.a], node[o.b], galois::MethodFlag::WRITE, o.d); return {1, (long long)g.getEdgeData(e)}; }
    case 4: { auto e = g.findEdge(node[o.a], node[o.b]); if (e == g.edge_end(node[o.a])) return {0}; g.removeEdge(node[o.a], e); return {1}; }
    case 5: { auto e = g.findEdge(node[o.a], node[o.b]); return {e == g.edge_end(node[o.a]) ? 0 : 1}; }
    case 6: { auto e = g.findEdge(node[o.a], node[o.b]); if (e == g.edge_end(node[o.a])) return {0}; g.getEdgeData(e) = o.d; return {1}; }
    case 8: { // read-modify-write of the edge data under the locks findEdge took; the pause is a scheduling point
              auto e = g.findEdge(node[o.a], node[o.b]); if (e == g.edge_end(node[o.a])) return {0};
              long long v = g.getEdgeData(e); galois::substrate::asmPause(); g.getEdgeData(e) = (int)(v + 100); return {1, v + 100}; }
    case 9: { // every way of looking an edge up must agree: findEdge, the sorted lookup (sorted flavours), the reverse view
              // (the lookup comes first: it takes the locks; an end iterator fetched before that may be stale)
              auto e1 = g.findEdge(node[o.a], node[o.b]);
              long long f1 = e1 == g.edge_end(node[o.a]) ? 0 : 1, f2 = f1, f3 = f1;
              if (sortedG) { auto e2 = g.findEdgeSortedByDst(node[o.a], node[o.b]); f2 = e2 == g.edge_end(node[o.a]) ? 0 : 1; }
              if constexpr (HasIn && !Undirected) { auto e3 = g.findInEdge(node[o.b], node[o.a]); f3 = e3 == g.in_edge_end(node[o.b]) ? 0 : 1; }
              else if constexpr (Undirected) { auto e3 = g.findEdge(node[o.b], node[o.a]); f3 = e3 == g.edge_end(node[o.b]) ? 0 : 1; }
              return {f1, f2, f3}; }
    default: { g.getData(node[o.a]) = o.d; return {1}; }
    }
  }
  // parallel iteration over the nodes, the way galois::iterate(graph) hands them to do_all / for_each (local ranges of the
  // node bag); a runaway iteration is cut off
  std::string piter() {
    static int visits[256];
    for (auto& v : visits) v = 0;
    long total = 0, bad = 0;
    long limit = 50 * (long)node.size() + 1000;
    galois::do_all(galois::iterate(g), [&](GN n) {
      if (__atomic_add_fetch(&total, 1, __ATOMIC_SEQ_CST) > limit) {
        static int once = 0;
        if (__atomic_exchange_n(&once, 1, __ATOMIC_SEQ_CST) != 0) for (;;) usleep(1000);   // one thread reports
        L->ev(64, ks("ev", "piter") + ",\"nodes\":[]," + kv("bad", -1));
        L->flush();
        _exit(3);
      }
      int id = n ? idOf(n) : -1;
      if (id < 0 || id >= 256) __atomic_add_fetch(&bad, 1, __ATOMIC_SEQ_CST); else __atomic_add_fetch(&visits[id], 1, __ATOMIC_SEQ_CST);
    }, galois::no_stats(), galois::loopname("piter"));
    VL ids;
    for (int i = 0; i < 256; ++i) for (int k = 0; k < visits[i]; ++k) ids.push_back(i);
    return ks("ev", "piter") + ",\"nodes\":" + vh::jarr(ids) + "," + kv("bad", bad);
  }
  // which operations are applicable given the harness-side node states (pre-condition of the ADT)
  bool applicable(const MOp& o) {
    auto act = [&](int n) { return state[n] == 1; };
    switch (o.op) {
    case 0: return state[o.a] == 0;
    case 1: case 7: return act(o.a);
    default: return act(o.a) && act(o.b);
    }
  }
  void track(const MOp& o) { if (o.op == 0) state[o.a] = 1; if (o.op == 1) state[o.a] = 2; }

  std::string dump() {
    // everything through the public API, unprotected (single thread, after the loop)
    std::string nodes = "[", outs = "[", ins = "[";
    bool firstN = true;
    long sortedOK = 1, dupNodes = 0;
    std::vector<int> seen;
    for (auto it = g.begin(); it != g.end(); ++it) {
      GN n = *it;
      int id = idOf(n);
      if (std::find(seen.begin(), seen.end(), id) != seen.end()) ++dupNodes;
      seen.push_back(id);
    }
    std::sort(seen.begin(), seen.end());
    for (int id : seen) {
      GN n = node[id];
      if (!firstN) { nodes += ","; outs += ","; ins += ","; }
      firstN = false;
      nodes += std::to_string(id);
      std::vector<std::pair<int, long long>> ov, iv;
      GN prev = nullptr;
      for (auto e = g.edge_begin(n, galois::MethodFlag::UNPROTECTED); e != g.edge_end(n, galois::MethodFlag::UNPROTECTED); ++e) {
        GN d = g.getEdgeDst(e);
        ov.push_back({idOf(d), (long long)g.getEdgeData(e)});
        if (prev && d < prev) sortedOK = 0;
        prev = d;
      }
      std::sort(ov.begin(), ov.end());
      outs += "[" + std::to_string(id) + ",[";
      for (size_t k = 0; k < ov.size(); ++k) outs += (k ? "," : "") + std::string("[") + std::to_string(ov[k].first) + "," + std::to_string(ov[k].second) + "]";
      outs += "]]";
      ins += "[" + std::to_string(id) + ",[";
      if constexpr (HasIn) {
        for (auto e = g.in_edge_begin(n, galois::MethodFlag::UNPROTECTED); e != g.in_edge_end(n, galois::MethodFlag::UNPROTECTED); ++e)
          iv.push_back({idOf(g.getEdgeDst(e)), (long long)g.getEdgeData(e)});
        std::sort(iv.begin(), iv.end());
        for (size_t k = 0; k < iv.size(); ++k) ins += (k ? "," : "") + std::string("[") + std::to_string(iv[k].first) + "," + std::to_string(iv[k].second) + "]";
      }
      ins += "]]";
    }
    return ks("ev", "dump") + ",\"nodes\":" + nodes + "]" + ",\"out\":" + outs + "]" + ",\"in\":" + ins + "]" + "," + kv("sorted", sortedOK) +
           "," + kv("dupnodes", dupNodes) + "," + kv("data", 0);
  }
};

static std::string opJson(int t, const MOp& o, const VL& res) {
  return ks("ev", "op") + "," + kv("t", t) + "," + ks("op", OPN[o.op]) + "," + kv("a", o.a) + "," + kv("b", o.b) + "," + kv("d", o.d) +
         ",\"res\":" + vh::jarr(res);
}

static bool g_selfloops = false;
static int g_loopPolicy = 0;          // 0: no self loops at all, 1: every execution may contain self loops
static std::string g_only = "all";   // run only this flavour
static MOp randomOp(vh::Rng& r, int nn, int step) {
  MOp o;
  int k = (int)r.below(27);
  o.op = k < 3 ? 0 : k < 5 ? 1 : k < 10 ? 2 : k < 13 ? 3 : k < 16 ? 4 : k < 17 ? 5 : k < 19 ? 6 : k < 20 ? 7 : k < 24 ? 8 : 9;
  o.a = (int)r.below(nn); o.b = (int)r.below(nn); o.d = step + 1;
  if (!g_selfloops && o.op >= 2 && o.op != 7 && o.a == o.b) o.b = (o.a + 1) % nn;   // self loops only in flagged executions
  // parallel edges only between designated pairs and with one constant datum, so that "remove / update
  // the edge a->b" has one outcome up to isomorphism (the trace specification stays deterministic)
  bool multiPair = ((o.a + 2 * o.b) % 3 == 0);
  if (o.op == 3) { if (!multiPair) o.op = 2; else o.d = 7; }
  if (multiPair && (o.op == 2 || o.op == 6)) o.op = 3, o.d = 7;
  if (multiPair && o.op == 8) o.op = 9;
  return o;
}

template <typename G, bool HasIn, bool Undirected, bool Sorted, bool Concurrent>
static void flavour(const char* name, vh::Rng& rng, bool thorough) {
  if (g_only != "all" && g_only != name) return;
  // ---- (1) sequential histories
  if (g_mode == "seq") {
    int hist = (thorough ? 3000 : 500) / (g_loopPolicy ? 4 : 1);
    for (int h = 0; h < hist; ++h) {
      // every third history: six nodes and a longer run (removed nodes leave dead entries behind in the sorted flavours)
      const int NN = (h % 3 == 2 || (Sorted && h % 3 == 1)) ? 6 : 4;
      Driver<G, HasIn, Undirected> d(NN);
      d.sortedG = Sorted;
      g_selfloops = g_loopPolicy == 1;
      L->ev(64, ks("ev", "reset") + "," + ks("flavour", name) + "," + ks("mode", "seq") + "," + kv("threads", 1) + "," + kv("hasin", HasIn ? 1 : 0) +
                    "," + kv("undir", Undirected ? 1 : 0) + "," + kv("sortedg", Sorted ? 1 : 0) + "," + kv("selfloops", g_selfloops ? 1 : 0) + "," + kv("seed", h));
      // start with 2-3 nodes so that edge operations are applicable early
      int len = NN == 6 ? 20 + (int)rng.below(30) : 4 + (int)rng.below(thorough ? 14 : 10);
      int step = 0;
      for (int i = 0; i < (NN == 6 ? 5 : 2) + (int)rng.below(2); ++i) { MOp o{0, i, 0, 0}; VL r = d.apply(o); d.track(o); L->ev(0, opJson(0, o, r)); L->ev(0, d.dump()); }
      for (int i = 0; i < len; ++i) {
        MOp o = randomOp(rng, NN, ++step);
        if (NN == 6) {
          // removal-heavy shape: build a dense neighbourhood first, then remove two or three nodes, then look up /
          // insert / remove around the dead entries they leave behind
          int phase = i < 12 ? 0 : i < 15 ? 1 : 2;
          bool mp = ((o.a + 2 * o.b) % 3 == 0);
          if (phase == 0 && o.op != 0 && o.a != o.b) { o.op = mp ? 3 : 2; if (mp) o.d = 7; }
          if (phase == 1) { o.op = 1; o.a = 1 + (int)rng.below(NN - 1); }
          if (phase == 2 && o.op <= 1) { o.op = mp ? 5 : (rng.coin() ? 2 : 5); }
        }
        if (!d.applicable(o)) continue;
        VL r = d.apply(o);
        d.track(o);
        L->ev(0, opJson(0, o, r));
        L->ev(0, d.dump());
      }
      L->ev(64, ks("ev", "end"));
      L->flush();
    }
    return;
  }
  if (!Concurrent) return;
  // ---- (2) mutation programs inside for_each: one mutator per iteration
  bool ctl = g_mode == "ctl";
  unsigned maxT = std::min(galois::substrate::getThreadPool().getMaxThreads(), ctl ? 3u : (thorough ? 8u : 6u));
  int execs = (ctl ? (thorough ? 200 : 40) : (thorough ? 60 : 12)) / (g_loopPolicy ? 4 : 1);
  for (int e = 0; e < execs; ++e) {
    uint64_t s = rng.next();
    unsigned threads = 1 + (unsigned)(s % maxT);
    const int CN = ctl ? 4 : 6;
    Driver<G, HasIn, Undirected> d(CN + 64);
    d.sortedG = Sorted;
    g_selfloops = g_loopPolicy == 1;
    L->ev(64, ks("ev", "reset") + "," + ks("flavour", name) + "," + ks("mode", g_mode) + "," + kv("threads", threads) + "," + kv("hasin", HasIn ? 1 : 0) +
                  "," + kv("undir", Undirected ? 1 : 0) + "," + kv("sortedg", Sorted ? 1 : 0) + "," + kv("selfloops", g_selfloops ? 1 : 0) + "," + kv("seed", (long long)(s % 1000000007)));
    // serial prologue: the base nodes
    for (int i = 0; i < CN; ++i) { MOp o{0, i, 0, 0}; VL r = d.apply(o); d.track(o); L->ev(0, opJson(0, o, r)); }
    // the program: node removals only for dedicated victims at the end of the id range so that the
    // applicability of the other operations does not depend on the schedule
    int nops = ctl ? 8 + (int)rng.below(12) : 20 + (int)rng.below(thorough ? 200 : 60);
    std::vector<MOp> prog;
    vh::Rng pr(s);
    int fresh = CN;
    for (int i = 0; i < nops; ++i) {
      MOp o = randomOp(pr, CN - 1, i);
      if (o.op == 0) { if (fresh >= CN + 60) continue; o.a = fresh++; }       // createNode of a brand-new id
      if (o.op == 1) continue;                                                // (removal handled below)
      prog.push_back(o);
    }
    bool removeLast = pr.coin(1, 2);
    if (removeLast) prog.push_back(MOp{1, CN - 1, 0, 0});                       // one iteration removes node CN-1 (nobody else touches it)
    // a few edges towards the victim beforehand, so that removal has something to hide
    if (removeLast) { MOp o{3, 0, CN - 1, 7}; VL r = d.apply(o); L->ev(0, opJson(0, o, r)); }
    std::vector<int> idx(prog.size());
    for (size_t i = 0; i < idx.size(); ++i) idx[i] = (int)i;
    galois::setActiveThreads(threads);
#ifdef VERIF_FLAVOUR_C
    verif::Config cfg;
    cfg.mode = ctl ? verif::M_CTL : (g_mode == "jitter" ? verif::M_JITTER : verif::M_PASS);
    cfg.seed = s; cfg.switch_pct = 5 + (int)(s % 60); cfg.pct_depth = (s % 4 == 3) ? 1 + (int)((s >> 8) % 3) : 0;
    cfg.max_steps = 6000000; cfg.threads = threads;
    verif::configure(cfg);
#endif
    galois::for_each(
        galois::iterate(idx),
        [&](int i, auto&) {
          // the mutator acquires what it needs (default flags) before it writes: cautious by construction
          VL r = d.apply(prog[i]);
          // still owning everything it touched: this is the commit point of the iteration
          L->ev(galois::substrate::ThreadPool::getTID(), opJson(galois::substrate::ThreadPool::getTID(), prog[i], r));
        },
        galois::no_stats(), galois::no_pushes(), galois::loopname("morph"), galois::wl<galois::worklists::PerSocketChunkFIFO<2>>());
#ifdef VERIF_FLAVOUR_C
    verif::Config off;
    verif::configure(off);
#endif
    for (auto& o : prog) d.track(o);
    // some of the nodes the iterations created (spread over the threads' segments of the node bag) are removed again, then
    // the nodes are iterated in parallel
    for (int id = CN; id < fresh; ++id)
      if (d.state[id] == 1 && pr.coin(1, 2)) { MOp o{1, id, 0, 0}; VL r = d.apply(o); d.track(o); L->ev(0, opJson(0, o, r)); }
    L->ev(64, d.piter());
    L->ev(64, d.dump());
    L->ev(64, ks("ev", "end"));
    L->flush();
  }
}

int main(int argc, char** argv) {
  if (argc < 5) { fprintf(stderr, "usage: morph out seed tier mode\n"); return 2; }
  vh::EventLog log(argv[1]);
  L = &log;
  uint64_t seed = strtoull(argv[2], 0, 10);
  bool thorough = std::string(argv[3]) == "thorough";
  g_mode = argv[4];
  // self loops hit a known defect that corrupts memory on some flavours (D13): they are confined to separate
  // processes, one per flavour, so that nothing they break can leak into other executions
  if (argc > 5) g_loopPolicy = std::string(argv[5]) == "loops" ? 1 : 0;
  if (argc > 6) g_only = argv[6];
  galois::SharedMemSys G;
  signal(SIGSEGV, onCrash); signal(SIGABRT, onCrash); signal(SIGBUS, onCrash);
#ifdef VERIF_FLAVOUR_C
  verif::on_abort(onAbort);
#endif
  vh::Rng rng(seed);
  namespace gg = galois::graphs;
  if (g_mode == "replay") {
    // replay of a recorded commit log, serially, on the directed flavour: lines "op a b d" on stdin
    Driver<gg::MorphGraph<int, int, true>, false, false> d(128);
    char name[32]; int a, b, dd;
    while (scanf("%31s %d %d %d", name, &a, &b, &dd) == 4) {
      MOp o{0, a, b, dd};
      for (int k = 0; k < 10; ++k) if (std::string(OPN[k]) == name) o.op = k;
      VL r = d.apply(o); d.track(o);
      printf("%s %d %d %d -> %s\n", name, a, b, dd, vh::jarr(r).c_str());
    }
    printf("%s\n", d.dump().c_str());
    return 0;
  }
  flavour<gg::MorphGraph<int, int, true>, false, false, false, true>("directed", rng, thorough);
  flavour<gg::MorphGraph<int, int, true, true>, true, false, false, true>("inout", rng, thorough);
  flavour<gg::MorphGraph<int, int, false>, false, true, false, true>("undirected", rng, thorough);
  flavour<gg::MorphGraph<int, int, true, false, false, true>, false, false, true, true>("sorted", rng, thorough);
  flavour<gg::MorphGraph<int, int, false, false, false, true>, false, true, true, true>("sorted-undirected", rng, thorough);
  flavour<gg::MorphGraph<int, int, true, true, false, true>, true, false, true, true>("sorted-inout", rng, thorough);
  flavour<gg::MorphGraph<int, int, true, false, true>, false, false, false, false>("nolockable", rng, thorough);
  fprintf(stderr, "morph: %ld events\n", log.total);
  return 0;
}
