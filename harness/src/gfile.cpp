// C12 binding (library side): graph files written by FileGraphWriter / FileGraph::toFile are compared byte for
// byte with an independent writer of the documented layout (both format versions, void / 4 / 8 byte edge data,
// odd and even edge counts), and every reader -- FileGraph::fromFile / fromFileInterleaved, partFromFile at every
// node split, OCFileGraph segments, OfflineGraph, BufferedGraph (whole and partial) -- is dumped and judged by
// TLC against the input graph (TraceGFile.tla).
//   gfile <out.ndjson> <seed> <tier> <scratch-dir>
#include "vh/json.h"
#include "galois/Galois.h"
#include "galois/graphs/FileGraph.h"
#include "galois/graphs/OCGraph.h"
#include "galois/graphs/OfflineGraph.h"
#include "galois/graphs/BufferedGraph.h"
#include <algorithm>
#include <csignal>
#include <fcntl.h>
#include <fstream>
#include <sstream>
#include <unistd.h>

using vh::Rec;
typedef std::vector<long long> VL;
typedef std::vector<VL> VVL;
struct E { uint64_t dst; long long data; };
typedef std::vector<std::vector<E>> Adj;
struct Input { int id; Adj adj; size_t edges() const { size_t s = 0; for (auto& a : adj) s += a.size(); return s; } };

static vh::Out* out;
static std::string g_dir;
static char g_ctx[512];
static int g_crashfd = -1;
static void onCrash(int sig) {
  char buf[700];
  int len = snprintf(buf, sizeof buf, "{\"k\":\"crash\",\"sig\":%d,%s}\n", sig, g_ctx);
  if (write(g_crashfd, buf, len) < 0) {}
  _exit(3);
}
static void ctx(const Input& in, const char* reader, int version, size_t sz) {
  out->flush();
  alarm(180);   // watchdog per case (a case takes milliseconds): a reader that never returns is reported like a crash (signal 14)
  snprintf(g_ctx, sizeof g_ctx, "\"g\":%d,\"reader\":\"%s\",\"version\":%d,\"sz\":%zu,\"n\":%zu,\"m\":%zu", in.id, reader, version, sz, in.adj.size(), in.edges());
}

// ---- independent writer: header (version, sizeof edge data, nodes, edges : u64 LE), out index (u64 per node, end
// offsets), destinations (u32 in version 1, padded to 8 bytes; u64 in version 2), edge data
static std::string refBytes(const Adj& adj, size_t sz, int version) {
  std::string b;
  auto put = [&](const void* p, size_t n) { b.append((const char*)p, n); };
  uint64_t n = adj.size(), m = 0;
  for (auto& a : adj) m += a.size();
  uint64_t hdr[4] = {(uint64_t)version, sz, n, m};
  put(hdr, 32);
  uint64_t acc = 0;
  for (auto& a : adj) { acc += a.size(); put(&acc, 8); }
  for (auto& a : adj) for (auto& e : a) { if (version == 1) { uint32_t d = (uint32_t)e.dst; put(&d, 4); } else { uint64_t d = e.dst; put(&d, 8); } }
  if (version == 1 && m % 2) { uint32_t z = 0; put(&z, 4); }
  for (auto& a : adj) for (auto& e : a) {
    if (sz == 4) { uint32_t v = (uint32_t)e.data; put(&v, 4); }
    else if (sz == 8) { uint64_t v = (uint64_t)e.data; put(&v, 8); }
  }
  return b;
}
static void writeFile(const std::string& path, const std::string& bytes) { std::ofstream f(path, std::ios::binary); f.write(bytes.data(), bytes.size()); }
static std::string readFile(const std::string& path) { std::ifstream f(path, std::ios::binary); std::stringstream ss; ss << f.rdbuf(); return ss.str(); }
static long long firstDiff(const std::string& a, const std::string& b) {
  size_t n = std::min(a.size(), b.size());
  for (size_t i = 0; i < n; ++i) if (a[i] != b[i]) return (long long)i;
  return a.size() == b.size() ? -1 : (long long)n;
}

static bool small(const Input& in) { return in.adj.size() <= 16 && in.edges() <= 60; }
static std::string adjJson(const Adj& a) {
  std::string s = "[";
  for (size_t n = 0; n < a.size(); ++n) {
    if (n) s += ",";
    s += "[";
    for (size_t i = 0; i < a[n].size(); ++i) { if (i) s += ","; s += "[" + std::to_string(a[n][i].dst) + "," + std::to_string(a[n][i].data) + "]"; }
    s += "]";
  }
  return s + "]";
}
static bool sameAdj(const Adj& a, const Adj& b) {
  if (a.size() != b.size()) return false;
  for (size_t n = 0; n < a.size(); ++n) {
    if (a[n].size() != b[n].size()) return false;
    for (size_t i = 0; i < a[n].size(); ++i) if (a[n][i].dst != b[n][i].dst || a[n][i].data != b[n][i].data) return false;
  }
  return true;
}
// a reader presented the nodes [b, e) of the graph
static void emitRead(const Input& in, const char* reader, int version, size_t sz, size_t b, size_t e, const Adj& v, unsigned threads = 1) {
  Rec r; r.str("k", "read").i("g", in.id).str("reader", reader).i("version", version).i("sz", sz).i("b", b).i("e", e).i("threads", threads);
  if (small(in)) r.i("big", 0).raw("adj", adjJson(v));
  else { Adj want(in.adj.begin() + b, in.adj.begin() + e); r.i("big", 1).i("ok", sameAdj(want, v) ? 1 : 0); }
  out->line(r);
}

template <typename T> static long long edFG(galois::graphs::FileGraph& g, galois::graphs::FileGraph::edge_iterator it, size_t sz) {
  if (sz == 0) return 0;
  return (long long)g.getEdgeData<T>(it);
}
template <typename T> static Adj dumpFG(galois::graphs::FileGraph& g, size_t sz, size_t b, size_t e) {
  Adj a;
  for (size_t n = b; n < e; ++n) {
    a.emplace_back();
    for (auto it = g.edge_begin(n); it != g.edge_end(n); ++it) a.back().push_back({(uint64_t)g.getEdgeDst(it), edFG<T>(g, it, sz)});
  }
  return a;
}

template <typename T, typename WT> static void perType(const Input& in0, size_t sz, const char* et, vh::Rng& rng, unsigned threads) {
  using namespace galois::graphs;
  Input in = in0;
  if (sz == 0) for (auto& a : in.adj) for (auto& e : a) e.data = 0;
  size_t n = in.adj.size(), m = in.edges();
  out->line(Rec().str("k", "graph").i("g", in.id).str("et", et).i("n", n).i("m", m).i("big", small(in) ? 0 : 1).raw("adj", small(in) ? adjJson(in.adj) : std::string("[]")));
  galois::setActiveThreads(threads);
  for (int version = 1; version <= 2; ++version) {
    std::string ref = refBytes(in.adj, sz, version);
    std::string path = g_dir + "/ref_" + et + "_v" + std::to_string(version) + ".gr";
    writeFile(path, ref);
    out->line(Rec().str("k", "layout").i("g", in.id).i("version", version).i("sz", sz).i("n", n).i("m", m).i("size", ref.size()));
    // ---- writers
    if (version == 1) {
      ctx(in, "FileGraphWriter", version, sz);
      FileGraphWriter w;
      w.setNumNodes(n); w.setNumEdges<WT>(m);
      w.phase1();
      for (size_t s = 0; s < n; ++s) w.incrementDegree(s, in.adj[s].size());
      w.phase2();
      // neighbours are added in a scrambled order of sources (the writer must place them by source)
      std::vector<size_t> order(n); for (size_t i = 0; i < n; ++i) order[i] = i;
      for (size_t i = n; i > 1; --i) std::swap(order[i - 1], order[rng.below(i)]);
      for (size_t s : order) for (auto& e : in.adj[s]) {
        if constexpr (std::is_void<WT>::value) w.addNeighbor(s, e.dst); else w.template addNeighbor<WT>(s, e.dst, (WT)e.data);
      }
      w.finish();
      std::string wp = g_dir + "/w_" + et + ".gr";
      w.toFile(wp);
      std::string got = readFile(wp);
      out->line(Rec().str("k", "write").i("g", in.id).str("via", "FileGraphWriter").i("version", version).i("sz", sz).i("size", got.size()).i("refsize", ref.size()).i("diff", firstDiff(got, ref)));
    }
    // ---- FileGraph readers (+ toFile of what was read)
    {
      ctx(in, "fromFile", version, sz);
      FileGraph g; g.fromFile(path);
      emitRead(in, "fromFile", version, sz, 0, n, dumpFG<T>(g, sz, 0, n));
      out->line(Rec().str("k", "header").i("g", in.id).str("reader", "fromFile").i("version", version).i("n", g.size()).i("m", g.sizeEdges()).i("sz", g.edgeSize()));
      std::string tp = g_dir + "/t_" + et + ".gr";
      ctx(in, "toFile", version, sz);
      g.toFile(tp);
      std::string got = readFile(tp);
      out->line(Rec().str("k", "write").i("g", in.id).str("via", "fromFile+toFile").i("version", version).i("sz", sz).i("size", got.size()).i("refsize", ref.size()).i("diff", firstDiff(got, ref)));
    }
    {
      ctx(in, "fromFileInterleaved", version, sz);
      FileGraph g; g.fromFileInterleaved<WT>(path);
      emitRead(in, "fromFileInterleaved", version, sz, 0, n, dumpFG<T>(g, sz, 0, n), threads);
    }
    // ---- partFromFile at every split (small graphs) / a few random splits (large graphs)
    {
      FileGraph whole; whole.fromFile(path);
      std::vector<std::pair<size_t, size_t>> splits;
      if (small(in)) { for (size_t b = 0; b <= n; ++b) for (size_t e = b; e <= n; ++e) if (e > b || b == 0) splits.push_back({b, e}); }
      else for (int k = 0; k < 12; ++k) { size_t b = rng.below(n + 1), e = b + rng.below(n - b + 1); splits.push_back({b, e}); }
      for (auto [b, e] : splits) {
        if (b == e) continue; // an empty share is never loaded (see the distributed graph readers)
        ctx(in, "partFromFile", version, sz);
        FileGraph part;
        uint64_t eb = b == 0 ? 0 : *whole.edge_end(b - 1), ee = e == 0 ? 0 : *whole.edge_end(e - 1);
        part.partFromFile(path, std::make_pair(FileGraph::iterator(b), FileGraph::iterator(e)),
                          std::make_pair(FileGraph::edge_iterator(eb), FileGraph::edge_iterator(ee)), rng.coin());
        emitRead(in, "partFromFile", version, sz, b, e, dumpFG<T>(part, sz, b, e));
      }
    }
    // ---- OfflineGraph: sequential scan, every other edge first (no re-seek between reads two apart), random order
    for (int order = 0; order < 3; ++order) {
      static const char* names[] = {"OfflineGraph", "OfflineGraph:stride2", "OfflineGraph:random"};
      ctx(in, names[order], version, sz);
      OfflineGraph og(path);
      std::vector<uint64_t> idx(m);
      for (size_t i = 0; i < m; ++i) idx[i] = i;
      if (order == 1) { std::vector<uint64_t> t; for (size_t i = 0; i < m; i += 2) t.push_back(i); for (size_t i = 1; i < m; i += 2) t.push_back(i); idx = t; }
      if (order == 2) for (size_t i = m; i > 1; --i) std::swap(idx[i - 1], idx[rng.below(i)]);
      std::vector<E> flat(m);
      // destinations first (in the chosen order), then the data (same order): the two streams are positioned independently
      for (auto e : idx) flat[e].dst = (uint64_t)og.getEdgeDst(OfflineGraph::edge_iterator(e));
      for (auto e : idx) { long long d = 0; if constexpr (!std::is_void<WT>::value) d = (long long)og.getEdgeData<WT>(OfflineGraph::edge_iterator(e)); flat[e].data = d; }
      Adj a;
      for (size_t s = 0; s < og.size(); ++s) {
        a.emplace_back();
        for (auto it = og.edge_begin(s); it != og.edge_end(s); ++it) a.back().push_back(flat[*it]);
      }
      emitRead(in, names[order], version, sz, 0, n, a);
      if (order == 0) out->line(Rec().str("k", "header").i("g", in.id).str("reader", "OfflineGraph").i("version", version).i("n", og.size()).i("m", og.sizeEdges()).i("sz", og.edgeSize()));
    }
    // ---- BufferedGraph: whole and partial
    {
      ctx(in, "BufferedGraph", version, sz);
      {
        BufferedGraph<WT> bg; bg.loadGraph(path);
        Adj a;
        for (size_t s = 0; s < n; ++s) {
          a.emplace_back();
          for (auto it = bg.edgeBegin(s); it != bg.edgeEnd(s); ++it) {
            long long d = 0;
            if constexpr (!std::is_void<WT>::value) d = (long long)bg.edgeData(*it);
            a.back().push_back({(uint64_t)bg.edgeDestination(*it), d});
          }
        }
        emitRead(in, "BufferedGraph", version, sz, 0, n, a);
      }
      FileGraph whole; whole.fromFile(path);
      std::vector<std::pair<size_t, size_t>> splits;
      if (small(in)) { for (size_t b = 0; b < n; ++b) for (size_t e = b + 1; e <= n; ++e) splits.push_back({b, e}); }
      else for (int k = 0; k < 8; ++k) { size_t b = rng.below(n), e = b + 1 + rng.below(n - b); splits.push_back({b, e}); }
      for (auto [b, e] : splits) {
        ctx(in, "BufferedGraph:partial", version, sz);
        uint64_t eb = b == 0 ? 0 : *whole.edge_end(b - 1), ee = *whole.edge_end(e - 1);
        BufferedGraph<WT> bg;
        bg.loadPartialGraph(path, b, e, eb, ee, n, m);
        Adj a;
        for (size_t s = b; s < e; ++s) {
          a.emplace_back();
          for (auto it = bg.edgeBegin(s); it != bg.edgeEnd(s); ++it) {
            long long d = 0;
            if constexpr (!std::is_void<WT>::value) d = (long long)bg.edgeData(*it);
            a.back().push_back({(uint64_t)bg.edgeDestination(*it), d});
          }
        }
        emitRead(in, "BufferedGraph:partial", version, sz, b, e, a);
      }
    }
    // ---- OCFileGraph (version 1 only by construction): one segment per node range
    if (version == 1 && n > 0) {
      ctx(in, "OCFileGraph", version, sz);
      OCFileGraph oc; oc.fromFile(path);
      std::vector<std::pair<size_t, size_t>> splits = {{0, n}};
      if (small(in)) { for (size_t b = 0; b < n; ++b) for (size_t e = b + 1; e <= n; ++e) splits.push_back({b, e}); }
      else for (int k = 0; k < 8; ++k) { size_t b = rng.below(n), e = b + 1 + rng.below(n - b); splits.push_back({b, e}); }
      for (auto [b, e] : splits) {
        OCFileGraph::segment_type seg;
        oc.load(seg, oc.edge_begin(b), oc.edge_end(e - 1), sz);
        Adj a;
        for (size_t s = b; s < e; ++s) {
          a.emplace_back();
          for (auto it = oc.edge_begin(s); it != oc.edge_end(s); ++it) {
            long long d = 0;
            if constexpr (!std::is_void<WT>::value) d = (long long)oc.getEdgeData<WT>(seg, it);
            a.back().push_back({(uint64_t)oc.getEdgeDst(seg, it), d});
          }
        }
        oc.unload(seg);
        emitRead(in, "OCFileGraph", version, sz, b, e, a);
      }
    }
  }
}

static Input gen(int id, vh::Rng& r, bool large) {
  Input in; in.id = id;
  size_t n = large ? 1500 + r.below(2500) : r.below(11);
  in.adj.resize(n);
  if (n == 0) return in;
  int shape = (int)r.below(6);
  size_t m = large ? n * (1 + r.below(5)) : r.below(3 * n + 1);
  if (shape == 0) m = 0;
  for (size_t k = 0; k < m; ++k) {
    size_t s = r.below(n), d = r.below(n);
    if (shape == 1) s = r.below(1 + n / 8);
    if (shape == 2) d = r.below(1 + n / 8);
    if (shape == 3 && r.coin()) d = s;
    if (shape == 4 && !in.adj[s].empty() && r.coin()) d = in.adj[s].back().dst;
    if (shape == 5 && s == n - 1) s = 0;
    in.adj[s].push_back({(uint64_t)d, (long long)(1 + r.below(9))});
  }
  if (r.coin() && in.edges() % 2 == 0) in.adj[r.below(n)].push_back({(uint64_t)r.below(n), 5});   // make the edge count odd half of the time
  return in;
}

int main(int argc, char** argv) {
  if (argc < 5) { fprintf(stderr, "usage: gfile out seed tier scratch-dir\n"); return 2; }
  vh::Out o(argv[1]);
  out = &o;
  vh::Rng rng(strtoull(argv[2], 0, 10));
  bool thorough = std::string(argv[3]) == "thorough";
  g_dir = argv[4];
  galois::SharedMemSys G;
  g_crashfd = open((std::string(argv[1]) + ".crash").c_str(), O_WRONLY | O_CREAT | O_TRUNC, 0644);
  signal(SIGSEGV, onCrash); signal(SIGABRT, onCrash); signal(SIGBUS, onCrash); signal(SIGFPE, onCrash); signal(SIGALRM, onCrash);
  unsigned maxT = std::min(4u, galois::substrate::getThreadPool().getMaxThreads());
  int nsmall = thorough ? 120 : 30, nlarge = thorough ? 6 : 2;
  for (int k = 0; k < nsmall + nlarge; ++k) {
    Input in = gen(k, rng, k >= nsmall);
    unsigned threads = 1 + (unsigned)rng.below(maxT);
    switch (k % 3) {
    case 0: perType<uint32_t, uint32_t>(in, 4, "u32", rng, threads); break;
    case 1: perType<char, void>(in, 0, "void", rng, threads); break;
    case 2: perType<uint64_t, uint64_t>(in, 8, "u64", rng, threads); break;
    }
  }
  alarm(0);
  fprintf(stderr, "gfile: %lld records\n", o.n);
  return 0;
}
