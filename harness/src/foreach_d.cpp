// C07 binding: the deterministic executor (galois::worklists::Deterministic<>) inside for_each.
// Every generated program is run several times (thread counts 1..8, controlled / jitter / free
// schedules); each run is logged like any for_each (conservation + isolation via ForEachAbs) and
// ends with a "detres" record carrying the per-object commit sequences, which must be identical
// for all runs of the same program (TraceDeterm.tla).
//   foreach_d <out.ndjson> <seed> <tier> <mode>
#include "vh/foreach_harness.h"
namespace W = galois::worklists;

struct IdFn {
  uintptr_t operator()(int item) const { return (uintptr_t)(item * 7 + 3); }   // distinct ids
};

// variant 2: the operator keeps a local state between the inspect pass and the commit pass (local_state<> trait); the state
// and a buffer it owns live in the per-iteration allocator, next to what the commit pass allocates there
struct DetLocal {
  int item, n;
  char* buf;
  DetLocal(int i, galois::PerIterAllocTy& a, int n_) : item(i), n(n_), buf((char*)a.allocate(n_)) { memset(buf, 0x20 + (i & 63), n); }
  bool intact(int i) const {
    if (item != i) return false;
    for (int k = 0; k < n; ++k) if (buf[k] != (char)(0x20 + (i & 63))) return false;
    return true;
  }
};

// variant 3: user-supplied ids that are unique but sparse and unordered (spread over 2^28): the executor's windows are
// ranges of ids, so every generation takes many windows and many passes through the outer round structure
struct SparseIdFn {
  uintptr_t operator()(int item) const { return (uintptr_t)((((uint32_t)item * 2654435761u) & 0xFFFFFFu) * 16u + 5u); }
};

template <int VARIANT>
static void runVariant(fe::Program& prog, const fe::RunCfg& rc) {
  // the harness' runOne uses wl<WL>() only; the traits variants need their own call
  fe::P = &prog;
  fe::g_threads = rc.threads;
  fe::g_conflicts = true;
  std::vector<fe::Obj> obv(prog.nobj ? prog.nobj : 1);
  fe::objs = obv.data();
  for (size_t i = 0; i < prog.items.size() && i < (1 << 16); ++i) fe::attempts[i] = 0;
  galois::setActiveThreads(rc.threads);
  const char* topo = getenv("GALOIS_VERIF_TOPO");
  fe::L->ev(64, fe::ks("ev", "reset") + "," + fe::ks("wl", rc.wlname) + "," + fe::ks("mode", rc.mode) + "," + fe::kv("threads", rc.threads) + "," +
                    fe::kv("cd", 1) + "," + fe::kv("seed", (long long)(rc.seed % 1000000007)) + "," + fe::ks("kind", "plain") + "," + fe::kv("desc", 0) + "," +
                    fe::ks("topo", topo ? topo : "host") + "," + fe::kv("nitems", (long long)prog.items.size()) + "," + fe::kv("nobj", prog.nobj) +
                    ",\"init\":" + vh::jarr(prog.initial) + ",\"initlv\":" + vh::jarr(fe::initLevels(prog)) + ",\"prog\":" + fe::progJson(prog));
#ifdef VERIF_FLAVOUR_C
  verif::Config cfg;
  cfg.mode = rc.mode == "ctl" ? verif::M_CTL : (rc.mode == "jitter" ? verif::M_JITTER : verif::M_PASS);
  cfg.seed = rc.seed; cfg.switch_pct = 5 + (int)(rc.seed % 60);
  cfg.pct_depth = (rc.seed % 4 == 3) ? 1 + (int)((rc.seed >> 8) % 4) : 0;
  cfg.max_steps = 8000000; cfg.threads = rc.threads;
  verif::configure(cfg);
#endif
  auto op = [](int item, auto& ctx) { fe::theOperator(item, ctx); };
  typedef W::Deterministic<> DWL;
  if (VARIANT == 0)
    galois::for_each(galois::iterate(prog.initial), op, galois::wl<DWL>(), galois::per_iter_alloc(), galois::no_stats(), galois::loopname("det"));
  else if (VARIANT == 1)
    galois::for_each(galois::iterate(prog.initial), op, galois::wl<DWL>(), galois::per_iter_alloc(), galois::no_stats(), galois::loopname("det"),
                     galois::det_id<IdFn>());
  else if (VARIANT == 3)
    galois::for_each(galois::iterate(prog.initial), op, galois::wl<DWL>(), galois::per_iter_alloc(), galois::no_stats(), galois::loopname("det"),
                     galois::det_id<SparseIdFn>());
  else {
    auto op2 = [](int item, auto& ctx) {
      unsigned tid = galois::substrate::ThreadPool::getTID();
      if (ctx.isFirstPass()) {
        ctx.template createLocalState<DetLocal>(item, ctx.getPerIterAlloc(), 16 + 8 * (item % 7));
        fe::theOperator(item, ctx);      // inspect pass: ends at the cautious point
      } else {
        DetLocal* ls = ctx.template getLocalState<DetLocal>();
        bool before = ls && ls->intact(item);
        fe::theOperator(item, ctx);      // commit pass (allocates from the per-iteration allocator as well)
        if (!before || !ls->intact(item)) fe::logp(tid, fe::ks("ev", "allocbad") + "," + fe::kv("t", tid) + "," + fe::kv("i", item));
      }
    };
    galois::for_each(galois::iterate(prog.initial), op2, galois::wl<DWL>(), galois::per_iter_alloc(), galois::local_state<DetLocal>(), galois::no_stats(),
                     galois::loopname("det"));
  }
#ifdef VERIF_FLAVOUR_C
  verif::Config off;
  verif::configure(off);
#endif
  fe::L->ev(64, fe::ks("ev", "return"));
  std::string logs = "[";
  for (int o = 0; o < prog.nobj; ++o) {
    std::vector<long> lg;
    for (int k = 0; k < fe::objs[o].nlog && k < 512; ++k) lg.push_back(fe::objs[o].logv[k]);
    fe::L->ev(64, fe::ks("ev", "final") + "," + fe::kv("o", o) + "," + fe::kv("owned", fe::ObjProbe::owned(&fe::objs[o]) ? 1 : 0) + "," +
                      fe::kv("n", fe::objs[o].nlog) + ",\"log\":" + vh::jarr(lg));
    logs += (o ? "," : "") + vh::jarr(lg);
  }
  logs += "]";
  fe::L->ev(64, fe::ks("ev", "end"));
  fe::L->flush();
  fprintf(stderr, "%s", "");
  // determinism record (separate file stream: same file, distinct event name; TraceForEach ignores it after "end")
  fe::L->ev(64, fe::ks("ev", "detres") + "," + fe::kv("prog", (long long)(rc.descending)) + "," + fe::kv("variant", VARIANT) + "," +
                    fe::kv("threads", rc.threads) + "," + fe::ks("mode", rc.mode) + ",\"logs\":" + logs);
  fe::L->flush();
}

int main(int argc, char** argv) {
  fe::Args a = fe::parse(argc, argv);
  vh::EventLog log(a.out.c_str());
  fe::L = &log;
  galois::SharedMemSys G;
  fe::installCrashHandler();
  vh::Rng rng(a.seed);
#ifdef VERIF_FLAVOUR_C
  verif::on_abort(fe::onAbort);
#endif
  bool ctl = a.mode == "ctl";
  unsigned maxT = std::min(galois::substrate::getThreadPool().getMaxThreads(), ctl ? 4u : (a.thorough ? 16u : 8u));
  int progs = ctl ? (a.thorough ? 60 : 10) : (a.thorough ? 12 : 6);   // (four variants, large programs of 2600-3800 items: the free-running logs are what limits the thorough tier)
  int runs = ctl ? 5 : 4;
  for (int p = 0; p < progs; ++p) {
    uint64_t ps = rng.next();
    const char* onlyv = getenv("VERIF_FD_VARIANT");      // a check may ask for one variant only
    for (int variant = 0; variant < 4; ++variant) {
      if (onlyv && atoi(onlyv) != variant) continue;
      fe::Program prog;
      vh::Rng pr(ps);
      // below the minimum window (MinDelta = 1280) and between two windows and one window per thread (2560 .. 1280 * threads), where the block-interleaved numbering of the work depends on window and thread count
      int nInit = ctl ? 2 + (int)pr.below(5) : (p % 3 == 2 ? 2600 + (int)pr.below(1200) : 3 + (int)pr.below(80));
      fe::genProgram(prog, pr, nInit, nInit > 500 ? 60 + (int)pr.below(60) : 1 + (int)pr.below(ctl ? 3 : 5), nInit > 500 ? 1 : 2, 2, false, false, 0);
      for (int r = 0; r < runs; ++r) {
        fe::RunCfg rc;
        rc.wlname = variant == 3 ? "Deterministic<det_id:sparse>" : variant == 2 ? "Deterministic<local_state>" : variant ? "Deterministic<det_id>" : "Deterministic";
        rc.mode = a.mode; rc.seed = rng.next(); rc.kind = "plain";
        rc.threads = 1 + (r == 0 ? 0 : (int)(rc.seed % maxT));
        rc.conflicts = true;
        rc.descending = p * 4 + variant; // program number (reused field)
        if (variant == 0) runVariant<0>(prog, rc); else if (variant == 1) runVariant<1>(prog, rc); else if (variant == 2) runVariant<2>(prog, rc); else runVariant<3>(prog, rc);
      }
    }
  }
  fprintf(stderr, "foreach_d: %ld events\n", log.total);
  return 0;
}
