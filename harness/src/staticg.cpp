// C11 binding: every static (local-computation) graph layout is built from graph files written by an
// independent writer (this file, from the documented .gr layout) and from user arrays, with 1..8 threads,
// and everything it presents (out-edges, in-edges, transpose, sorted edges, lookups, degrees, local ranges)
// is logged.  Small graphs are logged completely and judged by TLC (StaticAbs.tla / TraceStatic.tla); for the
// few large graphs the harness applies the same rules itself and logs the verdict.
//   staticg <out.ndjson> <seed> <tier> <scratch-dir>
#include "vh/json.h"
#include "galois/Galois.h"
#include "galois/graphs/Graph.h"
#include "galois/graphs/LC_CSR_CSC_Graph.h"
#include "galois/graphs/LC_InOut_Graph.h"
#include "galois/graphs/LC_Linear_Graph.h"
#include "galois/graphs/LC_InlineEdge_Graph.h"
#include "galois/graphs/LC_Morph_Graph.h"
#include <algorithm>
#include <csignal>
#include <fcntl.h>
#include <fstream>
#include <map>
#include <unistd.h>

using vh::Rec;
typedef std::vector<long long> VL;
typedef std::vector<VL> VVL;
struct E { uint32_t dst; long long data; };
typedef std::vector<std::vector<E>> Adj;
struct Input { int id; Adj adj; size_t edges() const { size_t s = 0; for (auto& a : adj) s += a.size(); return s; } };

static vh::Out* out;
static std::string g_dir;
static char g_ctx[512];
static int g_crashfd = -1;
static void onCrash(int sig) {
  char buf[700];
  int len = snprintf(buf, sizeof buf, "{\"k\":\"crash\",\"sig\":%d,%s}\n", sig, g_ctx);
  if (write(g_crashfd, buf, len) < 0) {}
  _exit(3);
}
static void ctx(const Input& in, const char* layout, const char* what, unsigned threads) {
  out->flush();
  snprintf(g_ctx, sizeof g_ctx, "\"g\":%d,\"layout\":\"%s\",\"what\":\"%s\",\"threads\":%u,\"n\":%zu,\"m\":%zu", in.id, layout, what, threads, in.adj.size(), in.edges());
}

// ---- independent .gr writer (version 1: 32-bit destinations) -----------------------------------
static void writeGR(const std::string& path, const Adj& adj, size_t sizeofEdge) {
  std::ofstream f(path, std::ios::binary);
  uint64_t n = adj.size(), m = 0;
  for (auto& a : adj) m += a.size();
  uint64_t hdr[4] = {1, sizeofEdge, n, m};
  f.write((char*)hdr, 32);
  uint64_t acc = 0;
  for (auto& a : adj) { acc += a.size(); f.write((char*)&acc, 8); }
  for (auto& a : adj) for (auto& e : a) { uint32_t d = e.dst; f.write((char*)&d, 4); }
  if (m % 2) { uint32_t z = 0; f.write((char*)&z, 4); }
  for (auto& a : adj) for (auto& e : a) {
    if (sizeofEdge == 4) { uint32_t v = (uint32_t)e.data; f.write((char*)&v, 4); }
    else if (sizeofEdge == 8) { uint64_t v = (uint64_t)e.data; f.write((char*)&v, 8); }
  }
}
static Adj transposeOf(const Adj& adj) {
  Adj t(adj.size());
  for (size_t s = 0; s < adj.size(); ++s) for (auto& e : adj[s]) t[e.dst].push_back({(uint32_t)s, e.data});
  return t;
}

// ---- the rules, C++ side (large graphs only; small graphs are judged by TLC) -------------------
static bool sameSeq(const std::vector<E>& a, const std::vector<E>& b) {
  if (a.size() != b.size()) return false;
  for (size_t i = 0; i < a.size(); ++i) if (a[i].dst != b[i].dst || a[i].data != b[i].data) return false;
  return true;
}
static bool sameBag(std::vector<E> a, std::vector<E> b) {
  auto lt = [](const E& x, const E& y) { return x.dst != y.dst ? x.dst < y.dst : x.data < y.data; };
  std::sort(a.begin(), a.end(), lt); std::sort(b.begin(), b.end(), lt);
  return sameSeq(a, b);
}
static bool judgeView(const std::string& what, const Adj& G, const Adj& v, bool ordered) {
  if (v.size() != G.size()) return false;
  Adj T;
  if (what == "in" || what == "transposed") T = transposeOf(G);
  for (size_t n = 0; n < G.size(); ++n) {
    if (what == "out") { if (ordered ? !sameSeq(G[n], v[n]) : !sameBag(G[n], v[n])) return false; }
    else if (what == "in" || what == "transposed") { if (!sameBag(T[n], v[n])) return false; }
    else if (what == "sortedDst") { if (!sameBag(G[n], v[n])) return false; for (size_t i = 1; i < v[n].size(); ++i) if (v[n][i - 1].dst > v[n][i].dst) return false; }
    else if (what == "sortedData") { if (!sameBag(G[n], v[n])) return false; for (size_t i = 1; i < v[n].size(); ++i) if (v[n][i - 1].data > v[n][i].data) return false; }
    else return false;
  }
  return true;
}

static bool small(const Input& in) { return in.adj.size() <= 16 && in.edges() <= 60; }
static std::string adjJson(const Adj& a) {
  std::string s = "[";
  for (size_t n = 0; n < a.size(); ++n) {
    if (n) s += ",";
    s += "[";
    for (size_t i = 0; i < a[n].size(); ++i) { if (i) s += ","; s += "[" + std::to_string(a[n][i].dst) + "," + std::to_string(a[n][i].data) + "]"; }
    s += "]";
  }
  return s + "]";
}
static Rec base(const Input& in, const char* k, const std::string& layout, unsigned threads) {
  Rec r; r.str("k", k).i("g", in.id).str("layout", layout).i("threads", threads);
  return r;
}
static void emitView(const Input& in, const std::string& layout, unsigned threads, const std::string& what, const Adj& v, bool ordered) {
  Rec r = base(in, "view", layout, threads); r.str("what", what).i("ordered", ordered ? 1 : 0);
  if (small(in)) r.i("big", 0).raw("adj", adjJson(v)); else r.i("big", 1).i("ok", judgeView(what, in.adj, v, ordered) ? 1 : 0);
  out->line(r);
}

// ---- generic accessors ----------------------------------------------------------------------
template <typename G> static constexpr bool hasData() { return !std::is_void<typename G::edge_data_type>::value; }
template <typename G, typename EI> static long long edata(G& g, EI e) {
  if constexpr (hasData<G>()) return (long long)g.getEdgeData(e, galois::MethodFlag::UNPROTECTED); else return 0;
}
template <typename G> static void number(G& g) { int i = 0; for (auto n : g) g.getData(n, galois::MethodFlag::UNPROTECTED) = i++; }
template <typename G> static Adj dumpOut(G& g) {
  Adj a;
  for (auto n : g) {
    a.emplace_back();
    for (auto e : g.edges(n, galois::MethodFlag::UNPROTECTED)) a.back().push_back({(uint32_t)g.getData(g.getEdgeDst(e), galois::MethodFlag::UNPROTECTED), edata(g, e)});
  }
  return a;
}
template <typename G> static void emitRanges(const Input& in, G& g, const std::string& layout, unsigned threads) {
  std::map<typename G::GraphNode, int> idx;  // position in the global iteration order
  number(g);
  std::vector<VL> perThread(threads);
  galois::on_each([&](unsigned tid, unsigned) {
    for (auto it = g.local_begin(), e = g.local_end(); it != e; ++it) perThread[tid].push_back(g.getData(*it, galois::MethodFlag::UNPROTECTED));
  });
  // each thread's local nodes as a list of ids (small) or the verdict "consecutive blocks that partition 0..n-1" (big)
  Rec r = base(in, "ranges", layout, threads);
  if (small(in)) { r.i("big", 0).i("n", in.adj.size()).raw("loc", vh::jarr2(perThread)); }
  else {
    std::vector<int> seen(in.adj.size(), 0); bool ok = true;
    for (auto& l : perThread) for (auto v : l) { if (v < 0 || v >= (long long)seen.size() || seen[v]++) ok = false; }
    for (auto s : seen) if (s != 1) ok = false;
    r.i("big", 1).i("ok", ok ? 1 : 0);
  }
  out->line(r);
}
template <typename G> static void emitDegrees(const Input& in, G& g, const std::string& layout, unsigned threads) {
  VL d;
  for (auto n : g) d.push_back((long long)std::distance(g.edge_begin(n, galois::MethodFlag::UNPROTECTED), g.edge_end(n, galois::MethodFlag::UNPROTECTED)));
  Rec r = base(in, "degree", layout, threads);
  if (small(in)) r.i("big", 0).arr("deg", d);
  else { bool ok = d.size() == in.adj.size(); for (size_t i = 0; ok && i < d.size(); ++i) ok = d[i] == (long long)in.adj[i].size(); r.i("big", 1).i("ok", ok ? 1 : 0); }
  out->line(r);
}
// lookups: all pairs for small graphs, sampled pairs (incl. every node's first/last edge and absent pairs) for big ones
template <typename G, typename F> static void emitFinds(const Input& in, G& g, const std::string& layout, unsigned threads, int sorted, vh::Rng& rng, F find) {
  size_t n = in.adj.size();
  std::vector<typename G::GraphNode> nodes(g.begin(), g.end());
  auto present = [&](size_t s, size_t d, long long* dataOut, bool* dataOk) {
    auto e = find(nodes[s], nodes[d]);
    bool f = e != g.edge_end(nodes[s], galois::MethodFlag::UNPROTECTED);
    if (f) { *dataOut = edata(g, e); *dataOk = (size_t)g.getData(g.getEdgeDst(e), galois::MethodFlag::UNPROTECTED) == d; }
    return f;
  };
  if (small(in)) {
    VVL ans;
    for (size_t s = 0; s < n; ++s) for (size_t d = 0; d < n; ++d) { long long dt = 0; bool dok = true; bool f = present(s, d, &dt, &dok); ans.push_back({(long long)s, (long long)d, f ? 1 : 0, dt, dok ? 1 : 0}); }
    out->line(base(in, "find", layout, threads).i("sorted", sorted).i("big", 0).raw("ans", vh::jarr2(ans)));
  } else {
    bool ok = true; long long bad = -1;
    for (int k = 0; k < 4000 && ok; ++k) {
      size_t s = rng.below(n), d;
      if (k % 2 && !in.adj[s].empty()) d = in.adj[s][rng.below(in.adj[s].size())].dst; else d = rng.below(n);
      bool exp = false; for (auto& e : in.adj[s]) if (e.dst == d) exp = true;
      long long dt = 0; bool dok = true; bool f = present(s, d, &dt, &dok);
      bool dataOk = !f; if (f) for (auto& e : in.adj[s]) if (e.dst == d && (e.data == dt || !hasData<G>())) dataOk = true;
      if (f != exp || !dok || !dataOk) { ok = false; bad = (long long)s; }
    }
    out->line(base(in, "find", layout, threads).i("sorted", sorted).i("big", 1).i("ok", ok ? 1 : 0).i("badsrc", bad));
  }
}

// ---- per-layout drivers ---------------------------------------------------------------------
template <typename G> static void csrFamily(const Input& in, const std::string& layout, unsigned threads, const std::string& file, vh::Rng& rng) {
  galois::setActiveThreads(threads);
  {
    ctx(in, layout.c_str(), "read", threads);
    G g; galois::graphs::readGraph(g, file); number(g);
    emitView(in, layout, threads, "out", dumpOut(g), true);
    emitDegrees(in, g, layout, threads);
    emitRanges(in, g, layout, threads);
    ctx(in, layout.c_str(), "findEdge", threads);
    emitFinds(in, g, layout, threads, 0, rng, [&](auto s, auto d) { return g.findEdge(s, d); });
    ctx(in, layout.c_str(), "sortAllEdgesByDst", threads);
    g.sortAllEdgesByDst(galois::MethodFlag::UNPROTECTED);
    emitView(in, layout, threads, "sortedDst", dumpOut(g), false);
    if (in.edges() > 0) { // findEdgeSortedByDst dereferences edge_end of the last node on an empty edge array
      ctx(in, layout.c_str(), "findEdgeSortedByDst", threads);
      emitFinds(in, g, layout, threads, 1, rng, [&](auto s, auto d) { return g.findEdgeSortedByDst(s, d); });
    }
    if constexpr (hasData<G>()) {
      ctx(in, layout.c_str(), "sortEdgesByEdgeData", threads);
      galois::do_all(galois::iterate(g), [&](typename G::GraphNode n) { g.sortEdgesByEdgeData(n, std::less<typename G::edge_data_type>(), galois::MethodFlag::UNPROTECTED); });
      emitView(in, layout, threads, "sortedData", dumpOut(g), false);
    }
  }
  for (int rep = 0; rep < (small(in) ? 1 : 6); ++rep) {
    ctx(in, layout.c_str(), "transpose", threads);
    G g; galois::graphs::readGraph(g, file); g.transpose(); number(g);
    emitView(in, layout, threads, "transposed", dumpOut(g), false);
  }
  {
    ctx(in, layout.c_str(), "readGraphFromGRFile", threads);
    G g; g.readGraphFromGRFile(file); number(g);
    emitView(in, layout + ":grfile", threads, "out", dumpOut(g), true);
  }
  if constexpr (hasData<G>()) {
    // user-supplied arrays (the library only offers this with edge data)
    ctx(in, layout.c_str(), "constructFrom(arrays)", threads);
    size_t n = in.adj.size(), m = in.edges();
    std::vector<uint64_t> prefix(n); std::vector<std::vector<uint32_t>> dst(n);
    typedef typename G::edge_data_type DT;
    std::vector<std::vector<DT>> dat(n);
    uint64_t acc = 0;
    for (size_t s = 0; s < n; ++s) { acc += in.adj[s].size(); prefix[s] = acc; for (auto& e : in.adj[s]) { dst[s].push_back(e.dst); dat[s].push_back((DT)e.data); } }
    G g;
    g.constructFrom((uint32_t)n, (uint64_t)m, prefix, dst, dat);
    number(g);
    emitView(in, layout + ":arrays", threads, "out", dumpOut(g), true);
    emitRanges(in, g, layout + ":arrays", threads);
  }
}
template <typename G> static void cscFamily(const Input& in, const std::string& layout, unsigned threads, const std::string& file) {
  galois::setActiveThreads(threads);
  ctx(in, layout.c_str(), "readAndConstructBiGraphFromGRFile", threads);
  G g; g.readAndConstructBiGraphFromGRFile(file); number(g);
  emitView(in, layout, threads, "out", dumpOut(g), true);
  Adj a;
  for (auto n : g) {
    a.emplace_back();
    for (auto e : g.in_edges(n, galois::MethodFlag::UNPROTECTED)) {
      long long d = 0;
      if constexpr (hasData<G>()) d = (long long)g.getInEdgeData(e, galois::MethodFlag::UNPROTECTED);
      a.back().push_back({(uint32_t)g.getInEdgeDst(e), d});
    }
  }
  emitView(in, layout, threads, "in", a, false);
  VL d; for (auto n : g) d.push_back((long long)g.getInDegree(n));
  Rec r = base(in, "indegree", layout, threads);
  Adj T = transposeOf(in.adj);
  if (small(in)) r.i("big", 0).arr("deg", d); else { bool ok = true; for (size_t i = 0; i < d.size(); ++i) ok = ok && d[i] == (long long)T[i].size(); r.i("big", 1).i("ok", ok ? 1 : 0); }
  out->line(r);
}
template <typename G> static void inoutFamily(const Input& in, const std::string& layout, unsigned threads, const std::string& file, const std::string& tfile) {
  galois::setActiveThreads(threads);
  ctx(in, layout.c_str(), "readGraph(out,in)", threads);
  G g; galois::graphs::readGraph(g, file, tfile); number(g);
  emitView(in, layout, threads, "out", dumpOut(g), true);
  Adj a;
  for (auto n : g) {
    a.emplace_back();
    for (auto e : g.in_edges(n, galois::MethodFlag::UNPROTECTED)) {
      long long d = 0;
      if constexpr (hasData<G>()) d = (long long)g.getInEdgeData(e);
      a.back().push_back({(uint32_t)g.getData(g.getInEdgeDst(e), galois::MethodFlag::UNPROTECTED), d});
    }
  }
  emitView(in, layout, threads, "in", a, false);
}
// readGraph() does not compile for LC_InlineEdge_Graph (ReadGraph.h passes a 4th 'readUnweighted' argument its
// constructFrom does not take), so that layout is driven through the same two steps by hand
template <typename G> static void readInto(G& g, const std::string& file, std::true_type) {
  galois::graphs::FileGraph f;
  f.fromFileInterleaved<typename G::file_edge_data_type>(file);
  g.allocateFrom(f);
  galois::on_each([&](unsigned tid, unsigned total) { g.constructFrom(f, tid, total); });
}
template <typename G> static void readInto(G& g, const std::string& file, std::false_type) { galois::graphs::readGraph(g, file); }
template <typename G, bool Manual = false> static void plainFamily(const Input& in, const std::string& layout, unsigned threads, const std::string& file, bool ordered) {
  galois::setActiveThreads(threads);
  ctx(in, layout.c_str(), "readGraph", threads);
  G g; readInto(g, file, std::integral_constant<bool, Manual>()); number(g);
  emitView(in, layout, threads, "out", dumpOut(g), ordered);
  emitDegrees(in, g, layout, threads);
  emitRanges(in, g, layout, threads);
}

// ---- inputs ---------------------------------------------------------------------------------
static Input gen(int id, vh::Rng& r, bool large) {
  Input in; in.id = id;
  size_t n = large ? 1500 + r.below(2500) : r.below(13);
  in.adj.resize(n);
  if (n == 0) return in;
  int shape = (int)r.below(6);
  size_t m = large ? n * (1 + r.below(5)) : r.below(4 * n + 1);
  if (shape == 0) m = 0;                          // isolated nodes only
  for (size_t k = 0; k < m; ++k) {
    size_t s = r.below(n), d = r.below(n);
    if (shape == 1) s = r.below(1 + n / 8);       // skewed: few sources
    if (shape == 2) d = r.below(1 + n / 8);       // skewed: few destinations
    if (shape == 3 && r.coin()) d = s;            // many self loops
    if (shape == 4 && !in.adj[s].empty() && r.coin()) d = in.adj[s].back().dst;   // parallel edges
    if (shape == 5 && s == n - 1) s = 0;          // last node without edges
    in.adj[s].push_back({(uint32_t)d, (long long)(1 + r.below(9))});
  }
  if (large && shape <= 1) {
    // hubs: a few nodes that almost everybody points to and that carry many self loops (maximal contention on their
    // slot counters in the parallel transpose / in-edge construction)
    for (auto& a : in.adj) a.clear();
    size_t hubs = 1 + r.below(4);
    for (size_t s = 0; s < n; ++s) for (int k = 0; k < 3; ++k) in.adj[s].push_back({(uint32_t)r.below(hubs), (long long)(1 + r.below(9))});
    for (size_t h = 0; h < hubs; ++h) for (int k = 0; k < 3000; ++k) in.adj[h].push_back({(uint32_t)h, (long long)(1 + r.below(9))});
  }
  if (shape != 5 && shape != 0 && r.coin()) in.adj[n - 1].push_back({(uint32_t)r.below(n), 3});   // last node with an edge
  if (!large && id % 5 == 4) {
    // heavy nodes: a handful of nodes, each with 17..60 edges to very few distinct destinations (many parallel edges with
    // different data) -- beyond the insertion-sort threshold of the per-node edge sorts
    for (auto& a : in.adj) a.clear();
    n = 2 + r.below(4);
    in.adj.assign(n, {});
    for (size_t s = 0; s < n; ++s) {
      if (r.coin(1, 4)) continue;
      size_t deg = 17 + r.below(44), nd = 1 + r.below(3);
      for (size_t k = 0; k < deg; ++k) in.adj[s].push_back({(uint32_t)((s + r.below(nd)) % n), (long long)(1 + r.below(99))});
    }
  }
  if (large && id % 2 == 1) {
    // regular: every node has the same small degree (ring, doubled ring, 5- and 8-regular): layouts that pad per node see
    // the same padding at every node
    for (auto& a : in.adj) a.clear();
    static const int degs[] = {1, 2, 5, 8, 3};
    int deg = degs[r.below(5)];
    for (size_t s = 0; s < n; ++s) for (int k = 1; k <= deg; ++k) in.adj[s].push_back({(uint32_t)((s + k * (1 + s % 3)) % n), (long long)(1 + r.below(9))});
  }
  return in;
}

template <typename ET> static void allLayouts(const Input& in0, unsigned threads, vh::Rng& rng, const char* et) {
  using namespace galois::graphs;
  Input in = in0;
  if (std::is_void<ET>::value) for (auto& a : in.adj) for (auto& e : a) e.data = 0;
  size_t sz = std::is_void<ET>::value ? 0 : sizeof(typename std::conditional<std::is_void<ET>::value, char, ET>::type);
  std::string file = g_dir + "/g_" + et + ".gr", tfile = g_dir + "/g_" + et + ".tgr";
  writeGR(file, in.adj, sz);
  writeGR(tfile, transposeOf(in.adj), sz);
  out->line(Rec().str("k", "graph").i("g", in.id).str("et", et).i("n", in.adj.size()).i("m", in.edges()).i("big", small(in) ? 0 : 1).raw("adj", small(in) ? adjJson(in.adj) : std::string("[]")));
  std::string sfx = std::string("<") + et + ">";
  csrFamily<LC_CSR_Graph<int, ET>>(in, "LC_CSR" + sfx, threads, file, rng);
  csrFamily<typename LC_CSR_Graph<int, ET>::template with_numa_alloc<true>::type>(in, "LC_CSR:numa" + sfx, threads, file, rng);
  csrFamily<typename LC_CSR_Graph<int, ET>::template with_no_lockable<true>::type>(in, "LC_CSR:nolock" + sfx, threads, file, rng);
  csrFamily<typename LC_CSR_Graph<int, ET>::template with_out_of_line_lockable<true>::type>(in, "LC_CSR:ool" + sfx, threads, file, rng);
  cscFamily<LC_CSR_CSC_Graph<int, ET>>(in, "LC_CSR_CSC" + sfx, threads, file);
  cscFamily<LC_CSR_CSC_Graph<int, ET, true>>(in, "LC_CSR_CSC:byvalue" + sfx, threads, file);
  inoutFamily<LC_InOut_Graph<LC_CSR_Graph<int, ET>>>(in, "LC_InOut<LC_CSR>" + sfx, threads, file, tfile);
  plainFamily<LC_Linear_Graph<int, ET>>(in, "LC_Linear" + sfx, threads, file, true);
  plainFamily<typename LC_Linear_Graph<int, ET>::template with_numa_alloc<true>::type>(in, "LC_Linear:numa" + sfx, threads, file, true);
  plainFamily<LC_InlineEdge_Graph<int, ET>, true>(in, "LC_InlineEdge" + sfx, threads, file, true);
  plainFamily<typename LC_InlineEdge_Graph<int, ET>::template with_compressed_node_ptr<true>::type, true>(in, "LC_InlineEdge:compressed" + sfx, threads, file, true);
  plainFamily<LC_Morph_Graph<int, ET>>(in, "LC_Morph" + sfx, threads, file, false);
  if constexpr (std::is_same<ET, int>::value) {
    // the graph keeps 64-bit edge data although the file holds 32-bit values (with_file_edge_data), in either option order,
    // alone and under the in/out wrapper (which rebinds the node type of its inner graph)
    typedef typename LC_CSR_Graph<int, int64_t>::template with_file_edge_data<int32_t>::type Wide;
    typedef typename LC_CSR_Graph<char, int64_t>::template with_file_edge_data<int32_t>::type::template with_node_data<int>::type Wide2;
    plainFamily<Wide>(in, "LC_CSR:file32" + sfx, threads, file, true);
    plainFamily<Wide2>(in, "LC_CSR:file32:rebound" + sfx, threads, file, true);
    inoutFamily<LC_InOut_Graph<Wide>>(in, "LC_InOut<LC_CSR:file32>" + sfx, threads, file, tfile);
    typedef typename LC_Linear_Graph<int, int64_t>::template with_file_edge_data<int32_t>::type WideL;
    inoutFamily<LC_InOut_Graph<WideL>>(in, "LC_InOut<LC_Linear:file32>" + sfx, threads, file, tfile);
  }
}

int main(int argc, char** argv) {
  if (argc < 5) { fprintf(stderr, "usage: staticg out seed tier scratch-dir\n"); return 2; }
  vh::Out o(argv[1]);
  out = &o;
  vh::Rng rng(strtoull(argv[2], 0, 10));
  bool thorough = std::string(argv[3]) == "thorough";
  g_dir = argv[4];
  galois::SharedMemSys G;
  g_crashfd = open((std::string(argv[1]) + ".crash").c_str(), O_WRONLY | O_CREAT | O_TRUNC, 0644);
  signal(SIGSEGV, onCrash); signal(SIGABRT, onCrash); signal(SIGBUS, onCrash); signal(SIGFPE, onCrash);
  unsigned maxT = std::min(8u, galois::substrate::getThreadPool().getMaxThreads());
  int id = 0;
  int nsmall = thorough ? 160 : 40, nlarge = thorough ? 12 : 4;
  for (int k = 0; k < nsmall + nlarge; ++k) {
    Input in = gen(id++, rng, k >= nsmall);
    unsigned threads = k < 4 ? 1 + k : 1 + (unsigned)rng.below(maxT);
    if (k >= nsmall) threads = maxT - (unsigned)rng.below(3);
    switch (k % 3) {
    case 0: allLayouts<int>(in, threads, rng, "int"); break;
    case 1: allLayouts<void>(in, threads, rng, "void"); break;
    case 2: allLayouts<uint64_t>(in, threads, rng, "u64"); break;
    }
  }
  fprintf(stderr, "staticg: %lld records\n", o.n);
  return 0;
}
