// C16 binding: the real ParallelSTL algorithms on block-structured inputs (runs of equal values whose
// lengths straddle the 1024-element cut-off / block size) and random inputs, 1..8 threads.  Inputs and
// outputs are logged run-length encoded so that TLC can evaluate the std:: meaning (PSTLAbs.tla).
//   pstl <out.ndjson> <seed> <tier>
#include "vh/json.h"
#include "galois/Galois.h"
#ifdef VERIF_FLAVOUR_C
#include "verif_rt.h"
#endif
#include "galois/ParallelSTL.h"
#include <algorithm>
#include <csignal>
#include <numeric>
#include <fcntl.h>
#include <unistd.h>

using vh::Rec;
typedef std::vector<long long> VL;
typedef std::vector<VL> VVL;
static vh::Out* out;
static const char* g_cur = "";
static char g_ctx[4096];
static int g_crashfd = -1;
// the heap may be corrupted when this runs: no allocation, raw write of the context prepared beforehand
static void onCrash(int sig) {
  char buf[4400];
  int len = snprintf(buf, sizeof buf, "{\"k\":\"crash\",\"sig\":%d,\"during\":\"%s\",%s}\n", sig, g_cur, g_ctx);
  if (write(g_crashfd, buf, len) < 0) {}
  _exit(3);
}

static VVL rle(const std::vector<int>& v) {
  VVL r;
  for (size_t i = 0; i < v.size();) { size_t j = i; while (j < v.size() && v[j] == v[i]) ++j; r.push_back({v[i], (long long)(j - i)}); i = j; }
  return r;
}
static std::vector<int> expand(const VVL& r) { std::vector<int> v; for (auto& p : r) v.insert(v.end(), p[1], (int)p[0]); return v; }

// block-structured inputs: a short word over {0,1,2,3}, each letter a run of about one block
static VVL structured(vh::Rng& r, bool thorough) {
  static const long long lens[] = {0, 1, 2, 500, 1023, 1024, 1025, 1500, 2047, 2048, 2049, 3000};
  int letters = (int)r.below(thorough ? 8 : 6);
  VVL w;
  for (int i = 0; i < letters; ++i) {
    long long len = lens[r.below(sizeof(lens) / sizeof(lens[0]))];
    if (len == 0) continue;
    w.push_back({(long long)r.below(4), len});
  }
  return rle(expand(w)); // canonical (adjacent equal runs merged)
}

struct Tracked { static std::vector<int>* hits; int id; ~Tracked() { if (hits) __atomic_add_fetch(&(*hits)[id], 1, __ATOMIC_SEQ_CST); } };
std::vector<int>* Tracked::hits = nullptr;


static bool g_ctl = false;
static void arm(unsigned threads, uint64_t s) {
#ifdef VERIF_FLAVOUR_C
  if (!g_ctl) return;
  verif::Config cfg;
  cfg.mode = verif::M_CTL; cfg.seed = s; cfg.switch_pct = 10 + (int)(s % 70);
  cfg.pct_depth = (s % 4 == 3) ? 1 + (int)((s >> 8) % 3) : 0;
  cfg.max_steps = 2000000; cfg.threads = threads;
  verif::configure(cfg);
#endif
}
static void disarm() {
#ifdef VERIF_FLAVOUR_C
  if (!g_ctl) return;
  verif::Config off;
  verif::configure(off);
#endif
}

static void setCtx(const VVL& inR, unsigned threads, size_t n, bool randomInput) {
  std::string in_s = vh::jarr2(inR);
  if (in_s.size() > 3500) in_s = "[]";
  snprintf(g_ctx, sizeof g_ctx, "\"threads\":%u,\"n\":%zu,\"rand\":%d,\"in\":%s", threads, n, randomInput ? 1 : 0, in_s.c_str());
}

// partition with pred x < k
static void partitionOne(const VVL& inR, const std::vector<int>& in, unsigned threads, bool randomInput, uint64_t seed, int k, bool ctl) {
  size_t n = in.size();
  std::vector<int> v = in;
  g_cur = "partition";
  if (ctl) arm(threads, seed);
  auto p = galois::ParallelSTL::partition(v.begin(), v.end(), [k](int x) { return x < k; });
  if (ctl) disarm();
  long long idx = p - v.begin();
  bool valid = idx >= 0 && idx <= (long long)n;
  if (valid) { for (long long i = 0; i < idx; ++i) if (!(v[i] < k)) valid = false; for (size_t i = idx; i < n; ++i) if (v[i] < k) valid = false; }
  std::vector<int> a = v, b = in; std::sort(a.begin(), a.end()); std::sort(b.begin(), b.end());
  out->flush();
  Rec r; r.str("k", "partition").i("threads", threads).i("n", n).i("rand", randomInput ? 1 : 0).i("seed", seed % 1000000007).i("ctl", ctl ? 1 : 0);
  if (!randomInput) r.raw("in", vh::jarr2(inR));
  r.i("kk", k).i("p", idx).i("valid", valid ? 1 : 0).i("perm", a == b ? 1 : 0);
  if (!randomInput) r.raw("out", vh::jarr2(rle(v)));
  out->line(r);
}

static void runAll(const VVL& inR, unsigned threads, bool randomInput, uint64_t seed) {
  galois::setActiveThreads(threads);
  std::vector<int> in = expand(inR);
  size_t n = in.size();
  setCtx(inR, threads, n, randomInput);
  auto base = [&](const char* alg) { out->flush(); Rec r; r.str("k", alg).i("threads", threads).i("n", n).i("rand", randomInput ? 1 : 0).i("seed", seed % 1000000007); if (!randomInput) r.raw("in", vh::jarr2(inR)); return r; };
  // sort, ascending and descending
  for (int desc = 0; desc < 2; ++desc) {
    std::vector<int> v = in, ref = in;
    g_cur = "sort";
    if (desc) galois::ParallelSTL::sort(v.begin(), v.end(), std::greater<int>()); else galois::ParallelSTL::sort(v.begin(), v.end());
    if (desc) std::sort(ref.begin(), ref.end(), std::greater<int>()); else std::sort(ref.begin(), ref.end());
    Rec r = base("sort"); r.i("desc", desc).i("eqstd", v == ref ? 1 : 0);
    if (!randomInput) r.raw("out", vh::jarr2(rle(v)));
    out->line(r);
  }
  for (int k : {0, 1, 2, 4}) partitionOne(inR, in, threads, randomInput, seed, k, false);
  // count_if / find_if
  for (int k : {0, 2, 3, 9}) {
    g_cur = "count_if";
    long long c = galois::ParallelSTL::count_if(in.begin(), in.end(), [k](int x) { return x == k; });
    long long refc = std::count_if(in.begin(), in.end(), [k](int x) { return x == k; });
    out->line(base("count_if").i("kk", k).i("res", c).i("eqstd", c == refc ? 1 : 0));
    g_cur = "find_if";
    auto f = galois::ParallelSTL::find_if(in.begin(), in.end(), [k](int x) { return x == k; });
    long long fi = f - in.begin();
    out->line(base("find_if").i("kk", k).i("res", fi).i("found", (fi < (long long)n && in[fi] == k) ? 1 : 0).i("exists", refc > 0 ? 1 : 0));
  }
  // accumulate / map_reduce
  {
    g_cur = "accumulate";
    // the 3-argument form does not compile at all (its std::plus argument makes the inner call ambiguous with
    // std::accumulate through ADL), so only the 4-argument form can be exercised
    long long s = galois::ParallelSTL::accumulate(in.begin(), in.end(), 0LL, [](long long a, long long b) { return a + b; });
    std::vector<long long> inl(in.begin(), in.end());
    // (the third argument is the *identity* of the operation, not std::accumulate's init: only identities are passed)
    long long s2 = galois::ParallelSTL::accumulate(inl.begin(), inl.end(), 1000LL, [](long long a, long long b) { return std::min(a, b); });
    long long m = galois::ParallelSTL::map_reduce(in.begin(), in.end(), [](int x) { return (long long)(2 * x + 1); }, std::plus<long long>(), 0LL);
    long long mx = galois::ParallelSTL::map_reduce(in.begin(), in.end(), [](int x) { return (long long)x; }, [](long long a, long long b) { return std::max(a, b); }, -1LL);
    long long refs = std::accumulate(in.begin(), in.end(), 0LL);
    out->line(base("accumulate").i("sum", s).i("min", s2).i("mapred", m).i("max", mx).i("refsum", refs));
  }
  // partial_sum: sampled positions
  {
    g_cur = "partial_sum";
    std::vector<long long> inl(in.begin(), in.end()), o(n, -7);
    auto e = galois::ParallelSTL::partial_sum(inl.begin(), inl.end(), o.begin());
    std::vector<long long> ref(n);
    std::partial_sum(inl.begin(), inl.end(), ref.begin());
    VL pos, val;
    size_t bs = threads ? (n + threads - 1) / threads : n;
    auto add = [&](long long i) { if (i >= 0 && i < (long long)n) { pos.push_back(i); val.push_back(o[i]); } };
    for (unsigned b = 0; b <= threads; ++b) { add((long long)(b * bs) - 1); add((long long)(b * bs)); add((long long)(b * bs) + 1); }
    add(0); add((long long)n - 1); add((long long)n / 2);
    out->line(base("partial_sum").arr("pos", pos).arr("val", val).i("ret", e - o.begin()).i("eqstd", o == ref ? 1 : 0));
  }
  // destroy: every element exactly once
  if (n <= 6000) {
    g_cur = "destroy";
    std::vector<int> hits(n, 0);
    Tracked* mem = (Tracked*)malloc(sizeof(Tracked) * (n + 1));
    for (size_t i = 0; i < n; ++i) mem[i].id = (int)i;
    Tracked::hits = &hits;
    galois::ParallelSTL::destroy(mem, mem + n);
    Tracked::hits = nullptr;
    long long once = 0, other = 0;
    for (auto h : hits) { if (h == 1) ++once; else ++other; }
    free(mem);
    out->line(base("destroy").i("once", once).i("other", other));
  }
}

int main(int argc, char** argv) {
  if (argc < 4) { fprintf(stderr, "usage: pstl out seed tier\n"); return 2; }
  vh::Out o(argv[1]);
  out = &o;
  vh::Rng rng(strtoull(argv[2], 0, 10));
  bool thorough = std::string(argv[3]) == "thorough";
  galois::SharedMemSys G;
  g_crashfd = open((std::string(argv[1]) + ".crash").c_str(), O_WRONLY | O_CREAT | O_TRUNC, 0644);
  signal(SIGSEGV, onCrash); signal(SIGABRT, onCrash); signal(SIGBUS, onCrash);
  unsigned maxT = std::min(galois::substrate::getThreadPool().getMaxThreads(), thorough ? 16u : 8u);
  g_ctl = argc > 4 && std::string(argv[4]) == "ctl";
  if (g_ctl) {
    // controlled schedules over the block-claiming protocol of partition: words of whole blocks (all pass / all
    // fail / mixed) plus a short remainder, 2..3 threads, many schedules per word
    unsigned T = std::min(3u, maxT);
    for (int w = 0; w < (thorough ? 240 : 60); ++w) {
      VVL word;
      int blocks = 2 + (int)rng.below(4);
      for (int b = 0; b < blocks; ++b) {
        int kind = (int)rng.below(3);
        if (kind == 2) { long long a = 1 + rng.below(1023); word.push_back({(long long)(rng.coin() ? 0 : 3), a}); word.push_back({(long long)(rng.coin() ? 0 : 3), 1024 - a}); }
        else word.push_back({kind == 0 ? 0LL : 3LL, 1024});
      }
      if (rng.coin()) word.push_back({(long long)(rng.coin() ? 0 : 3), (long long)(1 + rng.below(3))});
      std::vector<int> in = expand(word);
      VVL inR = rle(in);
      for (int sch = 0; sch < (thorough ? 40 : 16); ++sch) {
        unsigned t = 2 + (unsigned)rng.below(T - 1);
        galois::setActiveThreads(t);
        setCtx(inR, t, in.size(), false);
        partitionOne(inR, in, t, false, rng.next(), 1, true);
      }
    }
    fprintf(stderr, "pstl(ctl): %lld records\n", o.n);
    return 0;
  }
  // find_if with exactly one matching element, at every position of a short array and at random positions of longer ones
  for (unsigned t : {1u, 2u, 3u, maxT}) {
    galois::setActiveThreads(t);
    for (size_t n : {(size_t)300, (size_t)1025, (size_t)(thorough ? 20000 : 5000)}) {
      std::vector<int> v(n, 0);
      VL pos, res;
      size_t cnt = n <= 300 ? n : (thorough ? 400 : 120);
      for (size_t k = 0; k < cnt; ++k) {
        size_t p = n <= 300 ? k : rng.below(n);
        v[p] = 5;
        g_cur = "find_if";
        snprintf(g_ctx, sizeof g_ctx, "\"threads\":%u,\"n\":%zu,\"rand\":0,\"in\":[[0,%zu],[5,1],[0,%zu]]", t, n, p, n - p - 1);
        auto f = galois::ParallelSTL::find_if(v.begin(), v.end(), [](int x) { return x == 5; });
        pos.push_back((long long)p); res.push_back((long long)(f - v.begin()));
        v[p] = 0;
      }
      out->line(Rec().str("k", "find_unique").i("threads", t).i("n", n).i("rand", 0).arr("pos", pos).arr("res", res));
    }
  }
  // hand-picked shapes first: empty, below/at/above the cut-off, all-equal, all-false then all-true blocks, ...
  std::vector<VVL> fixed = {{}, {{1, 1}}, {{2, 1023}}, {{2, 1024}}, {{2, 1025}}, {{3, 1024}, {0, 1024}}, {{0, 1024}, {3, 1024}}, {{3, 1024}, {0, 1024}, {3, 7}},
                            {{0, 2048}}, {{3, 2048}}, {{0, 1000}, {3, 1000}, {0, 1000}, {3, 1000}}, {{1, 3000}, {0, 1}}, {{0, 1}, {1, 3000}}};
  for (auto& w : fixed) for (unsigned t : {1u, 2u, 3u, maxT}) runAll(w, t, false, rng.next());
  for (int k = 0; k < (thorough ? 200 : 40); ++k) runAll(structured(rng, thorough), 1 + (unsigned)rng.below(maxT), false, rng.next());
  for (int k = 0; k < (thorough ? 60 : 12); ++k) {
    size_t n = rng.below(thorough ? 40000 : 12000);
    std::vector<int> v(n);
    int shape = (int)rng.below(4);
    for (size_t i = 0; i < n; ++i) v[i] = shape == 0 ? (int)rng.below(1000) : shape == 1 ? (int)(i % 1000) : shape == 2 ? (int)((n - i) % 1000) : (int)rng.below(3);
    runAll(rle(v), 1 + (unsigned)rng.below(maxT), true, rng.next());
  }
  fprintf(stderr, "pstl: %lld records\n", o.n);
  return 0;
}
