// for_each over the priority / level-synchronous schedulers (OBIM family, bulk-synchronous)
#include "vh/foreach_harness.h"
namespace W = galois::worklists;
typedef W::OrderedByIntegerMetric<fe::Indexer, W::PerSocketChunkFIFO<2>> OBIM;
typedef W::AdaptiveOrderedByIntegerMetric<fe::Indexer, W::PerSocketChunkFIFO<2>> AOBIM;
int main(int argc, char** argv) {
  fe::Args a = fe::parse(argc, argv);
  vh::EventLog log(a.out.c_str());
  fe::L = &log;
  galois::SharedMemSys G;
  vh::Rng rng(a.seed);
#ifdef VERIF_FLAVOUR_C
  verif::on_abort(fe::onAbort);
#endif
  // priority order is only a hint without the barrier option: judged for work conservation / isolation only
  fe::campaign<OBIM>("OBIM", a, rng, "prio");
  fe::campaign<OBIM::with_block_period<1>::type>("OBIM<block_period=1>", a, rng, "prio");
  fe::campaign<OBIM::with_back_scan_prevention<false>::type>("OBIM<noBSP>", a, rng, "prio");
  fe::campaign<OBIM::with_monotonic<true>::type>("OBIM<monotonic>", a, rng, "prio-monotone");
  fe::campaign<OBIM::with_descending<true>::type>("OBIM<descending>", a, rng, "prio", 1);
  fe::campaign<AOBIM>("AdaptiveOBIM", a, rng, "prio");
  // the barrier option: strict level order for monotone programs
  fe::campaign<OBIM::with_barrier<true>::type>("OBIM<barrier>", a, rng, "level-obim", 0, true, 5);
  fe::campaign<OBIM::with_barrier<true>::type::with_descending<true>::type>("OBIM<barrier,descending>", a, rng, "level-obim", 1, true, 3);
  // bulk-synchronous rounds
  fe::campaign<W::BulkSynchronous<>>("BulkSynchronous", a, rng, "level-bsp", 0, true, 2);
  fe::campaign<W::BulkSynchronous<W::PerSocketChunkFIFO<2>>>("BulkSynchronous<PerSocketChunkFIFO<2>>", a, rng, "level-bsp", 0, true, 4);
  fe::campaign<W::BulkSynchronous<W::PerSocketChunkLIFO<2>>>("BulkSynchronous<PerSocketChunkLIFO<2>>", a, rng, "level-bsp", 0, true, 3);
  fprintf(stderr, "foreach_c: %ld events\n", log.total);
  return 0;
}
