// C14 binding: drives the real Galois sequential containers operation by operation and
// logs a *tree* of histories (prefix-shared) as NDJSON for TLC (TraceContainers.tla).
//   containers <component|all> <out.ndjson> <seed> <tier>
// Record: {"id":N,"par":P,"op":...,"a":..,"b":..,"res":[..],<observation>,"live":n,"bad":m,"kids":[..]}
// Record 1 is the root; its children are "reset" records, one per component instance.
#include "vh/json.h"

#include "galois/Galois.h"
#include "galois/gdeque.h"
#include "galois/FixedSizeRing.h"
#include "galois/gslist.h"
#include "galois/FlatMap.h"
#include "galois/PODResizeableArray.h"
#include "galois/LazyArray.h"
#include "galois/LazyObject.h"
#include "galois/optional.h"
#include "galois/PriorityQueue.h"
#include "galois/Bag.h"
#include "galois/TwoLevelIterator.h"
#include "galois/TwoLevelIteratorA.h"
#include "galois/LargeArray.h"
#include "galois/Mem.h"

#include <csignal>
#include <cstring>
#include <deque>
#include <functional>
#include <map>
#include <set>
#include <unistd.h>
#include <unordered_set>

using vh::Rec;
typedef std::vector<long long> VL;

// ------------------------------------------------------------------ element life cycle
static std::unordered_set<const void*> g_live;
static long g_bad = 0;
struct Elem {
  int v;
  void born() { if (!g_live.insert(this).second) ++g_bad; }
  Elem() : v(-1) { born(); }
  Elem(int x) : v(x) { born(); }
  Elem(const Elem& o) : v(o.v) { born(); }
  Elem(Elem&& o) : v(o.v) { o.v = -2; born(); }
  Elem& operator=(const Elem& o) { if (!g_live.count(this)) ++g_bad; v = o.v; return *this; }
  Elem& operator=(Elem&& o) { if (!g_live.count(this)) ++g_bad; v = o.v; o.v = -2; return *this; }
  ~Elem() { if (!g_live.erase(this)) ++g_bad; v = -3; }
  bool operator<(const Elem& o) const { return v < o.v; }
  bool operator==(const Elem& o) const { return v == o.v; }
};
static int val(const Elem& e) { return g_live.count(&e) ? e.v : -99; } // -99: dead slot observed
static int val(int x) { return x; }

// ------------------------------------------------------------------ op + tree
struct Op { const char* name; long a; long b; };
struct Node { int par; std::string body; std::vector<int> kids; };
static std::vector<Node> nodes; // index = id-1
static int addNode(int par, const std::string& body) {
  nodes.push_back(Node{par, body, {}});
  int id = nodes.size();
  if (par > 0) nodes[par - 1].kids.push_back(id);
  return id;
}

static char g_cur[4096];
static bool g_wide = false;
static const char* g_outpath;
static void flushTree(const char* crashNote) {
  FILE* f = fopen(g_outpath, "w");
  for (size_t i = 0; i < nodes.size(); ++i) {
    fprintf(f, "{\"id\":%zu,\"par\":%d,%s,\"kids\":%s}\n", i + 1, nodes[i].par, nodes[i].body.c_str(),
            vh::jarr(nodes[i].kids).c_str());
  }
  if (crashNote) fprintf(f, "%s\n", crashNote);
  fclose(f);
}
static std::vector<Op> g_hist; static std::string g_comp; static int g_histPar;
static void onCrash(int sig) {
  // the real container crashed while executing g_cur: log it as a CRASH child
  std::string body = "\"op\":\"CRASH\",\"a\":" + std::to_string(sig) + ",\"b\":0,\"res\":[],\"live\":0,\"bad\":0,\"hist\":\"" +
                     std::string(g_cur) + "\"";
  addNode(g_histPar, body);
  flushTree(nullptr);
  _exit(3);
}

template <typename C>
static std::string obsList(const char* k, const C& c) {
  return std::string("\"") + k + "\":" + vh::jarr(c);
}

// ------------------------------------------------------------------ generic exploration
// Adapter concept:  const char* adt(); std::string params(); void reset(); size_t size();
//   void ops(std::vector<Op>&, int step);  std::string apply(const Op&) -> "\"res\":[..]" ;  std::string observe();
template <typename A>
struct Explorer {
  A a;
  vh::Rng& rng;
  long budget;
  explicit Explorer(vh::Rng& r, long b) : rng(r), budget(b) {}

  std::string record(const Op& op, const std::string& res) {
    std::string s = "\"op\":\"" + std::string(op.name) + "\",\"a\":" + std::to_string(op.a) + ",\"b\":" +
                    std::to_string(op.b) + "," + res + "," + a.observe() + ",\"live\":" +
                    std::to_string((long)g_live.size() - a.liveBase()) + ",\"bad\":" + std::to_string(g_bad);
    return s;
  }
  void noteCur(const std::vector<Op>& h, const Op* next) {
    std::string s = g_comp + ":";
    for (auto& o : h) s += std::string(o.name) + "(" + std::to_string(o.a) + "," + std::to_string(o.b) + ") ";
    if (next) s += std::string(next->name) + "(" + std::to_string(next->a) + "," + std::to_string(next->b) + ")";
    strncpy(g_cur, s.c_str(), sizeof(g_cur) - 1);
  }
  void replay(const std::vector<Op>& h) {
    a.reset();
    for (auto& o : h) a.apply(o);
  }
  int resetNode(const std::string& cname) {
    g_comp = cname;
    g_bad = 0;
    a.reset();
    std::string body = "\"op\":\"reset\",\"a\":0,\"b\":0,\"res\":[],\"c\":\"" + cname + "\",\"adt\":\"" + a.adt() + "\"," +
                       a.params() + "," + a.observe() + ",\"live\":" + std::to_string((long)g_live.size() - a.liveBase()) +
                       ",\"bad\":0";
    return addNode(1, body);
  }
  // exhaustive depth-first enumeration of all op sequences up to depth
  void dfs(int node, std::vector<Op>& h, int depth) {
    if (depth == 0 || budget <= 0) return;
    std::vector<Op> cand;
    g_bad = 0;
    replay(h);
    a.ops(cand, h.size());
    for (auto& op : cand) {
      if (--budget < 0) return;
      g_histPar = node;
      noteCur(h, &op);
      g_bad = 0;
      replay(h);
      std::string res = a.apply(op);
      int id = addNode(node, record(op, res));
      h.push_back(op);
      dfs(id, h, depth - 1);
      h.pop_back();
    }
  }
  void exhaustive(const std::string& cname, int depth) {
    int r = resetNode(cname);
    std::vector<Op> h;
    dfs(r, h, depth);
    a.reset();
  }
  // scripted walks for the priority queues: fill with distinct keys in random order, remove a random
  // non-minimum key, drain -- the shape in which a broken sift shows
  void pqScripted(const std::string& cname, int walks) {
    for (int w = 0; w < walks; ++w) {
      int node = resetNode(cname);
      std::vector<Op> h;
      std::vector<long> keys;
      for (long v = 1; v <= 7 + (long)rng.below(6); ++v) keys.push_back(v);
      for (size_t i = keys.size(); i > 1; --i) std::swap(keys[i - 1], keys[rng.below(i)]);
      std::vector<Op> script;
      for (long v : keys) script.push_back({"push", v, 0});
      for (int r = 0; r < 2; ++r) script.push_back({"remove", 2 + (long)rng.below(keys.size() - 1), 0});
      if (rng.coin(1, 2)) script.push_back({"push", 20, 0});
      for (size_t i = 0; i < keys.size() + 1; ++i) script.push_back({"pop", 0, 0});
      long held = 0;
      for (auto& op : script) {
        std::string on = op.name;
        if (on == "pop" && held <= 0) break;
        g_histPar = node;
        noteCur(h, &op);
        std::string res = a.apply(op);
        if (on == "push" && res.find("[1]") != std::string::npos) ++held;
        if (on == "pop") --held;
        if (on == "remove" && res.find("[1]") != std::string::npos) --held;
        node = addNode(node, record(op, res));
        h.push_back(op);
      }
      a.reset();
    }
  }
  void randomWalks(const std::string& cname, int walks, int len) {
    g_wide = true;
    if (std::string(a.adt()) == "heap" || std::string(a.adt()) == "oset") pqScripted(cname, walks);
    for (int w = 0; w < walks; ++w) {
      int node = resetNode(cname);
      std::vector<Op> h;
      for (int i = 0; i < len; ++i) {
        std::vector<Op> cand;
        a.ops(cand, h.size());
        if (cand.empty()) break;
        // bias towards growth in the first half so that several blocks exist
        Op op = cand[rng.below(cand.size())];
        if (i < len / 2 && rng.coin(1, 2))
          for (int t = 0; t < 4 && !a.grows(op); ++t) op = cand[rng.below(cand.size())];
        g_histPar = node;
        noteCur(h, &op);
        std::string res = a.apply(op);
        node = addNode(node, record(op, res));
        h.push_back(op);
      }
      a.reset();
    }
    g_wide = false;
  }
};

static std::string resv() { return "\"res\":[]"; }
static std::string resv(long long x) { return "\"res\":[" + std::to_string(x) + "]"; }

// ------------------------------------------------------------------ adapters: sequences
template <unsigned N>
struct DequeA {
  typedef galois::gdeque<Elem, N> D;
  std::unique_ptr<D> d;
  long base = 0;
  const char* adt() { return "seq"; }
  std::string params() { return "\"cap\":0,\"chunk\":" + std::to_string(N) + ",\"bidir\":true"; }
  long liveBase() { return base; }
  void reset() { d.reset(); base = g_live.size(); d.reset(new D()); }
  bool grows(const Op& o) { return o.name[0] == 'p' && o.name[1] == 'u' || o.name[0] == 'e' && o.name[1] == 'm'; }
  void ops(std::vector<Op>& c, int step) {
    long v = step + 1;
    c.push_back({"pushb", v, 0});
    c.push_back({"pushf", v, 0});
    size_t n = d->size();
    for (size_t p = 0; p <= n; ++p) c.push_back({"emplacew", v, (long)p});
    if (n) { c.push_back({"popb", 0, 0}); c.push_back({"popf", 0, 0}); c.push_back({"front", 0, 0}); c.push_back({"back", 0, 0}); }
    c.push_back({"clear", 0, 0});
    c.push_back({"size", 0, 0});
    c.push_back({"move", 0, 0});
  }
  std::string apply(const Op& o) {
    std::string n = o.name;
    if (n == "pushb") { d->push_back(Elem(o.a)); return resv(1); }
    if (n == "pushf") { d->push_front(Elem(o.a)); return resv(1); }
    if (n == "emplacew") {
      auto it = d->begin();
      std::advance(it, o.b);
      auto r = d->emplace(it, (int)o.a);
      // the returned iterator is a full citizen: walk it forwards to the end and from there backwards to the beginning
      VL w;
      w.push_back(val(*r));
      auto x = r;
      for (; x != d->end() && w.size() < 80; ++x) w.push_back(val(*x));
      while (x != d->begin() && w.size() < 160) { --x; w.push_back(val(*x)); }
      return "\"res\":" + vh::jarr(w);
    }
    if (n == "popb") { d->pop_back(); return resv(1); }
    if (n == "popf") { d->pop_front(); return resv(1); }
    if (n == "front") return resv(val(d->front()));
    if (n == "back") return resv(val(d->back()));
    if (n == "clear") { d->clear(); return resv(); }
    if (n == "size") return "\"res\":[" + std::to_string(d->size()) + "," + std::to_string(d->empty() ? 1 : 0) + "]";
    if (n == "move") { std::unique_ptr<D> e(new D(std::move(*d))); d = std::move(e); return resv(); }
    return resv();
  }
  std::string observe() {
    VL f, b;
    for (auto it = d->begin(); it != d->end(); ++it) { f.push_back(val(*it)); if (f.size() > 64) break; }
    for (auto it = d->rbegin(); it != d->rend(); ++it) { b.push_back(val(*it)); if (b.size() > 64) break; }
    return obsList("fwd", f) + "," + obsList("bwd", b);
  }
};

template <unsigned N>
struct RingA {
  typedef galois::FixedSizeRing<Elem, N> D;
  std::unique_ptr<D> d;
  long base = 0;
  const char* adt() { return "seq"; }
  std::string params() { return "\"cap\":" + std::to_string(N) + ",\"chunk\":" + std::to_string(N) + ",\"bidir\":true"; }
  long liveBase() { return base; }
  void reset() { d.reset(); base = g_live.size(); d.reset(new D()); }
  bool grows(const Op& o) { return o.name[0] == 'p' && o.name[1] == 'u' || o.name[0] == 'e' && o.name[1] == 'm'; }
  void ops(std::vector<Op>& c, int step) {
    long v = step + 1;
    c.push_back({"pushb", v, 0});
    c.push_back({"pushf", v, 0});
    size_t n = d->size();
    for (size_t p = 0; p <= n; ++p) c.push_back({"emplace", v, (long)p});
    if (n) { c.push_back({"popb", 0, 0}); c.push_back({"popf", 0, 0}); c.push_back({"front", 0, 0}); c.push_back({"back", 0, 0}); }
    c.push_back({"extractf", 0, 0});
    c.push_back({"extractb", 0, 0});
    c.push_back({"clear", 0, 0});
    c.push_back({"size", 0, 0});
    if (n) c.push_back({"getat", 0, (long)(n - 1)});
  }
  std::string apply(const Op& o) {
    std::string n = o.name;
    if (n == "pushb") return resv(d->push_back(Elem(o.a)) ? 1 : 0);
    if (n == "pushf") return resv(d->push_front(Elem(o.a)) ? 1 : 0);
    if (n == "emplace") {
      auto r = d->emplace(d->begin() + o.b, (int)o.a);
      return r ? resv(val(*r)) : resv(0);
    }
    if (n == "popb") { d->pop_back(); return resv(1); }
    if (n == "popf") { d->pop_front(); return resv(1); }
    if (n == "front") return resv(val(d->front()));
    if (n == "back") return resv(val(d->back()));
    if (n == "getat") return resv(val(d->getAt(o.b)));
    if (n == "extractf") { auto r = d->extract_front(); return r.is_initialized() ? resv(val(*r)) : resv(); }
    if (n == "extractb") { auto r = d->extract_back(); return r.is_initialized() ? resv(val(*r)) : resv(); }
    if (n == "clear") { d->clear(); return resv(); }
    if (n == "size") return "\"res\":[" + std::to_string(d->size()) + "," + std::to_string(d->empty() ? 1 : 0) + "," +
                            std::to_string(d->full() ? 1 : 0) + "]";
    return resv();
  }
  std::string observe() {
    VL f, b;
    for (auto it = d->begin(); it != d->end(); ++it) { f.push_back(val(*it)); if (f.size() > 64) break; }
    for (auto it = d->rbegin(); it != d->rend(); ++it) { b.push_back(val(*it)); if (b.size() > 64) break; }
    return obsList("fwd", f) + "," + obsList("bwd", b);
  }
};

template <unsigned N>
struct SListA {
  typedef galois::gslist<Elem, N> D;
  typedef galois::runtime::FixedSizeHeap Heap;
  std::unique_ptr<D> d;
  std::unique_ptr<Heap> heap;
  long base = 0;
  const char* adt() { return "seq"; }
  std::string params() { return "\"cap\":0,\"chunk\":" + std::to_string(N) + ",\"bidir\":false"; }
  long liveBase() { return base; }
  void reset() {
    if (d) d->clear(*heap);
    d.reset();
    base = g_live.size();
    if (!heap) heap.reset(new Heap(sizeof(typename D::block_type)));
    d.reset(new D());
  }
  bool grows(const Op& o) { return o.name[0] == 'p' && o.name[1] == 'u'; }
  size_t count() { size_t n = 0; for (auto it = d->begin(); it != d->end(); ++it) { if (++n > 64) break; } return n; }
  void ops(std::vector<Op>& c, int step) {
    long v = step + 1;
    c.push_back({"pushf", v, 0});
    c.push_back({"popf", 0, 0});
    if (count()) c.push_back({"front", 0, 0});
    c.push_back({"clear", 0, 0});
    c.push_back({"empty", 0, 0});
    c.push_back({"move", 0, 0});
  }
  std::string apply(const Op& o) {
    std::string n = o.name;
    if (n == "pushf") { d->push_front(*heap, Elem(o.a)); return resv(1); }
    if (n == "popf") return resv(d->pop_front(*heap) ? 1 : 0);
    if (n == "front") return resv(val(d->front()));
    if (n == "clear") { d->clear(*heap); return resv(); }
    if (n == "empty") return resv(d->empty() ? 1 : 0);
    if (n == "move") { std::unique_ptr<D> e(new D(std::move(*d))); d = std::move(e); return resv(); }
    return resv();
  }
  std::string observe() {
    VL f;
    for (auto it = d->begin(); it != d->end(); ++it) { f.push_back(val(*it)); if (f.size() > 64) break; }
    return obsList("fwd", f);
  }
};

struct PODA {
  typedef galois::PODResizeableArray<int> D;
  std::unique_ptr<D> d;
  const char* adt() { return "vec"; }
  std::string params() { return "\"cap\":0,\"chunk\":0,\"bidir\":true"; }
  long liveBase() { return g_live.size(); }
  void reset() { d.reset(new D()); }
  bool grows(const Op& o) { return o.name[0] == 'p' && o.name[1] == 'u'; }
  void ops(std::vector<Op>& c, int step) {
    long v = step + 1;
    c.push_back({"pushb", v, 0});
    size_t n = d->size();
    if (n) { c.push_back({"popb", 0, 0}); c.push_back({"front", 0, 0}); c.push_back({"back", 0, 0}); c.push_back({"set", v, (long)(n / 2)}); }
    if (n) c.push_back({"shrinkto", 0, (long)(n - 1)});
    c.push_back({"reserve", 0, (long)(n + 3)});
    c.push_back({"clear", 0, 0});
    c.push_back({"size", 0, 0});
    c.push_back({"at", 0, (long)n});
    if (n) c.push_back({"at", 0, (long)(n - 1)});
    c.push_back({"move", 0, 0});
    c.push_back({"append2", v, 0});
    c.push_back({"assignself", 0, 0});
  }
  std::string apply(const Op& o) {
    std::string n = o.name;
    if (n == "pushb") { d->push_back((int)o.a); return resv(1); }
    if (n == "popb") { d->resize(d->size() - 1); return resv(1); }
    if (n == "front") return resv(d->front());
    if (n == "back") return resv(d->back());
    if (n == "set") { (*d)[o.b] = (int)o.a; return resv(); }
    if (n == "shrinkto") { d->resize(o.b); return resv(); }
    if (n == "reserve") { d->reserve(o.b); return resv(); }
    if (n == "clear") { d->clear(); return resv(); }
    if (n == "size") return "\"res\":[" + std::to_string(d->size()) + "," + std::to_string(d->empty() ? 1 : 0) + "]";
    if (n == "at") { try { return resv(d->at(o.b)); } catch (std::out_of_range&) { return resv(); } }
    if (n == "move") { std::unique_ptr<D> e(new D(std::move(*d))); d = std::move(e); return resv(); }
    if (n == "append2") { int x[2] = {(int)o.a, (int)o.a + 100}; d->insert(d->end(), x, x + 2); return resv(); }
    if (n == "assignself") { D e(d->begin(), d->end()); d->assign(e.begin(), e.end()); return resv(); }
    return resv();
  }
  std::string observe() {
    VL f, b;
    for (auto it = d->begin(); it != d->end(); ++it) f.push_back(*it);
    for (auto it = d->rbegin(); it != d->rend(); ++it) b.push_back(*it);
    return obsList("fwd", f) + "," + obsList("bwd", b);
  }
};

// ------------------------------------------------------------------ bags
template <unsigned N, bool Conc>
struct FBagA {
  typedef typename std::conditional<Conc, galois::ConcurrentFixedSizeBag<Elem, N>, galois::FixedSizeBag<Elem, N>>::type D;
  std::unique_ptr<D> d;
  long base = 0;
  const char* adt() { return "bag"; }
  std::string params() { return "\"cap\":" + std::to_string(N) + ",\"chunk\":" + std::to_string(N) + ",\"bidir\":false"; }
  long liveBase() { return base; }
  void reset() { d.reset(); base = g_live.size(); d.reset(new D()); }
  bool grows(const Op& o) { return o.name[0] == 'p' && o.name[1] == 'u'; }
  void ops(std::vector<Op>& c, int step) {
    long v = step + 1;
    c.push_back({"push", v, 0});
    c.push_back({"pop", 0, 0});
    if (d->size()) c.push_back({"front", 0, 0});
    c.push_back({"clear", 0, 0});
    c.push_back({"size", 0, 0});
    if (!Conc) c.push_back({"extract", 0, 0});
  }
  template <bool C = Conc>
  typename std::enable_if<!C, std::string>::type extract() { auto r = d->extract_front(); return r.is_initialized() ? resv(val(*r)) : resv(); }
  template <bool C = Conc>
  typename std::enable_if<C, std::string>::type extract() { return resv(); }
  std::string apply(const Op& o) {
    std::string n = o.name;
    if (n == "push") { Elem e((int)o.a); return resv(d->push_front(e) ? 1 : 0); }
    if (n == "pop") return resv(d->pop_front() ? 1 : 0);
    if (n == "front") return resv(val(d->front()));
    if (n == "extract") return extract();
    if (n == "clear") { d->clear(); return resv(); }
    if (n == "size") return "\"res\":[" + std::to_string(d->size()) + "," + std::to_string(d->empty() ? 1 : 0) + "," +
                            std::to_string(d->full() ? 1 : 0) + "]";
    return resv();
  }
  std::string observe() {
    VL f;
    for (auto it = d->begin(); it != d->end(); ++it) f.push_back(val(*it));
    std::sort(f.begin(), f.end());
    return obsList("items", f);
  }
};

template <unsigned BS>
struct IBagA {
  typedef galois::InsertBag<Elem, BS> D;
  std::unique_ptr<D> d;
  long base = 0;
  const char* adt() { return "ibag"; }
  std::string params() { return "\"cap\":0,\"chunk\":" + std::to_string(BS) + ",\"bidir\":false"; }
  long liveBase() { return base; }
  void reset() { d.reset(); base = g_live.size(); d.reset(new D()); }
  bool grows(const Op& o) { return o.name[0] == 'p' && o.name[1] == 'u'; }
  void ops(std::vector<Op>& c, int step) {
    long v = step + 1;
    c.push_back({"push", v, 0});
    c.push_back({"pop", 0, 0});
    c.push_back({"clear", 0, 0});
    c.push_back({"empty", 0, 0});
    c.push_back({"move", 0, 0});
  }
  std::string apply(const Op& o) {
    std::string n = o.name;
    if (n == "push") { auto& r = d->push(Elem((int)o.a)); return resv(val(r)); }
    if (n == "pop") {
      // pop is only defined after a push by this thread; "none" = the documented out_of_range
      if (d->begin() == d->end() && d->empty()) return resv();
      try { d->pop(); return resv(1); } catch (std::out_of_range&) { return resv(); }
    }
    if (n == "clear") { d->clear_serial(); return resv(); }
    if (n == "empty") return resv(d->empty() ? 1 : 0);
    if (n == "move") { std::unique_ptr<D> e(new D(std::move(*d))); d = std::move(e); return resv(); }
    return resv();
  }
  std::string observe() {
    VL f;
    for (auto it = d->begin(); it != d->end(); ++it) { f.push_back(val(*it)); if (f.size() > 64) break; }
    VL g = f;
    std::sort(g.begin(), g.end());
    return obsList("items", g) + "," + obsList("fwd", f);
  }
};

// ------------------------------------------------------------------ map
struct FlatMapA {
  typedef galois::flat_map<int, int> D;
  std::unique_ptr<D> d;
  const char* adt() { return "map"; }
  std::string params() { return "\"cap\":0,\"chunk\":0,\"bidir\":true"; }
  long liveBase() { return g_live.size(); }
  void reset() { d.reset(new D()); }
  bool grows(const Op& o) { return o.name[0] == 'i'; }
  void ops(std::vector<Op>& c, int step) {
    long v = step + 1;
    for (long k = 1; k <= 4; ++k) {
      c.push_back({"insert", k, v});
      c.push_back({"erase", k, 0});
      c.push_back({"find", k, 0});
      c.push_back({"index", k, 0});
      c.push_back({"setidx", k, v});
      c.push_back({"at", k, 0});
      c.push_back({"lower", k, 0});
    }
    c.push_back({"lower", 5, 0});
    c.push_back({"lower", 0, 0});
    if (d->size()) c.push_back({"erasepos", 0, (long)(d->size() / 2)});
    // range insertion of keys 1..20 (then key 2 once more): keys already present keep their value, of equal keys the first wins
    if (d->size() <= 4) c.push_back({"insrange", 20, v});
    c.push_back({"clear", 0, 0});
    c.push_back({"size", 0, 0});
    c.push_back({"copy", 0, 0});
    c.push_back({"move", 0, 0});
  }
  std::string apply(const Op& o) {
    std::string n = o.name;
    if (n == "insert") { auto r = d->insert(std::make_pair((int)o.a, (int)o.b)); return "\"res\":[" + std::to_string(r.second ? 1 : 0) + "," + std::to_string(r.first->first) + "," + std::to_string(r.first->second) + "]"; }
    if (n == "erase") return resv(d->erase((int)o.a));
    if (n == "find") { auto i = d->find((int)o.a); return i == d->end() ? resv() : resv(i->second); }
    if (n == "index") return resv((*d)[(int)o.a]);
    if (n == "setidx") { (*d)[(int)o.a] = (int)o.b; return resv(); }
    if (n == "at") { try { return resv(d->at((int)o.a)); } catch (std::out_of_range&) { return resv(); } }
    if (n == "lower") { auto i = d->lower_bound((int)o.a); return i == d->end() ? resv() : resv(i->first); }
    if (n == "erasepos") { d->erase(d->begin() + o.b); return resv(); }
    if (n == "insrange") {
      std::vector<std::pair<int, int>> r;
      for (int k = 1; k <= (int)o.a; ++k) r.push_back({k, (int)o.b});
      r.push_back({2, (int)o.b + 1});
      d->insert(r.begin(), r.end());
      return resv();
    }
    if (n == "clear") { d->clear(); return resv(); }
    if (n == "size") return "\"res\":[" + std::to_string(d->size()) + "," + std::to_string(d->empty() ? 1 : 0) + "]";
    if (n == "copy") { std::unique_ptr<D> e(new D(*d)); d = std::move(e); return resv(); }
    if (n == "move") { std::unique_ptr<D> e(new D(std::move(*d))); d = std::move(e); return resv(); }
    return resv();
  }
  std::string observe() {
    VL k, v, rk;
    for (auto it = d->begin(); it != d->end(); ++it) { k.push_back(it->first); v.push_back(it->second); }
    for (auto it = d->rbegin(); it != d->rend(); ++it) rk.push_back(it->first);
    return obsList("keys", k) + "," + obsList("vals", v) + "," + obsList("rkeys", rk);
  }
};

// ------------------------------------------------------------------ priority queues
template <typename D, bool IsSet>
struct PQA {
  std::unique_ptr<D> d;
  const char* adt() { return IsSet ? "oset" : "heap"; }
  std::string params() { return "\"cap\":0,\"chunk\":0,\"bidir\":false"; }
  long liveBase() { return g_live.size(); }
  void reset() { d.reset(new D()); }
  bool grows(const Op& o) { return o.name[0] == 'p' && o.name[1] == 'u'; }
  void ops(std::vector<Op>& c, int step) {
    long hi = g_wide ? 12 : 4;   // random walks use a wider value domain (larger heaps with distinct keys)
    for (long v = 1; v <= hi; ++v) { c.push_back({"push", v, 0}); if (v <= 4) c.push_back({"find", v, 0}); }
    if (d->size()) { c.push_back({"pop", 0, 0}); c.push_back({"top", 0, 0}); }
    if (d->size()) for (long v = 1; v <= hi; ++v) c.push_back({"remove", v, 0});
    c.push_back({"clear", 0, 0});
    c.push_back({"size", 0, 0});
    c.push_back({"fromrange", 0, 0});
  }
  template <bool S = IsSet>
  typename std::enable_if<S, std::string>::type push(int x) { return resv(d->push(x) ? 1 : 0); }
  template <bool S = IsSet>
  typename std::enable_if<!S, std::string>::type push(int x) { d->push(x); return resv(1); }
  std::string apply(const Op& o) {
    std::string n = o.name;
    if (n == "push") return push((int)o.a);
    if (n == "find") return resv(d->find((int)o.a) ? 1 : 0);
    if (n == "pop") return resv(d->pop());
    if (n == "top") return resv(d->top());
    if (n == "remove") {
      // only exercised when the value occurs at most once (the multi-occurrence meaning is unspecified)
      int cnt = 0;
      for (auto it = d->begin(); it != d->end(); ++it) if (*it == (int)o.a) ++cnt;
      if (cnt > 1) return "\"res\":[-1]";
      return resv(d->remove((int)o.a) ? 1 : 0);
    }
    if (n == "clear") { d->clear(); return resv(); }
    if (n == "size") return "\"res\":[" + std::to_string(d->size()) + "," + std::to_string(d->empty() ? 1 : 0) + "]";
    if (n == "fromrange") { std::vector<int> v(d->begin(), d->end()); d.reset(new D(v.begin(), v.end())); return resv(); }
    return resv();
  }
  std::string observe() {
    VL f(d->begin(), d->end());
    std::sort(f.begin(), f.end());
    return obsList("items", f);
  }
};

// ------------------------------------------------------------------ lazy storage life cycle
struct LazyA {
  static const unsigned N = 3;
  galois::LazyArray<Elem, N>* arr = nullptr;
  galois::LazyObject<Elem>* obj = nullptr;
  galois::optional<Elem>* opt = nullptr;
  bool on[N] = {false, false, false};
  bool objOn = false;
  long base = 0;
  const char* adt() { return "lazy"; }
  std::string params() { return "\"cap\":3,\"chunk\":0,\"bidir\":false"; }
  long liveBase() { return base; }
  void reset() {
    if (arr) { for (unsigned i = 0; i < N; ++i) if (on[i]) arr->destroy(i); delete arr; }
    if (obj) { if (objOn) obj->destroy(); delete obj; }
    delete opt;
    for (auto& b : on) b = false;
    objOn = false;
    base = g_live.size();
    arr = new galois::LazyArray<Elem, N>();
    obj = new galois::LazyObject<Elem>();
    opt = new galois::optional<Elem>();
  }
  bool grows(const Op& o) { return o.name[0] == 'c' || o.name[0] == 'o'; }
  void ops(std::vector<Op>& c, int step) {
    long v = step + 1;
    for (unsigned i = 0; i < N; ++i) {
      if (!on[i]) { c.push_back({"construct", v, (long)i}); c.push_back({"emplace", v, (long)i}); }
      else { c.push_back({"destroy", 0, (long)i}); c.push_back({"get", 0, (long)i}); }
    }
    if (!objOn) c.push_back({"oconstruct", v, 0});
    else { c.push_back({"odestroy", 0, 0}); c.push_back({"oget", 0, 0}); }
    c.push_back({"optset", v, 0});
    c.push_back({"optreset", 0, 0});
    c.push_back({"optget", 0, 0});
    c.push_back({"optcopy", 0, 0});
  }
  std::string apply(const Op& o) {
    std::string n = o.name;
    if (n == "construct") { arr->construct(o.b, Elem((int)o.a)); on[o.b] = true; return resv(); }
    if (n == "emplace") { arr->emplace(o.b, (int)o.a); on[o.b] = true; return resv(); }
    if (n == "destroy") { arr->destroy(o.b); on[o.b] = false; return resv(); }
    if (n == "get") return resv(val((*arr)[o.b]));
    if (n == "oconstruct") { obj->construct((int)o.a); objOn = true; return resv(); }
    if (n == "odestroy") { obj->destroy(); objOn = false; return resv(); }
    if (n == "oget") return resv(val(obj->get()));
    if (n == "optset") { *opt = Elem((int)o.a); return resv(); }
    if (n == "optreset") { *opt = galois::optional<Elem>(); return resv(); }
    if (n == "optget") return opt->is_initialized() ? resv(val(**opt)) : resv();
    if (n == "optcopy") { galois::optional<Elem> c(*opt); return c.is_initialized() ? resv(val(*c)) : resv(); }
    return resv();
  }
  std::string observe() {
    VL f;
    for (unsigned i = 0; i < N; ++i) f.push_back(on[i] ? val((*arr)[i]) : 0);
    f.push_back(objOn ? val(obj->get()) : 0);
    f.push_back(opt->is_initialized() ? val(**opt) : 0);
    return obsList("slots", f);
  }
};

// ------------------------------------------------------------------ two-level iterators, LargeArray (one-shot cases)
static void twoLevelCases(vh::Rng& rng, bool thorough) {
  // all nested shapes with <= 4 inner containers of sizes 0..2 (thorough: 0..3)
  int maxInner = thorough ? 3 : 2;
  std::vector<std::vector<int>> shapes;
  std::function<void(std::vector<int>&)> rec = [&](std::vector<int>& s) {
    shapes.push_back(s);
    if (s.size() == 4) return;
    for (int k = 0; k <= maxInner; ++k) { s.push_back(k); rec(s); s.pop_back(); }
  };
  std::vector<int> s0;
  rec(s0);
  for (auto& sh : shapes) {
    std::vector<std::vector<int>> nested;
    int v = 0;
    VL flat;
    for (int k : sh) { std::vector<int> in; for (int i = 0; i < k; ++i) { in.push_back(++v); flat.push_back(v); } nested.push_back(in); }
    VL fwdA, bwdA, fwdB, bwdB, dists, jv, jd;
    {
      auto p = galois::make_two_level_iterator<std::bidirectional_iterator_tag>(nested.begin(), nested.end());
      for (auto it = p.first; it != p.second; ++it) fwdA.push_back(*it);
      for (auto it = p.second; it != p.first;) { --it; bwdA.push_back(*it); }
      auto q = galois::make_two_level_iterator<std::random_access_iterator_tag>(nested.begin(), nested.end());
      dists.push_back(std::distance(q.first, q.second));
      if (!flat.empty()) { auto it = q.first; std::advance(it, (long)flat.size() / 2); dists.push_back(*it); } else dists.push_back(0);
      // random-access jumps between every pair of positions (forwards and backwards, from and to the end); a jump that
      // does not land where single steps lead is logged as -1 and never dereferenced
      long t = (long)flat.size();
      std::vector<decltype(q.first)> refs;
      { auto it = q.first; for (long i = 0; i <= t; ++i) { refs.push_back(it); if (i < t) ++it; } }
      for (long i = 0; i <= t; ++i)
        for (long j = 0; j <= t; ++j) {
          auto it = refs[i];
          it += (j - i);
          jv.push_back(it == refs[j] ? (j == t ? 0 : *it) : -1);
          jd.push_back(refs[j] - refs[i]);
        }
    }
    {
      auto p = galois::stl_two_level_begin(nested.begin(), nested.end());
      auto e = galois::stl_two_level_end(nested.begin(), nested.end());
      for (auto it = p; it != e; ++it) fwdB.push_back(*it);
      for (auto it = e; it != p;) { --it; bwdB.push_back(*it); }
    }
    std::string body = "\"op\":\"twolevel\",\"a\":0,\"b\":0,\"res\":" + vh::jarr(dists) + "," + obsList("shape", sh) + "," +
                       obsList("fwd", fwdA) + "," + obsList("bwd", bwdA) + "," + obsList("fwd2", fwdB) + "," +
                       obsList("bwd2", bwdB) + "," + obsList("jv", jv) + "," + obsList("jd", jd) + ",\"live\":0,\"bad\":0,\"c\":\"TwoLevelIterator\",\"adt\":\"twolevel\"";
    addNode(1, body);
  }
}

static void largeArrayCases() {
  for (int kind = 0; kind < 4; ++kind)
    for (size_t n : {0ul, 1ul, 2ul, 5ul, 1000ul, 70000ul}) {
      galois::LargeArray<int> a;
      switch (kind) {
      case 0: a.allocateInterleaved(n); break;
      case 1: a.allocateBlocked(n); break;
      case 2: a.allocateLocal(n); break;
      default: a.allocateFloating(n); break;
      }
      for (size_t i = 0; i < n; ++i) a.constructAt(i, (int)(i % 97));
      long long sum = 0, cnt = 0, rsum = 0;
      for (auto it = a.begin(); it != a.end(); ++it) { sum += *it; ++cnt; }
      for (size_t i = n; i > 0; --i) rsum += a[i - 1];
      long long want = 0;
      for (size_t i = 0; i < n; ++i) want += i % 97;
      VL r = {(long long)a.size(), cnt, sum == want ? 1 : 0, rsum == want ? 1 : 0,
              (long long)(((uintptr_t)a.data()) % 8)};
      std::string body = "\"op\":\"largearray\",\"a\":" + std::to_string(kind) + ",\"b\":" + std::to_string(n % 100000) +
                         ",\"res\":" + vh::jarr(r) + ",\"live\":0,\"bad\":0,\"c\":\"LargeArray\",\"adt\":\"largearray\"";
      addNode(1, body);
      a.destroy();
      a.deallocate();
    }
}

// ------------------------------------------------------------------ main
template <typename A>
static void runComp(const std::string& name, vh::Rng& rng, int depth, long budget, int walks, int len) {
  Explorer<A> ex(rng, budget);
  ex.exhaustive(name, depth);
  ex.randomWalks(name, walks, len);
}

int main(int argc, char** argv) {
  if (argc < 5) { fprintf(stderr, "usage: containers comp out seed tier\n"); return 2; }
  std::string comp = argv[1];
  g_outpath = argv[2];
  vh::Rng rng(strtoull(argv[3], 0, 10));
  bool th = std::string(argv[4]) == "thorough";
  galois::SharedMemSys G;
  galois::setActiveThreads(1);
  signal(SIGSEGV, onCrash); signal(SIGBUS, onCrash); signal(SIGABRT, onCrash); signal(SIGFPE, onCrash);
  addNode(0, "\"op\":\"root\",\"a\":0,\"b\":0,\"res\":[],\"live\":0,\"bad\":0");
  long B = th ? 400000 : 60000;
  int W = th ? 600 : 120;
#define COMP(NAME, TYPE, DEPTH, LEN) if (comp == "all" || comp == NAME) runComp<TYPE>(NAME, rng, DEPTH, B, W, LEN);
  COMP("gdeque<1>", DequeA<1>, th ? 6 : 5, 14)
  COMP("gdeque<2>", DequeA<2>, th ? 6 : 5, 18)
  COMP("gdeque<3>", DequeA<3>, th ? 6 : 5, 24)
  COMP("gdeque<4>", DequeA<4>, 4, 30)
  COMP("FixedSizeRing<1>", RingA<1>, 5, 10)
  COMP("FixedSizeRing<2>", RingA<2>, 5, 14)
  COMP("FixedSizeRing<3>", RingA<3>, th ? 6 : 5, 18)
  COMP("FixedSizeRing<4>", RingA<4>, 5, 24)
  COMP("gslist<1>", SListA<1>, th ? 8 : 7, 14)
  COMP("gslist<2>", SListA<2>, th ? 8 : 7, 18)
  COMP("gslist<3>", SListA<3>, th ? 8 : 7, 24)
  COMP("PODResizeableArray", PODA, 4, 24)
  typedef FBagA<1, false> FB1; typedef FBagA<2, false> FB2; typedef FBagA<3, false> FB3;
  typedef FBagA<2, true> CFB2; typedef FBagA<3, true> CFB3;
  COMP("FixedSizeBag<1>", FB1, 6, 10)
  COMP("FixedSizeBag<2>", FB2, 6, 12)
  COMP("FixedSizeBag<3>", FB3, 6, 16)
  COMP("ConcurrentFixedSizeBag<2>", CFB2, 6, 12)
  COMP("ConcurrentFixedSizeBag<3>", CFB3, 6, 16)
  // InsertBag block sizes chosen so that a block holds 1, 2 and 4 elements after the header
  COMP("InsertBag<48>", IBagA<48>, th ? 8 : 7, 16)
  COMP("InsertBag<56>", IBagA<56>, th ? 8 : 7, 20)
  COMP("InsertBag<0>", IBagA<0>, 5, 12)
  COMP("flat_map", FlatMapA, 3, 30)
  typedef PQA<galois::MinHeap<int>, false> MH; typedef PQA<galois::ThreadSafeMinHeap<int>, false> TMH;
  typedef PQA<galois::ThreadSafeOrderedSet<int>, true> TOS;
  COMP("MinHeap", MH, 4, 48)
  COMP("ThreadSafeMinHeap", TMH, 4, 48)
  COMP("ThreadSafeOrderedSet", TOS, 4, 40)
  COMP("Lazy", LazyA, 4, 24)
  if (comp == "all" || comp == "TwoLevelIterator") twoLevelCases(rng, th);
  if (comp == "all" || comp == "LargeArray") largeArrayCases();
  flushTree(nullptr);
  fprintf(stderr, "containers[%s]: %zu nodes\n", comp.c_str(), nodes.size());
  return 0;
}
