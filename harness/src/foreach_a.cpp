// for_each over the chunked worklist family (global / per-socket, FIFO / LIFO / bag, small chunks)
#include "vh/foreach_harness.h"
namespace W = galois::worklists;
int main(int argc, char** argv) {
  fe::Args a = fe::parse(argc, argv);
  vh::EventLog log(a.out.c_str());
  fe::L = &log;
  galois::SharedMemSys G;
  vh::Rng rng(a.seed);
#ifdef VERIF_FLAVOUR_C
  verif::on_abort(fe::onAbort);
#endif
  fe::campaign<W::ChunkFIFO<1>>("ChunkFIFO<1>", a, rng);
  fe::campaign<W::ChunkFIFO<3>>("ChunkFIFO<3>", a, rng);
  fe::campaign<W::ChunkLIFO<2>>("ChunkLIFO<2>", a, rng);
  fe::campaign<W::PerSocketChunkFIFO<1>>("PerSocketChunkFIFO<1>", a, rng);
  fe::campaign<W::PerSocketChunkFIFO<2>>("PerSocketChunkFIFO<2>", a, rng);
  fe::campaign<W::PerSocketChunkLIFO<2>>("PerSocketChunkLIFO<2>", a, rng);
  fe::campaign<W::PerSocketChunkBag<2>>("PerSocketChunkBag<2>", a, rng);
  fe::campaign<W::PerSocketChunkFIFO<64>>("PerSocketChunkFIFO<64>", a, rng);
  fprintf(stderr, "foreach_a: %ld events\n", log.total);
  return 0;
}
