SPECIFICATION Spec
CONSTANTS Threads = {1, 2} Tags = {1, 2} SplitAtTag = FALSE Plan <- PlanA
INVARIANTS InOrderExactlyOnce Conservation
PROPERTY AllDelivered
CHECK_DEADLOCK FALSE
