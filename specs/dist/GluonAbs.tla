---------------------------------- MODULE GluonAbs ----------------------------------
(***************************************************************************)
(* Property-level meaning of a Gluon sync (C18).  Before the operator runs  *)
(* every master holds mval(g); a proxy that is going to be written holds   *)
(* the field's identity if it is a mirror of an add (delta) field, or the  *)
(* value of the last broadcast (min / max).  Contributions c are folded    *)
(* into proxies eligible for the write location; after sync<W, R, Reduce>  *)
(* every proxy readable at R holds Reduce(mval(g), all contributions to g);*)
(* a node nobody contributed to is left alone (each proxy keeps what it    *)
(* had) or refreshed with the master's value.                              *)
(***************************************************************************)
EXTENDS Integers, Sequences, FiniteSets
Op(f, a, b) == CASE f = 0 -> IF a < b THEN a ELSE b      \* min
                 [] f = 1 -> a + b                        \* add
                 [] f = 2 -> IF a > b THEN a ELSE b       \* max
                 [] f = 3 -> b                            \* set (at most one contribution per node and round)
\* acc: function gid -> <<has contribution, folded contributions>>
NoAcc(n) == [g \in 0..(n - 1) |-> <<FALSE, 0>>]
Contribute(acc, f, g, c) == [acc EXCEPT ![g] = IF @[1] THEN <<TRUE, Op(f, @[2], c)>> ELSE <<TRUE, c>>]
Expected(acc, f, g, m0) == IF acc[g][1] THEN Op(f, m0, acc[g][2]) ELSE m0
Readable(r, hasOut, hasIn) == CASE r = 0 -> hasOut = 1 [] r = 1 -> hasIn = 1 [] OTHER -> TRUE
\* px = <<gid, owned, hasOut, hasIn, value before the operator, value after the sync>>; mval: gid -> master's value before
ProxyOK(acc, f, r, mval, px) ==
  ~Readable(r, px[3], px[4]) \/
  (IF acc[px[1]][1] THEN px[6] = Expected(acc, f, px[1], mval[px[1]])
   ELSE px[6] = px[5] \/ px[6] = mval[px[1]])
=============================================================================
