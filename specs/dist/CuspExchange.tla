---------------------------------- MODULE CuspExchange ----------------------------------
(***************************************************************************)
(* Implementation-level model of CuSP's edge exchange (libcusp/include/    *)
(* galois/graphs/NewGeneric.h: edgeInspection / sendInspectionData /       *)
(* sendEdges / receiveEdges).  Every host reads a slice of the source      *)
(* nodes; the policy names an owner host for every edge.  Inspection: the  *)
(* reader counts, per other host, the source nodes that have at least one  *)
(* edge owned there, and tells that host; a host therefore knows how many  *)
(* node records it will receive (nodesToReceive).  Sending: per source     *)
(* node and owner a record (source, its edges owned there) goes into the   *)
(* buffer for that host; buffers are sent when they are large or at the    *)
(* end; edges owned by the reader itself are stored directly.  Receiving:  *)
(* a host takes buffers in any order and stops as soon as it has seen      *)
(* nodesToReceive records.  CountPerEdge = TRUE is the mutant in which the *)
(* inspection counts edges instead of source nodes.                        *)
(***************************************************************************)
EXTENDS Integers, Sequences, FiniteSets
CONSTANTS Hosts, Nodes, Reader, EdgeSet, CountPerEdge
\* Reader[n]: host that reads source node n; EdgeSet: set of <<src, dst, owner>>
VARIABLES toSend,      \* reader -> set of <<src, owner>> records not yet put into a buffer
          buffer,      \* <<reader, owner>> -> set of records (src) waiting in the send buffer
          net,         \* set of messages <<owner, set of records <<reader, src>>>> in flight
          stored,      \* host -> set of edges it has stored
          received,    \* host -> number of node records received
          finished     \* host -> its receive loop has ended
vars == <<toSend, buffer, net, stored, received, finished>>
OwnedBy(n, o) == {e \in EdgeSet : e[1] = n /\ e[3] = o}
Records(r) == {<<n, o>> \in Nodes \X Hosts : Reader[n] = r /\ o # r /\ OwnedBy(n, o) # {}}
\* what the inspection phase tells host o to expect
ToReceive(o) == IF CountPerEdge THEN Cardinality({e \in EdgeSet : e[3] = o /\ Reader[e[1]] # o})
                ELSE Cardinality(UNION {{rec \in Records(r) : rec[2] = o} : r \in Hosts \ {o}})
Init == /\ toSend = [r \in Hosts |-> Records(r)]
        /\ buffer = [p \in Hosts \X Hosts |-> {}] /\ net = {}
        /\ stored = [h \in Hosts |-> {e \in EdgeSet : Reader[e[1]] = h /\ e[3] = h}]     \* own edges are kept directly
        /\ received = [h \in Hosts |-> 0] /\ finished = [h \in Hosts |-> FALSE]
Enqueue(r, rec) == /\ rec \in toSend[r] /\ toSend' = [toSend EXCEPT ![r] = @ \ {rec}]
                   /\ buffer' = [buffer EXCEPT ![<<r, rec[2]>>] = @ \cup {rec[1]}] /\ UNCHANGED <<net, stored, received, finished>>
\* a buffer is sent when it is large enough or at the end of the reader's loop: any non-empty buffer may go
Flush(r, o) == /\ buffer[<<r, o>>] # {} /\ net' = net \cup {<<o, {<<r, n>> : n \in buffer[<<r, o>>]}>>}
               /\ buffer' = [buffer EXCEPT ![<<r, o>>] = {}] /\ UNCHANGED <<toSend, stored, received, finished>>
Receive(o, m) == /\ m \in net /\ m[1] = o /\ ~finished[o] /\ net' = net \ {m}
                 /\ stored' = [stored EXCEPT ![o] = @ \cup UNION {OwnedBy(rec[2], o) : rec \in m[2]}]
                 /\ received' = [received EXCEPT ![o] = @ + Cardinality(m[2])] /\ UNCHANGED <<toSend, buffer, finished>>
Finish(o) == /\ ~finished[o] /\ received[o] >= ToReceive(o) /\ finished' = [finished EXCEPT ![o] = TRUE]
             /\ UNCHANGED <<toSend, buffer, net, stored, received>>
Next == \/ \E r \in Hosts : (\E rec \in Nodes \X Hosts : Enqueue(r, rec)) \/ (\E o \in Hosts : Flush(r, o))
        \/ \E o \in Hosts : Finish(o) \/ (\E m \in net : Receive(o, m))
Spec == Init /\ [][Next]_vars /\ WF_vars(Next)
\* ---- properties (C19: every edge exactly once, at its owner)
OnlyOwn == \A h \in Hosts : \A e \in stored[h] : e[3] = h
Complete == \A h \in Hosts : finished[h] => stored[h] = {e \in EdgeSet : e[3] = h}
AllFinish == <>(\A h \in Hosts : finished[h])
=============================================================================
