---------------------------------- MODULE MCCuspExchange ----------------------------------
EXTENDS CuspExchange, TLC
ReaderA == (0 :> 0 @@ 1 :> 0 @@ 2 :> 1 @@ 3 :> 2)
\* node 0 has two edges owned by host 1 (one record, two edges), node 2 sends to both other hosts, node 3 keeps its edge
EdgesA == {<<0, 1, 1>>, <<0, 2, 1>>, <<0, 3, 0>>, <<1, 0, 2>>, <<2, 0, 0>>, <<2, 3, 2>>, <<3, 3, 2>>}
=============================================================================
