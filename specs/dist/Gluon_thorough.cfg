SPECIFICATION Spec
CONSTANTS Hosts = {0, 1, 2, 3} Master = 0 Field = "add" Vals = {1, 2} M0 = 5 EligibleW = {1, 2, 3} ReadableR = {0, 2, 3} DropReset = FALSE
INVARIANT Agreement
PROPERTY Terminates
CHECK_DEADLOCK FALSE
