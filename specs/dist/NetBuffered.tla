---------------------------------- MODULE NetBuffered ----------------------------------
(***************************************************************************)
(* Implementation-level model of NetworkInterfaceBuffered for one (source, *)
(* destination) pair (libdist/src/NetworkBuffered.cpp):                    *)
(*  - sender threads add tagged messages to sendData[dst].messages (add);  *)
(*  - the source's communication thread assembles the longest prefix of    *)
(*    messages carrying the front message's tag into one length-prefixed   *)
(*    chunk (assemble: the prefix is counted under the lock, the messages  *)
(*    are then popped one at a time while senders keep adding) and hands   *)
(*    the chunk to MPI (non-overtaking per pair of hosts);                 *)
(*  - the destination's communication thread appends arriving chunks to    *)
(*    recvData[src] (add);                                                 *)
(*  - application threads poll recieveTagged(tag): it succeeds only if the *)
(*    FRONT chunk carries that tag (head-of-line blocking) and then splits *)
(*    the next message off it (popMsg).                                    *)
(* SplitAtTag = FALSE is the mutant in which assemble() ignores the tag    *)
(* boundary.                                                               *)
(***************************************************************************)
EXTENDS Integers, Sequences, FiniteSets, SequencesExt
CONSTANTS Threads, Plan, Tags, SplitAtTag     \* Plan[t] = sequence of <<id, tag>> thread t sends
VARIABLES pending, sendq, asm, wire, recvq, sentOrder, delivered
vars == <<pending, sendq, asm, wire, recvq, sentOrder, delivered>>
NoAsm == [count |-> 0, tag |-> 0, msgs |-> <<>>]
Init == /\ pending = Plan /\ sendq = <<>> /\ asm = NoAsm /\ wire = <<>> /\ recvq = <<>>
        /\ sentOrder = [g \in Tags |-> <<>>] /\ delivered = [g \in Tags |-> <<>>]
\* sendTagged -> sendBuffer::add (under the buffer lock: atomic)
Add(t) == /\ pending[t] # <<>>
          /\ LET m == Head(pending[t]) IN
               /\ sendq' = Append(sendq, m) /\ sentOrder' = [sentOrder EXCEPT ![m[2]] = Append(@, m[1])]
          /\ pending' = [pending EXCEPT ![t] = Tail(@)] /\ UNCHANGED <<asm, wire, recvq, delivered>>
\* assemble(), first critical section: count the prefix with the front tag
RECURSIVE PrefixLen(_, _)
PrefixLen(q, tag) == IF q = <<>> \/ (SplitAtTag /\ q[1][2] # tag) THEN 0 ELSE 1 + PrefixLen(Tail(q), tag)
AsmStart == /\ asm.count = 0 /\ sendq # <<>>
            /\ asm' = [count |-> PrefixLen(sendq, sendq[1][2]), tag |-> sendq[1][2], msgs |-> <<>>]
            /\ UNCHANGED <<pending, sendq, wire, recvq, sentOrder, delivered>>
\* assemble(), loop body: copy the front message (lock released), pop it (lock re-taken)
AsmStep == /\ asm.count > 0 /\ Len(asm.msgs) < asm.count
           /\ asm' = [asm EXCEPT !.msgs = Append(@, Head(sendq))] /\ sendq' = Tail(sendq)
           /\ UNCHANGED <<pending, wire, recvq, sentOrder, delivered>>
\* the chunk goes to MPI
AsmEnd == /\ asm.count > 0 /\ Len(asm.msgs) = asm.count
          /\ wire' = Append(wire, [tag |-> asm.tag, msgs |-> asm.msgs]) /\ asm' = NoAsm
          /\ UNCHANGED <<pending, sendq, recvq, sentOrder, delivered>>
\* destination communication thread: dequeue from MPI, recvBuffer::add
Arrive == /\ wire # <<>> /\ recvq' = Append(recvq, Head(wire)) /\ wire' = Tail(wire)
          /\ UNCHANGED <<pending, sendq, asm, sentOrder, delivered>>
\* recieveTagged(tag) that returns a message
Recv(g) == /\ recvq # <<>> /\ recvq[1].tag = g
           /\ LET c == recvq[1] m == Head(c.msgs) IN
                /\ delivered' = [delivered EXCEPT ![g] = Append(@, m)]
                /\ recvq' = IF Len(c.msgs) = 1 THEN Tail(recvq) ELSE <<[c EXCEPT !.msgs = Tail(@)]>> \o Tail(recvq)
           /\ UNCHANGED <<pending, sendq, asm, wire, sentOrder>>
Next == (\E t \in Threads : Add(t)) \/ AsmStart \/ AsmStep \/ AsmEnd \/ Arrive \/ (\E g \in Tags : Recv(g))
Spec == Init /\ [][Next]_vars /\ WF_vars(AsmStart) /\ WF_vars(AsmStep) /\ WF_vars(AsmEnd) /\ WF_vars(Arrive)
             /\ \A g \in Tags : WF_vars(Recv(g)) /\ \A t \in Threads : WF_vars(Add(t))

\* ---- properties (C17, network half) ----
\* exactly once, in order, under the tag it was sent with: what was received on a tag is a prefix of what was sent on it
IdsOf(s) == [i \in 1..Len(s) |-> s[i][1]]
InOrderExactlyOnce == \A g \in Tags : /\ IsPrefix(IdsOf(delivered[g]), sentOrder[g])
                                      /\ \A i \in 1..Len(delivered[g]) : delivered[g][i][2] = g
\* nothing is created: every queued message was sent
Conservation == Len(sendq) + Len(asm.msgs) <= Cardinality(UNION {{Plan[t][i] : i \in 1..Len(Plan[t])} : t \in Threads})
\* with a receiver that keeps polling every tag, everything sent arrives
AllDelivered == <>(\A g \in Tags : Len(delivered[g]) = Cardinality({x \in UNION {{Plan[t][i] : i \in 1..Len(Plan[t])} : t \in Threads} : x[2] = g}))
=============================================================================
