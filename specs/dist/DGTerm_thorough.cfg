SPECIFICATION Spec
CONSTANTS H = 3 MaxMsgs = 2 CheckRecvFirst = FALSE ForgetWork = FALSE AssumeCausal = TRUE
INVARIANTS SafeTermination SameRound Bounded
PROPERTY AllTerminate
CHECK_DEADLOCK FALSE
