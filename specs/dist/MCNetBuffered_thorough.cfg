SPECIFICATION Spec
CONSTANTS Threads = {1, 2, 3} Tags = {1, 2} SplitAtTag = TRUE Plan <- PlanB
INVARIANTS InOrderExactlyOnce Conservation
PROPERTY AllDelivered
CHECK_DEADLOCK FALSE
