------------------------------- MODULE MCGluonAsync -------------------------------
(* Instances for GluonAsync: a 4-node graph cut over 2 hosts so that every edge crosses a host boundary in one of the two
   directions (reduce and broadcast are both needed), and a 3-host instance. *)
EXTENDS GluonAsync
E2 == {<<0, 1>>, <<1, 2>>, <<2, 3>>, <<0, 3>>, <<3, 1>>}
Own2 == (<<0, 1>> :> 0) @@ (<<1, 2>> :> 1) @@ (<<2, 3>> :> 0) @@ (<<0, 3>> :> 1) @@ (<<3, 1>> :> 0)
Master2 == (0 :> 0) @@ (1 :> 1) @@ (2 :> 0) @@ (3 :> 1)
E3 == {<<0, 1>>, <<1, 2>>, <<2, 0>>, <<0, 2>>}
Own3 == (<<0, 1>> :> 1) @@ (<<1, 2>> :> 2) @@ (<<2, 0>> :> 0) @@ (<<0, 2>> :> 1)
Master3 == (0 :> 0) @@ (1 :> 1) @@ (2 :> 2)
=============================================================================
