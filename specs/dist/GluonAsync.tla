-------------------------------- MODULE GluonAsync --------------------------------
(***************************************************************************)
(* Implementation-shaped model of the bulk-asynchronous execution          *)
(* (--exec=Async) of a distributed label-correcting application (bfs /     *)
(* sssp / cc push: a min field) on Gluon:                                  *)
(*                                                                         *)
(*   do { dga.reset();                                                     *)
(*        operator over the local proxies whose value dropped (relax the   *)
(*          local out-edges, set the update bit of every lowered proxy);   *)
(*        sync<..., async>():                                              *)
(*          reduce send    - to the master's host of every mirror whose    *)
(*                           bit is set; NO message if nothing is selected *)
(*                           (syncNetSend: `(!async) || b.size() > 0`);    *)
(*          reduce receive - whatever has arrived is folded in with min;   *)
(*                           a master that dropped gets its bit set;       *)
(*          broadcast send - masters whose bit is set, to their mirrors;   *)
(*          broadcast recv - whatever has arrived, applied with min        *)
(*                           (setWrapper: async broadcast reduces);        *)
(*          bits of what was sent are cleared;                             *)
(*   } while (!dga.terminate());                                           *)
(*                                                                         *)
(* Messages travel independently (wire -> inbox is a separate step); a     *)
(* host only sees its inbox.  The termination detector is abstracted by    *)
(* its contract (DGTerm.tla verifies the detector itself): the loop ends   *)
(* once every host's last iteration did no work, sent and received         *)
(* nothing, and no message is anywhere - and not before.                   *)
(*                                                                         *)
(*   Correct    : at the end every proxy holds the true distance           *)
(*   Terminates : the loop ends                                            *)
(*                                                                         *)
(* Dense = TRUE models an enforced dense encoding (--metadata=none,        *)
(* onlyData): every mirror / master value is sent in every sync whether    *)
(* flagged or not.  Then every iteration receives something, no host is    *)
(* ever idle and TLC reports that Terminates is violated: this is known    *)
(* finding D17 of C20 at design level (GluonAsync_dense.cfg, expected to   *)
(* be rejected).  NoBitOnReduce = TRUE is a mutant: a master lowered by a  *)
(* reduce does not get its update bit, so the broadcast never carries the  *)
(* new value and the other hosts finish with stale mirrors.                *)
(***************************************************************************)
EXTENDS Integers, FiniteSets, Sequences, TLC
CONSTANTS Hosts, Nodes, Edges, EOwner, MasterOf, Source, Dense, NoBitOnReduce
\* Edges \subseteq Nodes \X Nodes; EOwner \in [Edges -> Hosts]; MasterOf \in [Nodes -> Hosts]
INF == Cardinality(Nodes) + 1
Min(a, b) == IF a < b THEN a ELSE b
Proxies(h) == {v \in Nodes : MasterOf[v] = h \/ \E e \in Edges : EOwner[e] = h /\ (e[1] = v \/ e[2] = v)}
MirrorsOn(h, x) == {v \in Proxies(h) : MasterOf[v] = x}            \* mirrors on h whose master is on x (x # h)
Chans == {c \in Hosts \X Hosts : c[1] # c[2]}
VARIABLES dist, old, bit, rwire, rinbox, bwire, binbox, active, done
vars == <<dist, old, bit, rwire, rinbox, bwire, binbox, active, done>>
Init == /\ dist = [h \in Hosts |-> [v \in Nodes |-> IF v = Source /\ v \in Proxies(h) THEN 0 ELSE INF]]
        /\ old = [h \in Hosts |-> [v \in Nodes |-> INF]]
        /\ bit = [h \in Hosts |-> [v \in Nodes |-> FALSE]]
        /\ rwire = [c \in Chans |-> {}] /\ rinbox = [c \in Chans |-> {}]
        /\ bwire = [c \in Chans |-> {}] /\ binbox = [c \in Chans |-> {}]
        /\ active = [h \in Hosts |-> TRUE] /\ done = FALSE
\* ---- one iteration of the application loop on host h
\* the operator: every local proxy whose value dropped relaxes the local out-edges (one bulk step: the relaxations commute)
Front(h) == {v \in Proxies(h) : dist[h][v] < old[h][v]}
Relaxed(h, w) == LET cands == {dist[h][e[1]] + 1 : e \in {e \in Edges : EOwner[e] = h /\ e[2] = w /\ e[1] \in Front(h)}}
                 IN IF cands = {} THEN dist[h][w]
                    ELSE Min(dist[h][w], CHOOSE m \in cands : \A k \in cands : m <= k)
\* apply a set of messages (each a function from a node set to values) with min
ApplyAll(d, msgs) == [v \in Nodes |-> LET vals == {m[v] : m \in {m \in msgs : v \in DOMAIN m}}
                                      IN IF vals = {} THEN d[v] ELSE Min(d[v], CHOOSE x \in vals : \A y \in vals : x <= y)]
Iter(h) ==
  /\ ~done
  /\ LET d1 == [w \in Nodes |-> IF w \in Proxies(h) THEN Relaxed(h, w) ELSE dist[h][w]]
         worked == Front(h) # {}
         b1 == [w \in Nodes |-> bit[h][w] \/ d1[w] < dist[h][w]]
         \* reduce send
         rsel(x) == IF Dense THEN MirrorsOn(h, x) ELSE {v \in MirrorsOn(h, x) : b1[v]}
         rmsg(x) == [v \in rsel(x) |-> d1[v]]
         b2 == [w \in Nodes |-> b1[w] /\ MasterOf[w] = h]                      \* mirror bits are cleared by the reduce
         \* reduce receive: everything in the inbox
         rin == UNION {rinbox[c] : c \in {c \in Chans : c[2] = h}}
         d2 == ApplyAll(d1, rin)
         b3 == [w \in Nodes |-> b2[w] \/ (~NoBitOnReduce /\ d2[w] < d1[w])]
         \* broadcast send
         bsel(x) == {v \in Nodes : MasterOf[v] = h /\ v \in Proxies(x) /\ (Dense \/ b3[v])}
         bmsg(x) == [v \in bsel(x) |-> d2[v]]
         \* broadcast receive
         bin == UNION {binbox[c] : c \in {c \in Chans : c[2] = h}}
         d3 == ApplyAll(d2, bin)
         sentAny == \E x \in Hosts \ {h} : rsel(x) # {} \/ bsel(x) # {}
     IN /\ dist' = [dist EXCEPT ![h] = d3]
        /\ old' = [old EXCEPT ![h] = [v \in Nodes |-> IF v \in Front(h) THEN dist[h][v] ELSE old[h][v]]]
        /\ bit' = [bit EXCEPT ![h] = [w \in Nodes |-> FALSE]]
        /\ rwire' = [c \in Chans |-> IF c[1] = h /\ rsel(c[2]) # {} THEN rwire[c] \cup {rmsg(c[2])} ELSE rwire[c]]
        /\ bwire' = [c \in Chans |-> IF c[1] = h /\ bsel(c[2]) # {} THEN bwire[c] \cup {bmsg(c[2])} ELSE bwire[c]]
        /\ rinbox' = [c \in Chans |-> IF c[2] = h THEN {} ELSE rinbox[c]]
        /\ binbox' = [c \in Chans |-> IF c[2] = h THEN {} ELSE binbox[c]]
        /\ active' = [active EXCEPT ![h] = worked \/ sentAny \/ rin # {} \/ bin # {}]
        /\ UNCHANGED done
\* ---- the network: a message becomes visible to its destination
ArriveR(c, m) == /\ m \in rwire[c] /\ rwire' = [rwire EXCEPT ![c] = @ \ {m}] /\ rinbox' = [rinbox EXCEPT ![c] = @ \cup {m}]
                 /\ UNCHANGED <<dist, old, bit, bwire, binbox, active, done>>
ArriveB(c, m) == /\ m \in bwire[c] /\ bwire' = [bwire EXCEPT ![c] = @ \ {m}] /\ binbox' = [binbox EXCEPT ![c] = @ \cup {m}]
                 /\ UNCHANGED <<dist, old, bit, rwire, rinbox, active, done>>
\* ---- the detector's contract
Quiescent == /\ \A h \in Hosts : ~active[h]
             /\ \A c \in Chans : rwire[c] = {} /\ rinbox[c] = {} /\ bwire[c] = {} /\ binbox[c] = {}
Finish == /\ ~done /\ Quiescent /\ done' = TRUE /\ UNCHANGED <<dist, old, bit, rwire, rinbox, bwire, binbox, active>>
Next == (\E h \in Hosts : Iter(h)) \/ (\E c \in Chans : (\E m \in rwire[c] : ArriveR(c, m)) \/ (\E m \in bwire[c] : ArriveB(c, m))) \/ Finish
Spec == Init /\ [][Next]_vars /\ \A h \in Hosts : WF_vars(Iter(h))
             /\ WF_vars(Finish) /\ WF_vars(\E c \in Chans : (\E m \in rwire[c] : ArriveR(c, m)) \/ (\E m \in bwire[c] : ArriveB(c, m)))
\* ---- properties
RECURSIVE SP(_, _)
SP(k, d) == IF k = 0 THEN d
            ELSE SP(k - 1, [w \in Nodes |-> LET cands == {d[e[1]] + 1 : e \in {e \in Edges : e[2] = w}}
                                            IN IF cands = {} THEN d[w] ELSE Min(Min(d[w], INF), CHOOSE m \in cands : \A x \in cands : m <= x)])
True == LET r == SP(Cardinality(Nodes), [v \in Nodes |-> IF v = Source THEN 0 ELSE INF]) IN [v \in Nodes |-> Min(r[v], INF)]
Correct == done => \A h \in Hosts : \A v \in Proxies(h) : Min(dist[h][v], INF) = True[v]
\* no proxy ever holds less than the true distance (label-correcting never undershoots)
NeverBelow == \A h \in Hosts : \A v \in Nodes : dist[h][v] >= True[v]
Terminates == <>done
=============================================================================
