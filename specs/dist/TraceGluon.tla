---------------------------------- MODULE TraceGluon ----------------------------------
(* Merged per-host logs of harness/dist/dsync.cpp: "graph" (input, added by the driver), one "part" per host, "partend",  *)
(* then per round: one "round" per host, all "write" records, one "proxies" record per host.                             *)
EXTENDS Json, IOUtils, TLC, Integers, Sequences, FiniteSets
P == INSTANCE PartitionAbs
GA == INSTANCE GluonAbs
Tr == ndJsonDeserialize(IOEnv.TRACE)
VARIABLES l, n, E, parts, rnd, acc, mval
vars == <<l, n, E, parts, rnd, acc, mval>>
NoRound == [w |-> 0, r |-> 0, f |-> 0]
Init == l = 1 /\ n = 0 /\ E = <<>> /\ parts = <<>> /\ rnd = NoRound /\ acc = <<>> /\ mval = <<>>
Rej(kind) == PrintT(<<"REJECT", l, kind>>)
Next ==
  /\ l <= Len(Tr) /\ l' = l + 1
  /\ LET x == Tr[l] IN
     CASE x.ev = "graph" -> n' = x.n /\ E' = x.edges /\ parts' = <<>> /\ rnd' = NoRound /\ acc' = GA!NoAcc(x.n) /\ mval' = [g \in 0..(x.n - 1) |-> 0]
       [] x.ev = "part" -> parts' = Append(parts, x) /\ UNCHANGED <<n, E, rnd, acc, mval>>
       [] x.ev = "partsum" -> parts' = Append(parts, x) /\ UNCHANGED <<n, E, rnd, acc, mval>>
       [] x.ev = "partsumend" -> /\ (IF Len(parts) = x.hosts /\ P!SummaryOK(parts) THEN TRUE
                                     ELSE Rej(IF Len(parts) # x.hosts THEN "host-log-missing" ELSE P!SummaryWhy(parts)))
                                 /\ UNCHANGED <<n, E, parts, rnd, acc, mval>>
       [] x.ev = "partend" -> /\ (IF Len(parts) = x.hosts /\ P!PartitionOK(n, E, parts) THEN TRUE
                                  ELSE Rej(IF Len(parts) # x.hosts THEN "host-log-missing" ELSE P!Why(n, E, parts)))
                              /\ UNCHANGED <<n, E, parts, rnd, acc, mval>>
       [] x.ev = "round" -> rnd' = [w |-> x.w, r |-> x.r, f |-> x.f] /\ UNCHANGED <<n, E, parts, acc, mval>>
       [] x.ev = "step" -> acc' = GA!NoAcc(n) /\ UNCHANGED <<n, E, parts, rnd, mval>>
       \* values before the operator: the owner's entry is the master's previous value
       [] x.ev = "pre" -> /\ mval' = [g \in 0..(n - 1) |-> IF \E i \in 1..Len(x.px) : x.px[i][1] = g /\ x.px[i][2] = 1
                                                            THEN (CHOOSE v \in {x.px[i][3] : i \in {j \in 1..Len(x.px) : x.px[j][1] = g /\ x.px[j][2] = 1}} : TRUE)
                                                            ELSE mval[g]]
                          /\ UNCHANGED <<n, E, parts, rnd, acc>>
       [] x.ev = "write" -> acc' = GA!Contribute(acc, rnd.f, x.gid, x.c) /\ UNCHANGED <<n, E, parts, rnd, mval>>
       [] x.ev = "proxies" -> /\ (IF \A i \in 1..Len(x.px) : GA!ProxyOK(acc, rnd.f, rnd.r, mval, x.px[i]) THEN TRUE ELSE Rej("sync:proxy-disagrees"))
                              /\ UNCHANGED <<n, E, parts, rnd, acc, mval>>
       [] x.ev = "end" -> UNCHANGED <<n, E, parts, rnd, acc, mval>>
       [] OTHER -> Rej(x.ev) /\ UNCHANGED <<n, E, parts, rnd, acc, mval>>
Spec == Init /\ [][Next]_vars
Consumed == TLCGet("stats").diameter = Len(Tr) + 1
=============================================================================
