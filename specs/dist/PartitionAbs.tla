---------------------------------- MODULE PartitionAbs ----------------------------------
(***************************************************************************)
(* What a partitioning of a graph among hosts must satisfy (C19).          *)
(* E: input edges as a sequence of <<src, dst, data>>, n nodes 0..n-1.     *)
(* parts: one record per host with                                         *)
(*   nodes    <<gid, owned(0/1), masterHost>> in local id order            *)
(*   edges    <<srcGid, dstGid, data>> as stored locally                   *)
(*   mirrors  <<peer, gid, gid, ...>> per peer host                        *)
(*   reversed (the CSC output was requested: stored edges are reversed),   *)
(*   nmasters, mapsok, localok                                             *)
(***************************************************************************)
EXTENDS Integers, Sequences, FiniteSets
Range(s) == {s[i] : i \in 1..Len(s)}
Count(s, x) == Cardinality({i \in 1..Len(s) : s[i] = x})
RECURSIVE Flat(_)
Flat(ss) == IF ss = <<>> THEN <<>> ELSE Head(ss) \o Flat(Tail(ss))
Orig(p, e) == IF p.reversed = 1 THEN <<e[2], e[1], e[3]>> ELSE e
AllStored(parts) == Flat([i \in 1..Len(parts) |-> [k \in 1..Len(parts[i].edges) |-> Orig(parts[i], parts[i].edges[k])]])
\* every input edge (with its data) is stored exactly once over all hosts, and nothing else is
EdgesOnce(E, parts) == LET S == AllStored(parts) IN
   /\ Len(S) = Len(E) /\ \A x \in Range(S) \cup Range(E) : Count(S, x) = Count(E, x)
Gids(p) == {p.nodes[i][1] : i \in 1..Len(p.nodes)}
\* exactly one host owns each node, all hosts name that host as its master, and the owner counts add up
OneMaster(n, parts) ==
   /\ \A g \in 0..(n - 1) : Cardinality({i \in 1..Len(parts) : \E k \in 1..Len(parts[i].nodes) : parts[i].nodes[k][1] = g /\ parts[i].nodes[k][2] = 1}) = 1
   /\ \A i \in 1..Len(parts) : \A k \in 1..Len(parts[i].nodes) :
        LET nd == parts[i].nodes[k] IN (nd[2] = 1) = (nd[3] = parts[i].h)
   /\ \A i, j \in 1..Len(parts) : \A k \in 1..Len(parts[i].nodes), m \in 1..Len(parts[j].nodes) :
        parts[i].nodes[k][1] = parts[j].nodes[m][1] => parts[i].nodes[k][3] = parts[j].nodes[m][3]
   /\ \A i \in 1..Len(parts) : parts[i].nmasters = Cardinality({k \in 1..Len(parts[i].nodes) : parts[i].nodes[k][2] = 1})
\* local ids: no node twice, ids in range, maps mutually inverse (checked through the API by the harness), masters first
LocalIds(n, parts) == \A i \in 1..Len(parts) :
   /\ Cardinality(Gids(parts[i])) = Len(parts[i].nodes) /\ Gids(parts[i]) \subseteq 0..(n - 1)
   /\ parts[i].mapsok = 1 /\ parts[i].localok = 1
   /\ \A k, m \in 1..Len(parts[i].nodes) : (parts[i].nodes[k][2] = 1 /\ parts[i].nodes[m][2] = 0) => k < m
\* a proxy wherever an edge is stored
ProxyForEdges(parts) == \A i \in 1..Len(parts) : \A k \in 1..Len(parts[i].edges) :
   parts[i].edges[k][1] \in Gids(parts[i]) /\ parts[i].edges[k][2] \in Gids(parts[i])
\* the mirror list kept for peer h is exactly the set of local proxies whose master is h (what the peer will treat as
\* its masters-with-a-mirror-there list after the exchange)
MirrorLists(parts) == \A i \in 1..Len(parts) :
   \A h \in 0..(Len(parts) - 1) :
      LET listed == UNION {IF parts[i].mirrors[k][1] = h THEN {parts[i].mirrors[k][j] : j \in 2..Len(parts[i].mirrors[k])} ELSE {} : k \in 1..Len(parts[i].mirrors)}
          want == {parts[i].nodes[k][1] : k \in {k \in 1..Len(parts[i].nodes) : parts[i].nodes[k][2] = 0 /\ parts[i].nodes[k][3] = h}}
      IN listed = want
\* policy-specific promises, in terms of the input orientation of the edges: under an outgoing edge cut every edge is
\* stored with the master of its source, under an incoming edge cut with the master of its destination
OutCut(policy) == policy \in {"oec", "oec-t", "sym-oec"}
InCut(policy) == policy \in {"iec", "iec-t"}
OwnedHere(p, g) == \E m \in 1..Len(p.nodes) : p.nodes[m][1] = g /\ p.nodes[m][2] = 1
PolicyOK(parts) == \A i \in 1..Len(parts) :
   /\ (OutCut(parts[i].policy) \/ InCut(parts[i].policy)) => parts[i].vcut = 0
   /\ OutCut(parts[i].policy) => \A k \in 1..Len(parts[i].edges) : OwnedHere(parts[i], Orig(parts[i], parts[i].edges[k])[1])
   /\ InCut(parts[i].policy) => \A k \in 1..Len(parts[i].edges) : OwnedHere(parts[i], Orig(parts[i], parts[i].edges[k])[2])
PartitionOK(n, E, parts) == /\ EdgesOnce(E, parts) /\ OneMaster(n, parts) /\ LocalIds(n, parts) /\ ProxyForEdges(parts)
                            /\ MirrorLists(parts) /\ PolicyOK(parts)
\* large graphs: every host reports counts only (nnodes, nedges, nmasters, stored edges whose source / destination is not owned
\* here, whether its mirror lists name exactly non-owned local proxies of that peer); the joint promises that counts can express
RECURSIVE SumEdges(_)
SumEdges(parts) == IF parts = <<>> THEN 0 ELSE Head(parts).nedges + SumEdges(Tail(parts))
RECURSIVE SumMasters(_)
SumMasters(parts) == IF parts = <<>> THEN 0 ELSE Head(parts).nmasters + SumMasters(Tail(parts))
SummaryOK(parts) ==
   /\ \A i \in 1..Len(parts) : /\ parts[i].mapsok = 1 /\ parts[i].localok = 1 /\ parts[i].mirrorsok = 1
                                  /\ parts[i].nmirrors = parts[i].listed /\ parts[i].nnodes = parts[i].nmasters + parts[i].nmirrors
   /\ SumEdges(parts) = parts[1].gm            \* every edge stored exactly once (as a count)
   /\ SumMasters(parts) = parts[1].gn          \* every node mastered exactly once (as a count)
   \* a partition that claims to be an edge cut stores every edge with the master of one fixed end
   /\ (\A i \in 1..Len(parts) : parts[i].vcut = 0) =>
         (\A i \in 1..Len(parts) : parts[i].foreignsrc = 0) \/ (\A i \in 1..Len(parts) : parts[i].foreigndst = 0)
SummaryWhy(parts) == IF SumEdges(parts) # parts[1].gm THEN "edges-not-exactly-once"
                     ELSE IF SumMasters(parts) # parts[1].gn THEN "master-assignment"
                     ELSE IF \E i \in 1..Len(parts) : parts[i].mapsok # 1 \/ parts[i].localok # 1 THEN "local-ids"
                     ELSE IF \E i \in 1..Len(parts) : parts[i].mirrorsok # 1 \/ parts[i].nmirrors # parts[i].listed THEN "mirror-lists"
                     ELSE "policy-structure"
Why(n, E, parts) == IF ~EdgesOnce(E, parts) THEN "edges-not-exactly-once" ELSE IF ~OneMaster(n, parts) THEN "master-assignment"
                    ELSE IF ~LocalIds(n, parts) THEN "local-ids" ELSE IF ~ProxyForEdges(parts) THEN "edge-without-proxy"
                    ELSE IF ~MirrorLists(parts) THEN "mirror-lists" ELSE "policy-structure"
=============================================================================
