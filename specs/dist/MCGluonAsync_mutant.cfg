SPECIFICATION Spec
CONSTANTS Hosts = {0, 1, 2} Nodes = {0, 1, 2} Edges <- E3 EOwner <- Own3 MasterOf <- Master3 Source = 0 Dense = FALSE NoBitOnReduce = TRUE
INVARIANTS Correct NeverBelow
PROPERTY Terminates
CHECK_DEADLOCK FALSE
