---------------------------------- MODULE TraceSerialize ----------------------------------
EXTENDS SerializeAbs, Json, IOUtils, TLC
Tr == ndJsonDeserialize(IOEnv.TRACE)
VARIABLE l
Init == l = 1
Next == /\ l <= Len(Tr) /\ l' = l + 1
        /\ IF Tr[l].k = "ser" /\ RoundTripOK(Tr[l]) THEN TRUE ELSE PrintT(<<"REJECT", l, Tr[l].k>>)
Spec == Init /\ [][Next]_l
Consumed == TLCGet("stats").diameter = Len(Tr) + 1
=============================================================================
