SPECIFICATION Spec
CONSTANTS Hosts = {0, 1} Nodes = {0, 1, 2, 3} Edges <- E2 EOwner <- Own2 MasterOf <- Master2 Source = 0 Dense = TRUE NoBitOnReduce = FALSE
INVARIANTS Correct NeverBelow
PROPERTY Terminates
CHECK_DEADLOCK FALSE
