---------------------------------- MODULE TraceNet ----------------------------------
(* Merged per-host logs of harness/dist/dnet.cpp, one run after the other ("reset"); inside a phase all sends come   *)
(* first (each host's and each channel's order preserved), then all receives, then the barrier records.              *)
EXTENDS Json, IOUtils, TLC, Integers, Sequences
Hosts == 0..3
Tags == 100..102
INSTANCE NetAbs WITH Hosts <- Hosts, Tags <- Tags
Tr == ndJsonDeserialize(IOEnv.TRACE)
VARIABLES l, net, ph, dead
Rej(kind) == PrintT(<<"REJECT", l, kind>>)
Init == l = 1 /\ net = EmptyNet /\ ph = -1 /\ dead = FALSE
Next ==
  /\ l <= Len(Tr) /\ l' = l + 1
  /\ LET r == Tr[l] IN
     IF r.ev = "reset" THEN net' = EmptyNet /\ ph' = -1 /\ dead' = FALSE
     ELSE IF dead THEN UNCHANGED <<net, ph, dead>>
     ELSE CASE r.ev = "phase" -> ph' = r.ph /\ UNCHANGED <<net, dead>>
            [] r.ev = "send" -> /\ net' = Send(net, r.h, r.dst, r.tag, <<r.id, r.size>>) /\ UNCHANGED <<ph, dead>>
            [] r.ev = "recv" ->
                 IF r.intact = 1 /\ r.mph = ph /\ CanRecv(net, r.src, r.h, r.tag, <<r.id, r.size>>)
                 THEN net' = Recv(net, r.src, r.h, r.tag) /\ UNCHANGED <<ph, dead>>
                 ELSE /\ Rej(IF r.intact # 1 THEN "recv:corrupt" ELSE IF r.mph # ph THEN "recv:other-phase"
                             ELSE IF net[<<r.src, r.h, r.tag>>] = <<>> THEN "recv:never-sent-or-duplicate" ELSE "recv:out-of-order")
                      /\ dead' = TRUE /\ UNCHANGED <<net, ph>>
            [] r.ev = "barrier" ->
                 IF r.extra = 0 /\ Drained(net, r.h) THEN UNCHANGED <<net, ph, dead>>
                 ELSE Rej(IF r.extra # 0 THEN "barrier:extra-message" ELSE "barrier:lost-message") /\ dead' = TRUE /\ UNCHANGED <<net, ph>>
            [] r.ev = "end" -> UNCHANGED <<net, ph, dead>>
            [] OTHER -> Rej(r.ev) /\ dead' = TRUE /\ UNCHANGED <<net, ph>>     \* timeout, crash
Spec == Init /\ [][Next]_<<l, net, ph, dead>>
Consumed == TLCGet("stats").diameter = Len(Tr) + 1
=============================================================================
