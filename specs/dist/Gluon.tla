---------------------------------- MODULE Gluon ----------------------------------
(***************************************************************************)
(* Implementation-shaped model of one bulk-synchronous Gluon sync of a     *)
(* field (GluonSubstrate.h sync() = reduce() then broadcast()), for one    *)
(* node with a master and mirrors on the other hosts:                      *)
(*  - proxies eligible for the write location may have been updated        *)
(*    (update bit set) with arbitrary contributions;                       *)
(*  - reduce: every mirror whose bit is set sends its value to the master  *)
(*    and resets itself (add fields: to the identity); messages arrive in  *)
(*    any order; the master folds them in and sets its own bit when its    *)
(*    value changed or it received anything;                               *)
(*  - broadcast: if the master's bit is set it sends its value to every    *)
(*    mirror, which overwrites its own; then all bits are cleared.         *)
(* EligibleW / ReadableR are the proxies a partitioning policy allows to   *)
(* be written / read (the halves of the sync it makes unnecessary are the  *)
(* ones for which these sets contain no mirror).                           *)
(* Two syncs follow each other without re-initialisation.  DropReset = TRUE*)
(* is the mutant in which a mirror of an add field is not reset after its  *)
(* value was sent: a mirror the broadcast does not refresh then contributes*)
(* its old delta a second time.                                            *)
(***************************************************************************)
EXTENDS Integers, FiniteSets, Sequences
CONSTANTS Hosts, Master, Field, Vals, M0, EligibleW, ReadableR, DropReset
\* Field \in {"min", "add"}; EligibleW, ReadableR \subseteq Hosts (proxies that can be written / read)
Mirrors == Hosts \ {Master}
Op(a, b) == IF Field = "min" THEN (IF a < b THEN a ELSE b) ELSE a + b
Ident == IF Field = "min" THEN 99 ELSE 0
VARIABLES val, bit, contrib, phase, net, got, round
vars == <<val, bit, contrib, phase, net, got, round>>
InitVal(h) == IF h = Master \/ Field = "min" THEN M0 ELSE 0
Init == /\ val = [h \in Hosts |-> InitVal(h)] /\ bit = [h \in Hosts |-> FALSE]
        /\ contrib = <<>> /\ phase = "write" /\ net = {} /\ got = {} /\ round = 1
\* the operator: one contribution at an eligible proxy (at most one per proxy keeps the model small)
\* a second sync follows without re-initialisation; add fields carry deltas, so in the second round only the master and
\* proxies that were not refreshed by the broadcast (not readable) may be written again
Write(h, c) == /\ phase = "write" /\ h \in EligibleW /\ ~bit[h]
               /\ round = 2 => (h = Master \/ h \notin ReadableR)
               /\ val' = [val EXCEPT ![h] = Op(@, c)] /\ bit' = [bit EXCEPT ![h] = TRUE]
               /\ contrib' = Append(contrib, c) /\ UNCHANGED <<phase, net, got, round>>
StartReduce == /\ phase = "write" /\ phase' = "reduce"
               /\ net' = {<<h, val[h]>> : h \in {m \in Mirrors : bit[m]}}
               /\ val' = [h \in Hosts |-> IF h \in Mirrors /\ bit[h] /\ Field = "add" /\ ~DropReset THEN 0 ELSE val[h]]
               /\ UNCHANGED <<bit, contrib, got, round>>
ReduceRecv(m) == /\ phase = "reduce" /\ m \in net
                 /\ val' = [val EXCEPT ![Master] = Op(@, m[2])] /\ bit' = [bit EXCEPT ![Master] = TRUE]
                 /\ net' = net \ {m} /\ got' = got \cup {m[1]} /\ UNCHANGED <<contrib, phase, round>>
StartBroadcast == /\ phase = "reduce" /\ net = {} /\ phase' = "broadcast"
                  /\ net' = IF bit[Master] THEN {<<h, val[Master]>> : h \in Mirrors \cap ReadableR} ELSE {}
                  /\ UNCHANGED <<val, bit, contrib, got, round>>
BroadcastRecv(m) == /\ phase = "broadcast" /\ m \in net
                    /\ val' = [val EXCEPT ![m[1]] = m[2]] /\ net' = net \ {m}
                    /\ UNCHANGED <<bit, contrib, phase, got, round>>
Finish == /\ phase = "broadcast" /\ net = {} /\ bit' = [h \in Hosts |-> FALSE]
          /\ phase' = (IF round = 1 THEN "write" ELSE "done") /\ round' = 2
          /\ UNCHANGED <<val, contrib, net, got>>
Next == (\E h \in Hosts, c \in Vals : Write(h, c)) \/ StartReduce \/ (\E m \in net : ReduceRecv(m)) \/ StartBroadcast
        \/ (\E m \in net : BroadcastRecv(m)) \/ Finish
Spec == Init /\ [][Next]_vars /\ WF_vars(Next)
RECURSIVE Fold(_)
Fold(s) == IF s = <<>> THEN Ident ELSE Op(Head(s), Fold(Tail(s)))
Expected == IF contrib = <<>> THEN M0 ELSE Op(M0, Fold(contrib))
\* C18: after the sync every readable proxy holds the reduction, or -- nobody contributed -- what it had
Agreement == phase = "done" =>
   \A h \in ReadableR : IF contrib # <<>> THEN val[h] = Expected ELSE val[h] = M0 \/ val[h] = InitVal(h)
Terminates == <>(phase = "done")
=============================================================================
