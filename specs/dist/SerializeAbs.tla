---------------------------------- MODULE SerializeAbs ----------------------------------
(***************************************************************************)
(* Wire format of galois::runtime::gSerialize (C17): the number of bytes a *)
(* value occupies, from a structural description of the value ("shape"):   *)
(*   <<"s", k>>          memory-copyable object of k bytes (scalars, PODs) *)
(*   <<"str", len>>      string: its characters and a terminating NUL      *)
(*   <<"lin", n, k>>     sequence of n memory-copyable elements of k bytes:*)
(*                       8-byte count, then the elements back to back      *)
(*   <<"seq", <<..>>>>   sequence of other elements: 8-byte count, then    *)
(*                       each element in its own format                    *)
(*   <<"cat", <<..>>>>   pair / tuple / several arguments: concatenation   *)
(*   <<"bits", n>>       dynamic bitset of n bits: 8-byte bit count, then  *)
(*                       its 64-bit words as a "lin" sequence              *)
(*   <<"raw", n>>        an already serialised buffer of n bytes, verbatim *)
(* A round trip is correct when the value read equals the value written,   *)
(* exactly the bytes written are consumed (so what follows is intact) and  *)
(* the bytes written are the format's size.                                *)
(***************************************************************************)
EXTENDS Integers, Sequences
RECURSIVE Size(_)
RECURSIVE SumSizes(_)
SumSizes(ss) == IF ss = <<>> THEN 0 ELSE Size(Head(ss)) + SumSizes(Tail(ss))
Size(sh) == CASE sh[1] = "s" -> sh[2]
              [] sh[1] = "str" -> sh[2] + 1
              [] sh[1] = "lin" -> 8 + sh[2] * sh[3]
              [] sh[1] = "seq" -> 8 + SumSizes(sh[2])
              [] sh[1] = "cat" -> SumSizes(sh[2])
              [] sh[1] = "bits" -> 8 + 8 + 8 * ((sh[2] + 63) \div 64)
              [] sh[1] = "raw" -> sh[2]
RoundTripOK(r) == /\ r.eq = 1 /\ r.sentinel = 1 /\ r.left = 0
                  /\ r.consumed = r.produced /\ r.produced = Size(r.shape)
=============================================================================
