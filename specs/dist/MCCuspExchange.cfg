SPECIFICATION Spec
CONSTANTS Hosts = {0, 1, 2} Nodes = {0, 1, 2, 3} CountPerEdge = FALSE Reader <- ReaderA EdgeSet <- EdgesA
INVARIANTS OnlyOwn Complete
PROPERTY AllFinish
CHECK_DEADLOCK FALSE
