---------------------------------- MODULE NetAbs ----------------------------------
(***************************************************************************)
(* Property-level model of the tagged message layer (C17): one FIFO        *)
(* channel per (source host, destination host, tag).  A message handed to  *)
(* the network is appended to its channel; the destination may only receive*)
(* the head of a channel (in order), which removes it (exactly once); a    *)
(* host barrier at the end of a phase finds every channel into that host   *)
(* empty (nothing lost, nothing left for the next phase).                  *)
(***************************************************************************)
EXTENDS Integers, Sequences
CONSTANTS Hosts, Tags
Chan == Hosts \X Hosts \X Tags
EmptyNet == [c \in Chan |-> <<>>]
Send(net, src, dst, tag, msg) == [net EXCEPT ![<<src, dst, tag>>] = Append(@, msg)]
CanRecv(net, src, dst, tag, msg) == net[<<src, dst, tag>>] # <<>> /\ Head(net[<<src, dst, tag>>]) = msg
Recv(net, src, dst, tag) == [net EXCEPT ![<<src, dst, tag>>] = Tail(@)]
Drained(net, dst) == \A s \in Hosts, t \in Tags : net[<<s, dst, t>>] = <<>>
=============================================================================
