---------------------------------- MODULE DGTerm ----------------------------------
(***************************************************************************)
(* Implementation-level model of galois::DGTerminator (libdist/include/    *)
(* galois/DTerminationDetector.h), the termination detection of the bulk-  *)
(* asynchronous (Async) execution of the distributed applications.         *)
(* Every host keeps snapshot numbers (prev, snap) and always has one       *)
(* non-blocking all-reduce (MAX over the hosts' snap values) outstanding.  *)
(* terminate() - called at the end of every iteration of the application   *)
(* loop - reads, in this order: whether this iteration did work (the       *)
(* accumulator), pending sends, whether the outstanding all-reduce has     *)
(* completed, pending receives (incl. "a message was received since I was  *)
(* last asked").  A host that saw activity   *)
(* remembers it (work_done).  When the all-reduce has completed on an      *)
(* inactive host it adopts the result; if it did work since its last       *)
(* snapshot it bumps the number and starts the next all-reduce, if the     *)
(* number changed it starts the next all-reduce, otherwise it terminates.  *)
(* Messages are invisible to both ends while they are "on the wire" (handed*)
(* to MPI by the sender, not yet probed by the receiver).  AssumeCausal =   *)
(* FALSE shows that the detector NEEDS the network not to let all-reduce    *)
(* rounds overtake such messages: TLC then finds an early termination (not  *)
(* reproducible on one machine, where the receiver's communication thread   *)
(* probes continuously; recorded as an assumption, not as a finding).       *)
(* CheckRecvFirst = TRUE looks at pending receives before testing the      *)
(* all-reduce (the code insists on the opposite order; under AssumeCausal  *)
(* both orders are safe).  ForgetWork = TRUE is the mutant in which a host *)
(* does not remember that it was active (work_done is never set).          *)
(***************************************************************************)
EXTENDS Integers, FiniteSets, Sequences
CONSTANTS H, MaxMsgs, CheckRecvFirst, AssumeCausal, ForgetWork
Hosts == 0..(H - 1)
VARIABLES work,      \* local work items per host
          sendbuf,   \* messages handed to the network layer but not yet given to MPI (anyPendingSends sees them): bag as function dst -> count, per source
          wire,      \* messages inside MPI: function dst -> sequence of tags; the tag is the index of the next all-reduce its sender will initiate
          inbox,     \* messages received but not yet consumed (anyPendingReceives sees them)
          sent,      \* total messages sent (bound)
          prev, snap, workDone, done,
          rnd,       \* index of the outstanding all-reduce of each host
          contrib,   \* contrib[k][h] : value host h contributed to all-reduce k (or -1)
          pc, act0, ended,  \* the application loop: "compute" (operator + sync), then terminate() in two steps "t1", "t2"
          mdata,     \* the accumulator: this iteration did work (dga += 1 in the operator; reset at the start of an iteration)
          rcvd       \* anyReceivedMessages: a message was received since anyPendingReceives() was last asked
vars == <<work, sendbuf, wire, inbox, sent, prev, snap, workDone, done, rnd, contrib, pc, act0, ended, mdata, rcvd>>
MaxRound == 8
Init == /\ work = [h \in Hosts |-> IF h = 0 THEN 1 ELSE 0]
        /\ sendbuf = [h \in Hosts |-> [d \in Hosts |-> 0]] /\ wire = [d \in Hosts |-> <<>>] /\ inbox = [d \in Hosts |-> 0] /\ sent = 0
        /\ prev = [h \in Hosts |-> 0] /\ snap = [h \in Hosts |-> 1] /\ workDone = [h \in Hosts |-> FALSE] /\ done = [h \in Hosts |-> FALSE]
        /\ rnd = [h \in Hosts |-> 1]
        /\ contrib = [k \in 1..MaxRound |-> [h \in Hosts |-> IF k = 1 THEN 1 ELSE -1]]     \* the constructor initiates the first all-reduce with snap = 1
        /\ pc = [h \in Hosts |-> "compute"] /\ act0 = [h \in Hosts |-> FALSE] /\ ended = [h \in Hosts |-> FALSE]
        /\ mdata = [h \in Hosts |-> FALSE] /\ rcvd = [h \in Hosts |-> FALSE]
\* ---- the computation and the network
\* one iteration of the application loop: the operator works off local work (and may send), the asynchronous sync hands
\* messages to the network and applies whatever has arrived (which becomes work of a later iteration)
Compute(h) == /\ ~done[h] /\ pc[h] = "compute" /\ work[h] > 0 /\ work' = [work EXCEPT ![h] = @ - 1] /\ mdata' = [mdata EXCEPT ![h] = TRUE]
              /\ UNCHANGED <<sendbuf, wire, inbox, sent, prev, snap, workDone, done, rnd, contrib, pc, act0, ended, rcvd>>
ComputeAndSend(h, d) == /\ ~done[h] /\ pc[h] = "compute" /\ work[h] > 0 /\ d # h /\ sent < MaxMsgs
                        /\ work' = [work EXCEPT ![h] = @ - 1] /\ sendbuf' = [sendbuf EXCEPT ![h][d] = @ + 1] /\ sent' = sent + 1
                        /\ mdata' = [mdata EXCEPT ![h] = TRUE]
                        /\ UNCHANGED <<wire, inbox, prev, snap, workDone, done, rnd, contrib, pc, act0, ended, rcvd>>
ToWire(h, d) == /\ sendbuf[h][d] > 0 /\ sendbuf' = [sendbuf EXCEPT ![h][d] = @ - 1] /\ wire' = [wire EXCEPT ![d] = Append(@, rnd[h] + 1)]
                /\ UNCHANGED <<work, inbox, sent, prev, snap, workDone, done, rnd, contrib, pc, act0, ended, mdata, rcvd>>
Arrive(d) == /\ wire[d] # <<>> /\ wire' = [wire EXCEPT ![d] = Tail(@)] /\ inbox' = [inbox EXCEPT ![d] = @ + 1]
             /\ UNCHANGED <<work, sendbuf, sent, prev, snap, workDone, done, rnd, contrib, pc, act0, ended, mdata, rcvd>>
Consume(h) == /\ ~done[h] /\ pc[h] = "compute" /\ inbox[h] > 0 /\ inbox' = [inbox EXCEPT ![h] = @ - 1] /\ work' = [work EXCEPT ![h] = @ + 1]
              /\ rcvd' = [rcvd EXCEPT ![h] = TRUE]
              /\ UNCHANGED <<sendbuf, wire, sent, prev, snap, workDone, done, rnd, contrib, pc, act0, ended, mdata>>
\* end of the iteration: an iteration that found work did some
EndIteration(h) == /\ ~done[h] /\ pc[h] = "compute" /\ (work[h] = 0 \/ mdata[h]) /\ pc' = [pc EXCEPT ![h] = "t1"]
                   /\ UNCHANGED <<work, sendbuf, wire, inbox, sent, prev, snap, workDone, done, rnd, contrib, act0, ended, mdata, rcvd>>
\* ---- terminate()
PendingSends(h) == \E d \in Hosts : sendbuf[h][d] > 0
Complete(k) == \A h \in Hosts : contrib[k][h] # -1
\* what host d can observe: with AssumeCausal a collective does not overtake the point-to-point messages its contributors
\* handed to MPI before they contributed (MPI itself promises no such order; without the assumption a message may stay
\* invisible "on the wire" while several all-reduce rounds complete, and the detector terminates too early)
Visible(d, k) == Complete(k) /\ (AssumeCausal => \A i \in 1..Len(wire[d]) : wire[d][i] > k)
Result(k) == LET S == {contrib[k][h] : h \in Hosts} IN CHOOSE x \in S : \A y \in S : y <= x
\* first half: local work, pending sends, (mutant: pending receives,) then MPI_Test
PendingRecv(h) == inbox[h] > 0 \/ rcvd[h]
T1(h) == /\ ~done[h] /\ pc[h] = "t1"
         /\ LET a == mdata[h] \/ PendingSends(h) \/ (CheckRecvFirst /\ PendingRecv(h)) IN
              /\ act0' = [act0 EXCEPT ![h] = a]
              /\ ended' = [ended EXCEPT ![h] = ~a /\ Visible(h, rnd[h])]
         /\ pc' = [pc EXCEPT ![h] = "t2"]
         /\ rcvd' = [rcvd EXCEPT ![h] = IF CheckRecvFirst THEN FALSE ELSE @]
         /\ UNCHANGED <<work, sendbuf, wire, inbox, sent, prev, snap, workDone, done, rnd, contrib, mdata>>
Initiate(h, v) == /\ rnd[h] < MaxRound /\ rnd' = [rnd EXCEPT ![h] = @ + 1] /\ contrib' = [contrib EXCEPT ![rnd[h] + 1][h] = v]
\* second half: pending receives, then the decision
T2(h) == /\ pc[h] = "t2" /\ pc' = [pc EXCEPT ![h] = "compute"]
         /\ mdata' = [mdata EXCEPT ![h] = FALSE]                     \* dga.reset() at the start of the next iteration
         /\ rcvd' = [rcvd EXCEPT ![h] = IF CheckRecvFirst THEN @ ELSE FALSE]
         /\ LET a == act0[h] \/ (~CheckRecvFirst /\ PendingRecv(h)) IN
            IF a THEN workDone' = [workDone EXCEPT ![h] = ~ForgetWork] /\ UNCHANGED <<prev, snap, done, rnd, contrib>>
            ELSE IF ~ended[h] THEN UNCHANGED <<prev, snap, workDone, done, rnd, contrib>>
            ELSE LET s == Result(rnd[h]) IN
                 IF workDone[h] THEN /\ workDone' = [workDone EXCEPT ![h] = FALSE] /\ prev' = [prev EXCEPT ![h] = s] /\ snap' = [snap EXCEPT ![h] = s + 1]
                                     /\ Initiate(h, s + 1) /\ UNCHANGED done
                 ELSE IF prev[h] # s THEN /\ prev' = [prev EXCEPT ![h] = s] /\ snap' = [snap EXCEPT ![h] = s] /\ Initiate(h, s) /\ UNCHANGED <<workDone, done>>
                 ELSE /\ done' = [done EXCEPT ![h] = TRUE] /\ snap' = [snap EXCEPT ![h] = s] /\ UNCHANGED <<prev, workDone, rnd, contrib>>
         /\ UNCHANGED <<work, sendbuf, wire, inbox, sent, act0, ended>>
Next == \/ \E h \in Hosts : Compute(h) \/ Consume(h) \/ EndIteration(h) \/ T1(h) \/ T2(h) \/ Arrive(h)
        \/ \E g, d \in Hosts : ComputeAndSend(g, d) \/ ToWire(g, d)
Spec == Init /\ [][Next]_vars /\ WF_vars(Next)
        /\ \A h \in Hosts : SF_vars(Compute(h)) /\ SF_vars(Consume(h)) /\ WF_vars(EndIteration(h)) /\ WF_vars(T1(h)) /\ WF_vars(T2(h)) /\ WF_vars(Arrive(h))
        /\ \A g, d \in Hosts : WF_vars(ToWire(g, d))
\* ---- properties
Quiescent == /\ \A h \in Hosts : work[h] = 0 /\ inbox[h] = 0 /\ wire[h] = <<>> /\ \A d \in Hosts : sendbuf[h][d] = 0
\* a host only ever terminates when there is no work and no message anywhere
SafeTermination == (\E h \in Hosts : done[h]) => Quiescent
\* all hosts leave in the same all-reduce round (a host leaving earlier would block the others' next all-reduce)
SameRound == \A g, h \in Hosts : done[g] /\ done[h] => rnd[g] = rnd[h]
Bounded == \A h \in Hosts : rnd[h] < MaxRound       \* the model's round bound is never the reason for stopping
AllTerminate == <>(\A h \in Hosts : done[h])
=============================================================================
