SPECIFICATION Spec
CONSTANTS H = 2 MaxMsgs = 2 CheckRecvFirst = FALSE ForgetWork = TRUE AssumeCausal = TRUE
INVARIANTS SafeTermination SameRound Bounded
PROPERTY AllTerminate
CHECK_DEADLOCK FALSE
