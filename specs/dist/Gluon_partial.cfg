SPECIFICATION Spec
CONSTANTS Hosts = {0, 1, 2} Master = 0 Field = "add" Vals = {1, 2} M0 = 5 EligibleW = {0, 1, 2} ReadableR = {0, 2} DropReset = FALSE
INVARIANT Agreement
PROPERTY Terminates
CHECK_DEADLOCK FALSE
