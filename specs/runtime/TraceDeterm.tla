------------------------------ MODULE TraceDeterm ------------------------------
(* Trace validation for C07 (determinism part): every "detres" record carries    *)
(* the per-object commit sequences of one run of the deterministic executor on   *)
(* program `prog`; all runs of the same program -- whatever the thread count,    *)
(* schedule or mode -- must report the same sequences (the outcome is a          *)
(* function of the input alone).  The first run of a program fixes the outcome.  *)
EXTENDS Integers, Sequences, Json, IOUtils, TLC
Tr == ndJsonDeserialize(IOEnv.TRACE)
VARIABLES l, prog, outcome
vars == <<l, prog, outcome>>
Init == l = 1 /\ prog = -1 /\ outcome = <<>>
Next ==
  /\ l <= Len(Tr) /\ l' = l + 1
  /\ LET r == Tr[l] IN
     IF r.prog # prog THEN prog' = r.prog /\ outcome' = r.logs
     ELSE /\ UNCHANGED <<prog, outcome>>
          /\ IF r.logs = outcome THEN TRUE ELSE PrintT(<<"REJECT", l, "nondeterministic">>)
Spec == Init /\ [][Next]_vars
Consumed == TLCGet("stats").diameter = Len(Tr) + 1
=============================================================================
