---------------------------------- MODULE Determ ----------------------------------
(***************************************************************************)
(* Implementation-level model of one round of the deterministic executor   *)
(* (Executor_Deterministic.h): inspect phase -- every context walks its    *)
(* neighbourhood; a free object is taken (tryLock), an object marked by a  *)
(* context with a larger id is stolen by compare-and-swap and the loser is *)
(* flagged notReady, an object marked by a smaller id flags the walker     *)
(* itself notReady; barrier; commit phase -- the ready contexts commit.    *)
(* Contexts are distributed over threads arbitrarily (any interleaving of  *)
(* the marking steps).                                                     *)
(*   Deterministic : at the barrier the ready set equals Winners, a        *)
(*                   function of ids and neighbourhoods alone              *)
(*   Isolated      : two ready contexts never share an object              *)
(* IgnoreLoser = TRUE is the mutant "the thief forgets to flag the loser". *)
(***************************************************************************)
EXTENDS Naturals, Sequences, FiniteSets, TLC
CONSTANTS NI, NO, IgnoreLoser
Items == 1..NI          \* item k has deterministic id k (smaller id wins)
Objs == 1..NO
(* --algorithm determ {
  variables nh \in [Items -> SUBSET Objs],        \* neighbourhoods: every input
            mark = [ob \in Objs |-> 0],              \* owner id of the object (0 = free)
            notReady = [i \in Items |-> FALSE],
            todo = [i \in Items |-> nh[i]], inspected = {};
  fair process (Ctx \in Items) variables o = 0, seen = 0;
  {
   walk: while (todo[self] # {}) {
           with (x \in todo[self]) { o := x; todo[self] := todo[self] \ {x}; };
     rd:   seen := mark[o];                                   \* getOwner / tryLock
     act:  if (seen = 0) {
             if (mark[o] = 0) { mark[o] := self; } else { todo[self] := todo[self] \cup {o}; };   \* tryLock failed: look again
           } else if (seen > self) {
             if (mark[o] = seen) {                             \* stealByCAS(seen -> self)
               mark[o] := self;
               if (~IgnoreLoser) { notReady[seen] := TRUE; };
             } else { todo[self] := todo[self] \cup {o}; };  \* CAS failed: retry
           } else if (seen < self) {
             notReady[self] := TRUE;
           };
         };
   done: inspected := inspected \cup {self};
  }
} *)
\* BEGIN TRANSLATION
VARIABLES pc, nh, mark, notReady, todo, inspected, o, seen

vars == << pc, nh, mark, notReady, todo, inspected, o, seen >>

ProcSet == (Items)

Init == (* Global variables *)
        /\ nh \in [Items -> SUBSET Objs]
        /\ mark = [ob \in Objs |-> 0]
        /\ notReady = [i \in Items |-> FALSE]
        /\ todo = [i \in Items |-> nh[i]]
        /\ inspected = {}
        (* Process Ctx *)
        /\ o = [self \in Items |-> 0]
        /\ seen = [self \in Items |-> 0]
        /\ pc = [self \in ProcSet |-> "walk"]

walk(self) == /\ pc[self] = "walk"
              /\ IF todo[self] # {}
                    THEN /\ \E x \in todo[self]:
                              /\ o' = [o EXCEPT ![self] = x]
                              /\ todo' = [todo EXCEPT ![self] = todo[self] \ {x}]
                         /\ pc' = [pc EXCEPT ![self] = "rd"]
                    ELSE /\ pc' = [pc EXCEPT ![self] = "done"]
                         /\ UNCHANGED << todo, o >>
              /\ UNCHANGED << nh, mark, notReady, inspected, seen >>

rd(self) == /\ pc[self] = "rd"
            /\ seen' = [seen EXCEPT ![self] = mark[o[self]]]
            /\ pc' = [pc EXCEPT ![self] = "act"]
            /\ UNCHANGED << nh, mark, notReady, todo, inspected, o >>

act(self) == /\ pc[self] = "act"
             /\ IF seen[self] = 0
                   THEN /\ IF mark[o[self]] = 0
                              THEN /\ mark' = [mark EXCEPT ![o[self]] = self]
                                   /\ todo' = todo
                              ELSE /\ todo' = [todo EXCEPT ![self] = todo[self] \cup {o[self]}]
                                   /\ mark' = mark
                        /\ UNCHANGED notReady
                   ELSE /\ IF seen[self] > self
                              THEN /\ IF mark[o[self]] = seen[self]
                                         THEN /\ mark' = [mark EXCEPT ![o[self]] = self]
                                              /\ IF ~IgnoreLoser
                                                    THEN /\ notReady' = [notReady EXCEPT ![seen[self]] = TRUE]
                                                    ELSE /\ TRUE
                                                         /\ UNCHANGED notReady
                                              /\ todo' = todo
                                         ELSE /\ todo' = [todo EXCEPT ![self] = todo[self] \cup {o[self]}]
                                              /\ UNCHANGED << mark, notReady >>
                              ELSE /\ IF seen[self] < self
                                         THEN /\ notReady' = [notReady EXCEPT ![self] = TRUE]
                                         ELSE /\ TRUE
                                              /\ UNCHANGED notReady
                                   /\ UNCHANGED << mark, todo >>
             /\ pc' = [pc EXCEPT ![self] = "walk"]
             /\ UNCHANGED << nh, inspected, o, seen >>

done(self) == /\ pc[self] = "done"
              /\ inspected' = (inspected \cup {self})
              /\ pc' = [pc EXCEPT ![self] = "Done"]
              /\ UNCHANGED << nh, mark, notReady, todo, o, seen >>

Ctx(self) == walk(self) \/ rd(self) \/ act(self) \/ done(self)

(* Allow infinite stuttering to prevent deadlock on termination. *)
Terminating == /\ \A self \in ProcSet: pc[self] = "Done"
               /\ UNCHANGED vars

Next == (\E self \in Items: Ctx(self))
           \/ Terminating

Spec == /\ Init /\ [][Next]_vars
        /\ \A self \in Items : WF_vars(Ctx(self))

Termination == <>(\A self \in ProcSet: pc[self] = "Done")

\* END TRANSLATION
Conflict(i, j) == i # j /\ nh[i] \cap nh[j] # {}
Winners == {i \in Items : \A j \in Items : Conflict(i, j) => i < j}
AtBarrier == inspected = Items
Ready == {i \in Items : ~notReady[i]}
Deterministic == AtBarrier => Ready = Winners
Isolated == AtBarrier => \A i, j \in Ready : ~Conflict(i, j)
=============================================================================
