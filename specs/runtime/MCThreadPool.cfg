CONSTANTS
  M = 4
  Nums <- NumsA
  EarlyDone = FALSE
SPECIFICATION Spec
INVARIANT ExactlyOnce
INVARIANT NeverTwice
PROPERTY MasterFinishes
CHECK_DEADLOCK FALSE
