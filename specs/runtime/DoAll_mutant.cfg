CONSTANTS
  T = 2
  N = 6
  Chunk = 2
  NoAdvance = TRUE
SPECIFICATION Spec
INVARIANT AtMostOnce
INVARIANT EachOnce
CHECK_DEADLOCK FALSE
