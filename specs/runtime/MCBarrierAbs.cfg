CONSTANTS
  MaxP = 3
  MaxK = 3
SPECIFICATION Spec
INVARIANT PhaseSeparation
PROPERTY AllDepart
CHECK_DEADLOCK FALSE
