CONSTANTS
  T = 3
  Iters = 2
  MoCas = 4
  MoUnlock = 3
  MoSpinLoad = 2
SPECIFICATION Spec
INVARIANT MutualExclusion
INVARIANT NoRace
PROPERTY Admission
CHECK_DEADLOCK FALSE
