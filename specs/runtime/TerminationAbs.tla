--------------------------- MODULE TerminationAbs ---------------------------
(***************************************************************************)
(* Property-level specification of quiescence detection (C04) over what a  *)
(* user observes: units of work held or handed over, idle/busy reports,    *)
(* and observations of the announcement.                                   *)
(*   NoEarlyAnnounce : an observation of global termination is enabled     *)
(*                     only when no unit is held or in any inbox           *)
(*   Announce        : when everything is idle every thread eventually     *)
(*                     observes the announcement (the loop returns)        *)
(*   ReArm           : after Loop(n) the detector serves n threads afresh  *)
(***************************************************************************)
EXTENDS Naturals, FiniteSets
CONSTANT MaxT
VARIABLES n, inbox, holding, dirty, observed
vars == <<n, inbox, holding, dirty, observed>>
All == 0..(MaxT - 1)
Threads == 0..(n - 1)
Zero == [t \in All |-> 0]
Nobody == [t \in All |-> FALSE]
Outstanding == \E t \in All : inbox[t] > 0 \/ holding[t]

Init == n = 0 /\ inbox = Zero /\ holding = Nobody /\ dirty = Nobody /\ observed = Nobody
Seed(t) == inbox' = [inbox EXCEPT ![t] = @ + 1] /\ UNCHANGED <<n, holding, dirty, observed>>
Loop(m) == /\ ~(\E t \in All : holding[t])
           /\ n' = m /\ holding' = Nobody /\ dirty' = Nobody /\ observed' = Nobody /\ UNCHANGED inbox
Take(t) == /\ t \in Threads /\ inbox[t] > 0 /\ ~holding[t] /\ ~observed[t]
           /\ inbox' = [inbox EXCEPT ![t] = @ - 1] /\ holding' = [holding EXCEPT ![t] = TRUE]
           /\ UNCHANGED <<n, dirty, observed>>
Xfer(t, u) == /\ t \in Threads /\ u \in Threads /\ holding[t]
              /\ inbox' = [inbox EXCEPT ![u] = @ + 1] /\ UNCHANGED <<n, holding, dirty, observed>>
Done(t) == /\ t \in Threads /\ holding[t]
           /\ holding' = [holding EXCEPT ![t] = FALSE] /\ dirty' = [dirty EXCEPT ![t] = TRUE]
           /\ UNCHANGED <<n, inbox, observed>>
\* the reporting contract of the executor: "work happened since my last report"
Report(t, did) == /\ t \in Threads /\ ~holding[t] /\ did = dirty[t]
                  /\ dirty' = [dirty EXCEPT ![t] = FALSE] /\ UNCHANGED <<n, inbox, holding, observed>>
\* (reports are optional in a log: a thread that took work may observe only after it is done)
Observe(t) == /\ t \in Threads /\ ~Outstanding            \* NoEarlyAnnounce
              /\ observed' = [observed EXCEPT ![t] = TRUE] /\ UNCHANGED <<n, inbox, holding, dirty>>
Returned == \A t \in Threads : observed[t]
=============================================================================
