CONSTANTS
  P = 3
  K = 3
  LogP = 2
SPECIFICATION Spec
INVARIANT PhaseSeparation
PROPERTY AllDone
CHECK_DEADLOCK FALSE
