--------------------------- MODULE BarrierCounting ---------------------------
(* Implementation-level model of CountingBarrier::wait (Barrier_Counting.cpp):  *)
(* one label per shared access.  Swap = TRUE is the mutant "release before     *)
(* reset" used by the self-test.                                              *)
EXTENDS Naturals, FiniteSets, TLC
CONSTANTS P, K, Swap
Threads == 0..(P - 1)
(* --algorithm counting {
  variables count = P, sense = FALSE, lsense = [t \in Threads |-> FALSE],
            arrived = [t \in Threads |-> 0], departed = [t \in Threads |-> 0];
  fair process (T \in Threads) variable c = 0;
  {
   loop: while (arrived[self] < K) {
     arr:  arrived[self] := arrived[self] + 1; lsense[self] := ~lsense[self];
     dec:  count := count - 1; c := count;            \* if (--count == 0)
     chk:  if (c = 0) {
             if (Swap) { relS: sense := lsense[self]; resetS: count := P; }
             else { reset: count := P;                  \* count = num
                    rel:   sense := lsense[self]; }     \* sense = lsense
           } else {
     spin:   await sense = lsense[self];               \* while (sense != lsense) asmPause()
           };
     dep:  departed[self] := departed[self] + 1;
   }
  }
} *)
\* BEGIN TRANSLATION
VARIABLES pc, count, sense, lsense, arrived, departed, c

vars == << pc, count, sense, lsense, arrived, departed, c >>

ProcSet == (Threads)

Init == (* Global variables *)
        /\ count = P
        /\ sense = FALSE
        /\ lsense = [t \in Threads |-> FALSE]
        /\ arrived = [t \in Threads |-> 0]
        /\ departed = [t \in Threads |-> 0]
        (* Process T *)
        /\ c = [self \in Threads |-> 0]
        /\ pc = [self \in ProcSet |-> "loop"]

loop(self) == /\ pc[self] = "loop"
              /\ IF arrived[self] < K
                    THEN /\ pc' = [pc EXCEPT ![self] = "arr"]
                    ELSE /\ pc' = [pc EXCEPT ![self] = "Done"]
              /\ UNCHANGED << count, sense, lsense, arrived, departed, c >>

arr(self) == /\ pc[self] = "arr"
             /\ arrived' = [arrived EXCEPT ![self] = arrived[self] + 1]
             /\ lsense' = [lsense EXCEPT ![self] = ~lsense[self]]
             /\ pc' = [pc EXCEPT ![self] = "dec"]
             /\ UNCHANGED << count, sense, departed, c >>

dec(self) == /\ pc[self] = "dec"
             /\ count' = count - 1
             /\ c' = [c EXCEPT ![self] = count']
             /\ pc' = [pc EXCEPT ![self] = "chk"]
             /\ UNCHANGED << sense, lsense, arrived, departed >>

chk(self) == /\ pc[self] = "chk"
             /\ IF c[self] = 0
                   THEN /\ IF Swap
                              THEN /\ pc' = [pc EXCEPT ![self] = "relS"]
                              ELSE /\ pc' = [pc EXCEPT ![self] = "reset"]
                   ELSE /\ pc' = [pc EXCEPT ![self] = "spin"]
             /\ UNCHANGED << count, sense, lsense, arrived, departed, c >>

spin(self) == /\ pc[self] = "spin"
              /\ sense = lsense[self]
              /\ pc' = [pc EXCEPT ![self] = "dep"]
              /\ UNCHANGED << count, sense, lsense, arrived, departed, c >>

relS(self) == /\ pc[self] = "relS"
              /\ sense' = lsense[self]
              /\ pc' = [pc EXCEPT ![self] = "resetS"]
              /\ UNCHANGED << count, lsense, arrived, departed, c >>

resetS(self) == /\ pc[self] = "resetS"
                /\ count' = P
                /\ pc' = [pc EXCEPT ![self] = "dep"]
                /\ UNCHANGED << sense, lsense, arrived, departed, c >>

reset(self) == /\ pc[self] = "reset"
               /\ count' = P
               /\ pc' = [pc EXCEPT ![self] = "rel"]
               /\ UNCHANGED << sense, lsense, arrived, departed, c >>

rel(self) == /\ pc[self] = "rel"
             /\ sense' = lsense[self]
             /\ pc' = [pc EXCEPT ![self] = "dep"]
             /\ UNCHANGED << count, lsense, arrived, departed, c >>

dep(self) == /\ pc[self] = "dep"
             /\ departed' = [departed EXCEPT ![self] = departed[self] + 1]
             /\ pc' = [pc EXCEPT ![self] = "loop"]
             /\ UNCHANGED << count, sense, lsense, arrived, c >>

T(self) == loop(self) \/ arr(self) \/ dec(self) \/ chk(self) \/ spin(self)
              \/ relS(self) \/ resetS(self) \/ reset(self) \/ rel(self)
              \/ dep(self)

(* Allow infinite stuttering to prevent deadlock on termination. *)
Terminating == /\ \A self \in ProcSet: pc[self] = "Done"
               /\ UNCHANGED vars

Next == (\E self \in Threads: T(self))
           \/ Terminating

Spec == /\ Init /\ [][Next]_vars
        /\ \A self \in Threads : WF_vars(T(self))

Termination == <>(\A self \in ProcSet: pc[self] = "Done")

\* END TRANSLATION
PhaseSeparation == \A t, u \in Threads : departed[t] <= arrived[u]
AllDone == <>(\A t \in Threads : pc[t] = "Done")
=============================================================================
