CONSTANTS
  P = 3
  K = 2
  Generation = TRUE
SPECIFICATION Spec
INVARIANT PhaseSeparation
PROPERTY AllDone
CHECK_DEADLOCK FALSE
