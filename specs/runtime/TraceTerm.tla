------------------------------ MODULE TraceTerm ------------------------------
(* Trace validation for C04: the event log of the ledger program on the real    *)
(* detectors is replayed on TerminationAbs; an event that is not enabled in     *)
(* the abstract specification is a violation.                                   *)
EXTENDS TerminationAbs, Sequences, Json, IOUtils, TLC
Tr == ndJsonDeserialize(IOEnv.TRACE)
VARIABLES l, dead
tvars == <<l, dead, n, inbox, holding, dirty, observed>>
TInit == l = 1 /\ dead = TRUE /\ Init
Rej(r) == PrintT(<<"REJECT", l, r.ev>>)
Act(r) ==
  CASE r.ev = "seed" -> Seed(r.t)
    [] r.ev = "loop" -> Loop(r.n)
    [] r.ev = "init" -> r.t \in Threads /\ UNCHANGED vars
    [] r.ev = "take" -> Take(r.t)
    [] r.ev = "xfer" -> Xfer(r.t, r.u)
    [] r.ev = "done" -> Done(r.t)
    [] r.ev = "report" -> Report(r.t, r.did = 1)
    [] r.ev = "observe" -> Observe(r.t)
    [] r.ev = "returned" -> Returned /\ ~Outstanding /\ UNCHANGED vars
    [] r.ev = "end" -> UNCHANGED vars
    [] OTHER -> FALSE
TNext ==
  /\ l <= Len(Tr)
  /\ l' = l + 1
  /\ LET r == Tr[l] IN
     IF r.ev = "reset" THEN dead' = FALSE /\ n' = 0 /\ inbox' = Zero /\ holding' = Nobody /\ dirty' = Nobody /\ observed' = Nobody
     ELSE IF dead THEN UNCHANGED <<dead, vars>>
     ELSE IF ENABLED Act(r) THEN Act(r) /\ UNCHANGED dead
     ELSE Rej(r) /\ dead' = TRUE /\ UNCHANGED vars
TSpec == TInit /\ [][TNext]_tvars
Consumed == TLCGet("stats").diameter = Len(Tr) + 1
=============================================================================
