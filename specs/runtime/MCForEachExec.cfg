SPECIFICATION Spec
CONSTANTS Threads = {1, 2} Items = {1, 2, 3, 4} Initial = {1, 2} KeepAbortedPushes = FALSE Nhood <- NhoodA Children <- ChildrenA
INVARIANTS AtMostOnce WorkConserved OwnedOnlyByRunning
CHECK_DEADLOCK FALSE
