------------------------------ MODULE TraceDoAll ------------------------------
EXTENDS DoAllAbs, Json, IOUtils, TLC
Tr == ndJsonDeserialize(IOEnv.TRACE)
VARIABLE l
RecOK(r) == CASE r.k = "doall" -> DoAllOK(r) [] r.k = "regions" -> RegionsOK(r) [] OTHER -> FALSE
Init == l = 1
Next == /\ l <= Len(Tr) /\ l' = l + 1
        /\ IF RecOK(Tr[l]) THEN TRUE ELSE PrintT(<<"REJECT", l, Tr[l].k>>)
Spec == Init /\ [][Next]_l
Consumed == TLCGet("stats").diameter = Len(Tr) + 1
=============================================================================
