------------------------------ MODULE TraceDoAll ------------------------------
EXTENDS DoAllAbs, Json, IOUtils, TLC
Tr == ndJsonDeserialize(IOEnv.TRACE)
VARIABLE l
\* (a line cut short by a harness that was killed arrives as a crash record without a kind: rejected)
RecOK(r) == IF "k" \notin DOMAIN r THEN FALSE ELSE CASE r.k = "doall" -> DoAllOK(r) [] r.k = "regions" -> RegionsOK(r) [] OTHER -> FALSE
Init == l = 1
Next == /\ l <= Len(Tr) /\ l' = l + 1
        /\ IF RecOK(Tr[l]) THEN TRUE ELSE PrintT(<<"REJECT", l, IF "k" \in DOMAIN Tr[l] THEN Tr[l].k ELSE "crash">>)
Spec == Init /\ [][Next]_l
Consumed == TLCGet("stats").diameter = Len(Tr) + 1
=============================================================================
