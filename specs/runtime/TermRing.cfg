CONSTANTS
  N = 3
  InitWork = 2
  MaxXfer = 3
  Bound = 10
  NoTaint = FALSE
SPECIFICATION Spec
INVARIANT NoEarlyAnnounce
INVARIANT BoundedAnnounce
PROPERTY Announce
CHECK_DEADLOCK FALSE
