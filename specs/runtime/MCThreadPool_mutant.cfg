CONSTANTS
  M = 4
  Nums <- NumsA
  EarlyDone = TRUE
SPECIFICATION Spec
INVARIANT ExactlyOnce
INVARIANT NeverTwice
PROPERTY MasterFinishes
CHECK_DEADLOCK FALSE
