SPECIFICATION Spec
CONSTANTS T = 3 BarrierBetween = TRUE
INVARIANT SameSums
PROPERTY Termination
CHECK_DEADLOCK FALSE
