----------------------------------- MODULE HB -----------------------------------
(***************************************************************************)
(* C++11 happens-before as vector clocks (C06).  Every synchronisation     *)
(* operation carries the memory_order the code actually requested          *)
(* (0 relaxed, 1 consume, 2 acquire, 3 release, 4 acq_rel, 5 seq_cst):     *)
(*   release store           : the location's release clock := the thread's*)
(*   relaxed store           : the release sequence ends (clock := bottom) *)
(*   read-modify-write       : continues the release sequence; adds the    *)
(*                             thread's clock if it is a release itself    *)
(*   acquire load / RMW      : the thread's clock joins the release clock  *)
(*   mutex lock / unlock     : acquire / release on the mutex              *)
(*   seq_cst operations      : additionally ordered through one global     *)
(*                             clock (over-approximates the SC order: no   *)
(*                             false race reports)                         *)
(* Plain (non-atomic) accesses declared by the harness must be ordered by  *)
(* happens-before: NoRace.                                                 *)
(***************************************************************************)
EXTENDS Naturals, FiniteSets
CONSTANT MaxT
Tids == 0..(MaxT - 1)
VARIABLES C, L, SCclk, lastW, reads
hvars == <<C, L, SCclk, lastW, reads>>
Zero == [u \in Tids |-> 0]
Max(a, b) == IF a > b THEN a ELSE b
Join(a, b) == [u \in Tids |-> Max(a[u], b[u])]
Acq(mo) == mo \in {1, 2, 4, 5}
Rel(mo) == mo \in {3, 4, 5}
Rc(x) == IF x \in DOMAIN L THEN L[x] ELSE Zero
Tick(c, t) == [c EXCEPT ![t] = @ + 1]
SetL(x, c) == [y \in DOMAIN L \cup {x} |-> IF y = x THEN c ELSE L[y]]
HInit == /\ C = [t \in Tids |-> [u \in Tids |-> IF u = t THEN 1 ELSE 0]]
         /\ L = <<>> /\ SCclk = Zero /\ lastW = <<>> /\ reads = <<>>

WithSC(mo, c) == IF mo = 5 THEN Join(c, SCclk) ELSE c
Load(t, x, mo) ==
  LET c1 == WithSC(mo, IF Acq(mo) THEN Join(C[t], Rc(x)) ELSE C[t]) IN
  /\ C' = [C EXCEPT ![t] = c1]
  /\ SCclk' = IF mo = 5 THEN Join(SCclk, c1) ELSE SCclk
  /\ UNCHANGED <<L, lastW, reads>>
Store(t, x, mo) ==
  LET c1 == WithSC(mo, C[t]) IN
  /\ L' = SetL(x, IF Rel(mo) THEN c1 ELSE Zero)
  /\ C' = [C EXCEPT ![t] = Tick(c1, t)]
  /\ SCclk' = IF mo = 5 THEN Join(SCclk, c1) ELSE SCclk
  /\ UNCHANGED <<lastW, reads>>
RMW(t, x, mo) ==
  LET c1 == WithSC(mo, IF Acq(mo) THEN Join(C[t], Rc(x)) ELSE C[t]) IN
  /\ L' = SetL(x, IF Rel(mo) THEN Join(Rc(x), c1) ELSE Rc(x))
  /\ C' = [C EXCEPT ![t] = Tick(c1, t)]
  /\ SCclk' = IF mo = 5 THEN Join(SCclk, c1) ELSE SCclk
  /\ UNCHANGED <<lastW, reads>>
Lock(t, x) == /\ C' = [C EXCEPT ![t] = Join(C[t], Rc(x))] /\ UNCHANGED <<L, SCclk, lastW, reads>>
Unlock(t, x) == /\ L' = SetL(x, C[t]) /\ C' = [C EXCEPT ![t] = Tick(C[t], t)] /\ UNCHANGED <<SCclk, lastW, reads>>

\* ---- plain accesses: NoRace
WOrdered(t, v) == IF v \notin DOMAIN lastW THEN TRUE ELSE lastW[v][2] <= C[t][lastW[v][1]]
ROrdered(t, v) == IF v \notin DOMAIN reads THEN TRUE ELSE \A u \in Tids : reads[v][u] <= C[t][u]
PlainRead(t, v) ==
  /\ WOrdered(t, v)
  /\ reads' = [w \in DOMAIN reads \cup {v} |->
                 IF w = v THEN [(IF v \in DOMAIN reads THEN reads[v] ELSE Zero) EXCEPT ![t] = C[t][t]] ELSE reads[w]]
  /\ UNCHANGED <<C, L, SCclk, lastW>>
PlainWrite(t, v) ==
  /\ WOrdered(t, v) /\ ROrdered(t, v)
  /\ lastW' = [w \in DOMAIN lastW \cup {v} |-> IF w = v THEN <<t, C[t][t]>> ELSE lastW[w]]
  /\ reads' = [w \in DOMAIN reads \cup {v} |-> IF w = v THEN Zero ELSE reads[w]]
  /\ UNCHANGED <<C, L, SCclk>>
=============================================================================
