CONSTANTS
  T = 3
  N = 4
  Chunk = 1
  NoAdvance = FALSE
SPECIFICATION Spec
INVARIANT AtMostOnce
INVARIANT EachOnce
CHECK_DEADLOCK FALSE
