CONSTANTS
  N = 2
  InitWork = 1
  MaxXfer = 3
  Bound = 6
  NoTaint = TRUE
SPECIFICATION Spec
INVARIANT NoEarlyAnnounce
INVARIANT BoundedAnnounce
PROPERTY Announce
CHECK_DEADLOCK FALSE
