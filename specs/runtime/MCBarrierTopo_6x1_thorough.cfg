CONSTANTS
  P = 6
  K = 2
  Sock <- Sock6x1
SPECIFICATION Spec
INVARIANT PhaseSeparation
CHECK_DEADLOCK FALSE
