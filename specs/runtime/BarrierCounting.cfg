CONSTANTS
  P = 3
  K = 3
  Swap = FALSE
SPECIFICATION Spec
INVARIANT PhaseSeparation
PROPERTY AllDone
CHECK_DEADLOCK FALSE
