--------------------------------- MODULE StableIter ---------------------------------
(***************************************************************************)
(* Implementation-level model of worklists::StableIterator<Steal = true>   *)
(* (StableIterator.h): the initial range is divided among the threads;     *)
(* every thread keeps [localBegin, localEnd) private and publishes the     *)
(* upper half of it as its steal range [stealBegin, stealEnd), guarded by  *)
(* stealLock and announced by the flag stealAvail (populateSteal).  A      *)
(* thread whose local range is empty first takes back half of its own      *)
(* steal range (doSteal on itself, waiting for the lock), then tries ONE   *)
(* victim with try_lock; a successful thief publishes half of its loot     *)
(* again.  Every plain access to the shared fields is one step (they are   *)
(* not atomic in the code: the lock is all that protects them).            *)
(*                                                                         *)
(*   ExactlyOnce : no index of the initial range is handed out twice       *)
(*   AllTaken    : when every thread has given up for good, every index    *)
(*                 was handed out                                          *)
(*                                                                         *)
(* OwnerSkipsLock = TRUE is the mutant in which the owner takes back its   *)
(* steal range without the lock ("only the owner refills it"): owner and   *)
(* thief both read the same stealBegin and the range is handed out twice.  *)
(* Controlled schedules of the real code cannot open this window (there    *)
(* is no atomic operation inside it), the free-running bursts of the       *)
(* for_each harness do; this model shows the design-level reason.          *)
(***************************************************************************)
EXTENDS Integers, FiniteSets, Sequences, TLC
CONSTANTS T, N, OwnerSkipsLock
Threads == 0..(T - 1)
Split(b, e) == b + (e - b + 1) \div 2          \* galois::split_range: the middle (upper half may be the smaller one)
(* --algorithm stable {
  variables sb = [t \in Threads |-> 0], se = [t \in Threads |-> 0], avail = [t \in Threads |-> FALSE],
            lock = [t \in Threads |-> FALSE], taken = [i \in 0..(N - 1) |-> 0], gaveUp = [t \in Threads |-> FALSE];
  fair process (W \in Threads)
    variables lb = (self * N) \div T, le = ((self + 1) * N) \div T, v = self, nv = self, fails = 0, rb = 0, re = 0, got = FALSE, self_ = FALSE;
  {
   \* push_initial: populateSteal on the thread's own share
   pi0: if (lb # le) {
   pi1:   await ~lock[self]; lock[self] := TRUE;
   pi2:   se[self] := le;
   pi3:   sb[self] := Split(lb, le); le := Split(lb, le);
   pi4:   if (sb[self] # se[self]) { avail[self] := TRUE; };
   pi5:   lock[self] := FALSE;
        };
   loop: while (~gaveUp[self]) {
   pop:   if (lb # le) { taken[lb] := taken[lb] + 1; lb := lb + 1; }
          else {
            \* pop_steal: first the thread's own steal range (waits for the lock), then one victim (try_lock)
            v := self; self_ := TRUE; got := FALSE;
   ds0:     if (avail[v]) {
              if (self_ /\ OwnerSkipsLock) { skip; }
              else if (self_) { await ~lock[v]; lock[v] := TRUE; }
              else if (lock[v]) { goto dsEnd; }
              else { lock[v] := TRUE; };
   ds1:       rb := sb[v];
   ds2:       re := se[v];
   ds3:       if (rb # re) {
                lb := rb; le := Split(rb, re);
   ds4:         sb[v] := Split(rb, re);
   ds5:         avail[v] := (sb[v] # se[v]);
              };
   ds6:       if (~(self_ /\ OwnerSkipsLock)) { lock[v] := FALSE; };
            };
   dsEnd:   if (lb # le) {
              if (~self_) {
                \* share the wealth: populateSteal
   sh1:         await ~lock[self]; lock[self] := TRUE;
   sh2:         se[self] := le;
   sh3:         sb[self] := Split(lb, le); le := Split(lb, le);
   sh4:         if (sb[self] # se[self]) { avail[self] := TRUE; };
   sh5:         lock[self] := FALSE;
              };
            } else if (self_) {
              \* own range empty: one other victim (round robin), with try_lock
              self_ := FALSE; v := nv;
              if (v # self) { goto ds0; } else { nv := (nv + 1) % T; fails := IF fails > 2 * T THEN fails ELSE fails + 1; };
            } else {
              nv := (nv + 1) % T; fails := IF fails > 2 * T THEN fails ELSE fails + 1;
              \* the executor gives up once nobody announces anything any more (termination detection is abstracted)
              if (fails > 2 * T /\ \A t \in Threads : ~avail[t]) { gaveUp[self] := TRUE; };
            };
          };
        };
  }
} *)
\* BEGIN TRANSLATION
VARIABLES pc, sb, se, avail, lock, taken, gaveUp, lb, le, v, nv, fails, rb, 
          re, got, self_

vars == << pc, sb, se, avail, lock, taken, gaveUp, lb, le, v, nv, fails, rb, 
           re, got, self_ >>

ProcSet == (Threads)

Init == (* Global variables *)
        /\ sb = [t \in Threads |-> 0]
        /\ se = [t \in Threads |-> 0]
        /\ avail = [t \in Threads |-> FALSE]
        /\ lock = [t \in Threads |-> FALSE]
        /\ taken = [i \in 0..(N - 1) |-> 0]
        /\ gaveUp = [t \in Threads |-> FALSE]
        (* Process W *)
        /\ lb = [self \in Threads |-> (self * N) \div T]
        /\ le = [self \in Threads |-> ((self + 1) * N) \div T]
        /\ v = [self \in Threads |-> self]
        /\ nv = [self \in Threads |-> self]
        /\ fails = [self \in Threads |-> 0]
        /\ rb = [self \in Threads |-> 0]
        /\ re = [self \in Threads |-> 0]
        /\ got = [self \in Threads |-> FALSE]
        /\ self_ = [self \in Threads |-> FALSE]
        /\ pc = [self \in ProcSet |-> "pi0"]

pi0(self) == /\ pc[self] = "pi0"
             /\ IF lb[self] # le[self]
                   THEN /\ pc' = [pc EXCEPT ![self] = "pi1"]
                   ELSE /\ pc' = [pc EXCEPT ![self] = "loop"]
             /\ UNCHANGED << sb, se, avail, lock, taken, gaveUp, lb, le, v, nv, 
                             fails, rb, re, got, self_ >>

pi1(self) == /\ pc[self] = "pi1"
             /\ ~lock[self]
             /\ lock' = [lock EXCEPT ![self] = TRUE]
             /\ pc' = [pc EXCEPT ![self] = "pi2"]
             /\ UNCHANGED << sb, se, avail, taken, gaveUp, lb, le, v, nv, 
                             fails, rb, re, got, self_ >>

pi2(self) == /\ pc[self] = "pi2"
             /\ se' = [se EXCEPT ![self] = le[self]]
             /\ pc' = [pc EXCEPT ![self] = "pi3"]
             /\ UNCHANGED << sb, avail, lock, taken, gaveUp, lb, le, v, nv, 
                             fails, rb, re, got, self_ >>

pi3(self) == /\ pc[self] = "pi3"
             /\ sb' = [sb EXCEPT ![self] = Split(lb[self], le[self])]
             /\ le' = [le EXCEPT ![self] = Split(lb[self], le[self])]
             /\ pc' = [pc EXCEPT ![self] = "pi4"]
             /\ UNCHANGED << se, avail, lock, taken, gaveUp, lb, v, nv, fails, 
                             rb, re, got, self_ >>

pi4(self) == /\ pc[self] = "pi4"
             /\ IF sb[self] # se[self]
                   THEN /\ avail' = [avail EXCEPT ![self] = TRUE]
                   ELSE /\ TRUE
                        /\ avail' = avail
             /\ pc' = [pc EXCEPT ![self] = "pi5"]
             /\ UNCHANGED << sb, se, lock, taken, gaveUp, lb, le, v, nv, fails, 
                             rb, re, got, self_ >>

pi5(self) == /\ pc[self] = "pi5"
             /\ lock' = [lock EXCEPT ![self] = FALSE]
             /\ pc' = [pc EXCEPT ![self] = "loop"]
             /\ UNCHANGED << sb, se, avail, taken, gaveUp, lb, le, v, nv, 
                             fails, rb, re, got, self_ >>

loop(self) == /\ pc[self] = "loop"
              /\ IF ~gaveUp[self]
                    THEN /\ pc' = [pc EXCEPT ![self] = "pop"]
                    ELSE /\ pc' = [pc EXCEPT ![self] = "Done"]
              /\ UNCHANGED << sb, se, avail, lock, taken, gaveUp, lb, le, v, 
                              nv, fails, rb, re, got, self_ >>

pop(self) == /\ pc[self] = "pop"
             /\ IF lb[self] # le[self]
                   THEN /\ taken' = [taken EXCEPT ![lb[self]] = taken[lb[self]] + 1]
                        /\ lb' = [lb EXCEPT ![self] = lb[self] + 1]
                        /\ pc' = [pc EXCEPT ![self] = "loop"]
                        /\ UNCHANGED << v, got, self_ >>
                   ELSE /\ v' = [v EXCEPT ![self] = self]
                        /\ self_' = [self_ EXCEPT ![self] = TRUE]
                        /\ got' = [got EXCEPT ![self] = FALSE]
                        /\ pc' = [pc EXCEPT ![self] = "ds0"]
                        /\ UNCHANGED << taken, lb >>
             /\ UNCHANGED << sb, se, avail, lock, gaveUp, le, nv, fails, rb, 
                             re >>

ds0(self) == /\ pc[self] = "ds0"
             /\ IF avail[v[self]]
                   THEN /\ IF self_[self] /\ OwnerSkipsLock
                              THEN /\ TRUE
                                   /\ pc' = [pc EXCEPT ![self] = "ds1"]
                                   /\ lock' = lock
                              ELSE /\ IF self_[self]
                                         THEN /\ ~lock[v[self]]
                                              /\ lock' = [lock EXCEPT ![v[self]] = TRUE]
                                              /\ pc' = [pc EXCEPT ![self] = "ds1"]
                                         ELSE /\ IF lock[v[self]]
                                                    THEN /\ pc' = [pc EXCEPT ![self] = "dsEnd"]
                                                         /\ lock' = lock
                                                    ELSE /\ lock' = [lock EXCEPT ![v[self]] = TRUE]
                                                         /\ pc' = [pc EXCEPT ![self] = "ds1"]
                   ELSE /\ pc' = [pc EXCEPT ![self] = "dsEnd"]
                        /\ lock' = lock
             /\ UNCHANGED << sb, se, avail, taken, gaveUp, lb, le, v, nv, 
                             fails, rb, re, got, self_ >>

ds1(self) == /\ pc[self] = "ds1"
             /\ rb' = [rb EXCEPT ![self] = sb[v[self]]]
             /\ pc' = [pc EXCEPT ![self] = "ds2"]
             /\ UNCHANGED << sb, se, avail, lock, taken, gaveUp, lb, le, v, nv, 
                             fails, re, got, self_ >>

ds2(self) == /\ pc[self] = "ds2"
             /\ re' = [re EXCEPT ![self] = se[v[self]]]
             /\ pc' = [pc EXCEPT ![self] = "ds3"]
             /\ UNCHANGED << sb, se, avail, lock, taken, gaveUp, lb, le, v, nv, 
                             fails, rb, got, self_ >>

ds3(self) == /\ pc[self] = "ds3"
             /\ IF rb[self] # re[self]
                   THEN /\ lb' = [lb EXCEPT ![self] = rb[self]]
                        /\ le' = [le EXCEPT ![self] = Split(rb[self], re[self])]
                        /\ pc' = [pc EXCEPT ![self] = "ds4"]
                   ELSE /\ pc' = [pc EXCEPT ![self] = "ds6"]
                        /\ UNCHANGED << lb, le >>
             /\ UNCHANGED << sb, se, avail, lock, taken, gaveUp, v, nv, fails, 
                             rb, re, got, self_ >>

ds4(self) == /\ pc[self] = "ds4"
             /\ sb' = [sb EXCEPT ![v[self]] = Split(rb[self], re[self])]
             /\ pc' = [pc EXCEPT ![self] = "ds5"]
             /\ UNCHANGED << se, avail, lock, taken, gaveUp, lb, le, v, nv, 
                             fails, rb, re, got, self_ >>

ds5(self) == /\ pc[self] = "ds5"
             /\ avail' = [avail EXCEPT ![v[self]] = (sb[v[self]] # se[v[self]])]
             /\ pc' = [pc EXCEPT ![self] = "ds6"]
             /\ UNCHANGED << sb, se, lock, taken, gaveUp, lb, le, v, nv, fails, 
                             rb, re, got, self_ >>

ds6(self) == /\ pc[self] = "ds6"
             /\ IF ~(self_[self] /\ OwnerSkipsLock)
                   THEN /\ lock' = [lock EXCEPT ![v[self]] = FALSE]
                   ELSE /\ TRUE
                        /\ lock' = lock
             /\ pc' = [pc EXCEPT ![self] = "dsEnd"]
             /\ UNCHANGED << sb, se, avail, taken, gaveUp, lb, le, v, nv, 
                             fails, rb, re, got, self_ >>

dsEnd(self) == /\ pc[self] = "dsEnd"
               /\ IF lb[self] # le[self]
                     THEN /\ IF ~self_[self]
                                THEN /\ pc' = [pc EXCEPT ![self] = "sh1"]
                                ELSE /\ pc' = [pc EXCEPT ![self] = "loop"]
                          /\ UNCHANGED << gaveUp, v, nv, fails, self_ >>
                     ELSE /\ IF self_[self]
                                THEN /\ self_' = [self_ EXCEPT ![self] = FALSE]
                                     /\ v' = [v EXCEPT ![self] = nv[self]]
                                     /\ IF v'[self] # self
                                           THEN /\ pc' = [pc EXCEPT ![self] = "ds0"]
                                                /\ UNCHANGED << nv, fails >>
                                           ELSE /\ nv' = [nv EXCEPT ![self] = (nv[self] + 1) % T]
                                                /\ fails' = [fails EXCEPT ![self] = IF fails[self] > 2 * T THEN fails[self] ELSE fails[self] + 1]
                                                /\ pc' = [pc EXCEPT ![self] = "loop"]
                                     /\ UNCHANGED gaveUp
                                ELSE /\ nv' = [nv EXCEPT ![self] = (nv[self] + 1) % T]
                                     /\ fails' = [fails EXCEPT ![self] = IF fails[self] > 2 * T THEN fails[self] ELSE fails[self] + 1]
                                     /\ IF fails'[self] > 2 * T /\ \A t \in Threads : ~avail[t]
                                           THEN /\ gaveUp' = [gaveUp EXCEPT ![self] = TRUE]
                                           ELSE /\ TRUE
                                                /\ UNCHANGED gaveUp
                                     /\ pc' = [pc EXCEPT ![self] = "loop"]
                                     /\ UNCHANGED << v, self_ >>
               /\ UNCHANGED << sb, se, avail, lock, taken, lb, le, rb, re, got >>

sh1(self) == /\ pc[self] = "sh1"
             /\ ~lock[self]
             /\ lock' = [lock EXCEPT ![self] = TRUE]
             /\ pc' = [pc EXCEPT ![self] = "sh2"]
             /\ UNCHANGED << sb, se, avail, taken, gaveUp, lb, le, v, nv, 
                             fails, rb, re, got, self_ >>

sh2(self) == /\ pc[self] = "sh2"
             /\ se' = [se EXCEPT ![self] = le[self]]
             /\ pc' = [pc EXCEPT ![self] = "sh3"]
             /\ UNCHANGED << sb, avail, lock, taken, gaveUp, lb, le, v, nv, 
                             fails, rb, re, got, self_ >>

sh3(self) == /\ pc[self] = "sh3"
             /\ sb' = [sb EXCEPT ![self] = Split(lb[self], le[self])]
             /\ le' = [le EXCEPT ![self] = Split(lb[self], le[self])]
             /\ pc' = [pc EXCEPT ![self] = "sh4"]
             /\ UNCHANGED << se, avail, lock, taken, gaveUp, lb, v, nv, fails, 
                             rb, re, got, self_ >>

sh4(self) == /\ pc[self] = "sh4"
             /\ IF sb[self] # se[self]
                   THEN /\ avail' = [avail EXCEPT ![self] = TRUE]
                   ELSE /\ TRUE
                        /\ avail' = avail
             /\ pc' = [pc EXCEPT ![self] = "sh5"]
             /\ UNCHANGED << sb, se, lock, taken, gaveUp, lb, le, v, nv, fails, 
                             rb, re, got, self_ >>

sh5(self) == /\ pc[self] = "sh5"
             /\ lock' = [lock EXCEPT ![self] = FALSE]
             /\ pc' = [pc EXCEPT ![self] = "loop"]
             /\ UNCHANGED << sb, se, avail, taken, gaveUp, lb, le, v, nv, 
                             fails, rb, re, got, self_ >>

W(self) == pi0(self) \/ pi1(self) \/ pi2(self) \/ pi3(self) \/ pi4(self)
              \/ pi5(self) \/ loop(self) \/ pop(self) \/ ds0(self)
              \/ ds1(self) \/ ds2(self) \/ ds3(self) \/ ds4(self)
              \/ ds5(self) \/ ds6(self) \/ dsEnd(self) \/ sh1(self)
              \/ sh2(self) \/ sh3(self) \/ sh4(self) \/ sh5(self)

(* Allow infinite stuttering to prevent deadlock on termination. *)
Terminating == /\ \A self \in ProcSet: pc[self] = "Done"
               /\ UNCHANGED vars

Next == (\E self \in Threads: W(self))
           \/ Terminating

Spec == /\ Init /\ [][Next]_vars
        /\ \A self \in Threads : WF_vars(W(self))

Termination == <>(\A self \in ProcSet: pc[self] = "Done")

\* END TRANSLATION
ExactlyOnce == \A i \in 0..(N - 1) : taken[i] <= 1
AllDone == \A t \in Threads : pc[t] = "Done"
AllTaken == AllDone => \A i \in 0..(N - 1) : taken[i] = 1
=============================================================================
