----------------------------- MODULE TraceForEach -----------------------------
(* Trace validation for C01 / C02 / C08 (and the conservation/isolation part of  *)
(* C07): the operator-level event log of a real galois::for_each is replayed on  *)
(* ForEachAbs.  Conflict aborts leave no event (the operator is left by longjmp):*)
(* the specification infers them (an attempt that loses an object or its item    *)
(* while it can still abort is doomed and must never acquire, reach its cautious *)
(* point or commit).  An event that is not enabled is a violation.               *)
EXTENDS ForEachAbs, Json, IOUtils, TLC
Tr == ndJsonDeserialize(IOEnv.TRACE)
VARIABLES l, dead
tvars == <<l, dead, pending, committed, run, owner, objlog, round, kind, desc>>
Empty == <<>>   \* function with empty domain
TInit == /\ l = 1 /\ dead = TRUE /\ pending = {} /\ committed = {} /\ run = [t \in Workers |-> Idle]
         /\ owner = Empty /\ objlog = Empty /\ round = Empty /\ kind = "plain" /\ desc = 0
\* why a start event is not enabled (for the violation signature)
StartReason(r) ==
  IF r.i \notin pending /\ r.i \in committed THEN "start:already-committed"
  ELSE IF r.i \notin pending THEN "start:not-pending"
  ELSE IF run[r.t].phase = "cau" THEN "start:previous-attempt-unfinished"
  ELSE IF \E u \in Workers : u # r.t /\ run[u].item = r.i /\ run[u].phase \in {"pre", "cau", "abort"} /\ ~CanLose(u)
       THEN "start:running-elsewhere"
  ELSE IF ~LevelOK(r.t, r.i, r.lv) THEN "start:level-order"
  ELSE "start:other"
ReturnReason == IF pending # {} THEN "return:work-left" ELSE "return:iteration-unfinished"
Rej(r) == PrintT(<<"REJECT", l, IF r.ev = "start" THEN StartReason(r) ELSE IF r.ev = "return" THEN ReturnReason ELSE r.ev>>)
Act(r) ==
  CASE r.ev = "start" -> Start(r.t, r.i, r.lv)
    [] r.ev = "push" -> Push(r.t, r.i, r.c, r.clv)
    [] r.ev = "try" -> Try(r.t, r.o)
    [] r.ev = "acq" -> Acquire(r.t, r.o)
    [] r.ev = "vabort" -> VAbort(r.t, r.i)
    [] r.ev = "cautious" -> Cautious(r.t, r.i)
    [] r.ev = "finish" -> Commit(r.t, r.i)
    [] r.ev = "return" -> Return
    [] r.ev = "final" -> Final(r.o, r.owned, r.log, r.n)
    [] r.ev = "end" -> UNCHANGED avars
    [] OTHER -> FALSE           \* foreign stamp, corrupted per-iteration block, hang, crash
TNext ==
  /\ l <= Len(Tr)
  /\ l' = l + 1
  /\ LET r == Tr[l] IN
     IF r.ev = "reset"
     THEN /\ dead' = FALSE /\ pending' = {r.init[k] : k \in 1..Len(r.init)} /\ committed' = {}
          /\ run' = [t \in Workers |-> Idle] /\ owner' = Empty /\ objlog' = Empty
          /\ round' = [j \in {r.init[k] : k \in 1..Len(r.init)} |->
                         IF r.kind = "level-bsp" THEN 0 ELSE r.initlv[CHOOSE k \in 1..Len(r.init) : r.init[k] = j]]
          /\ kind' = r.kind /\ desc' = r.desc
     ELSE IF dead THEN UNCHANGED <<dead, avars>>
     ELSE IF ENABLED Act(r) THEN Act(r) /\ UNCHANGED dead
     ELSE Rej(r) /\ dead' = TRUE /\ UNCHANGED avars
TSpec == TInit /\ [][TNext]_tvars
Consumed == TLCGet("stats").diameter = Len(Tr) + 1
=============================================================================
