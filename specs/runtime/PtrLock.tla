---------------------------------- MODULE PtrLock ----------------------------------
(***************************************************************************)
(* Implementation-level model of galois::substrate::PtrLock (libgalois/    *)
(* include/galois/substrate/PtrLock.h, src/PtrLock.cpp): one word holds a  *)
(* pointer and, in its lowest bit, a lock.  lock(): compare-and-swap from  *)
(* the unlocked value it just read to the same value with the bit set; on  *)
(* failure the slow path spins until the bit is clear and then does        *)
(* fetch_or(1), succeeding if the bit was clear in the value it got back.  *)
(* unlock() stores the value without the bit, unlock_and_set(p) stores p.  *)
(* The word is modelled as <<value, bit>>.  BlindOr = TRUE is the mutant   *)
(* whose slow path does not look at the value fetch_or returned.           *)
(***************************************************************************)
EXTENDS Integers, FiniteSets
CONSTANTS Thr, Vals, BlindOr
VARIABLES word, pc, seen, holder, shadow
vars == <<word, pc, seen, holder, shadow>>
Init == word = <<0, 0>> /\ pc = [t \in Thr |-> "idle"] /\ seen = [t \in Thr |-> 0] /\ holder = {} /\ shadow = 0
\* fast path: read, then CAS(read value without bit -> with bit)
Read(t) == /\ pc[t] = "idle" /\ seen' = [seen EXCEPT ![t] = word[1]] /\ pc' = [pc EXCEPT ![t] = "cas"] /\ UNCHANGED <<word, holder, shadow>>
Cas(t) == /\ pc[t] = "cas"
          /\ IF word = <<seen[t], 0>> THEN /\ word' = <<seen[t], 1>> /\ pc' = [pc EXCEPT ![t] = "held"] /\ holder' = holder \cup {t}
             ELSE pc' = [pc EXCEPT ![t] = "spin"] /\ UNCHANGED <<word, holder>>
          /\ UNCHANGED <<seen, shadow>>
\* slow path: wait until the bit is clear, then fetch_or(1)
Spin(t) == /\ pc[t] = "spin" /\ word[2] = 0 /\ pc' = [pc EXCEPT ![t] = "or"] /\ UNCHANGED <<word, seen, holder, shadow>>
Or(t) == /\ pc[t] = "or"
         /\ IF word[2] = 0 \/ BlindOr THEN /\ word' = <<word[1], 1>> /\ pc' = [pc EXCEPT ![t] = "held"] /\ holder' = holder \cup {t}
            ELSE pc' = [pc EXCEPT ![t] = "spin"] /\ UNCHANGED <<word, holder>>
         /\ UNCHANGED <<seen, shadow>>
\* inside the critical section the holder may replace the pointer; shadow is what the last holder left behind
Unlock(t) == /\ pc[t] = "held" /\ word' = <<word[1], 0>> /\ pc' = [pc EXCEPT ![t] = "idle"] /\ holder' = holder \ {t} /\ UNCHANGED <<seen, shadow>>
UnlockAndSet(t, v) == /\ pc[t] = "held" /\ word' = <<v, 0>> /\ shadow' = v /\ pc' = [pc EXCEPT ![t] = "idle"] /\ holder' = holder \ {t} /\ UNCHANGED seen
Next == \E t \in Thr : Read(t) \/ Cas(t) \/ Spin(t) \/ Or(t) \/ Unlock(t) \/ (\E v \in Vals : UnlockAndSet(t, v))
Spec == Init /\ [][Next]_vars /\ \A t \in Thr : WF_vars(Unlock(t)) /\ WF_vars(Cas(t)) /\ WF_vars(Or(t)) /\ WF_vars(Spin(t))
MutualExclusion == Cardinality(holder) <= 1
\* the pointer is only ever changed by the holder: outside critical sections the word holds what the last holder stored
ValuePreserved == word[1] = shadow
BitMeansHeld == (word[2] = 1) = (holder # {})
=============================================================================
