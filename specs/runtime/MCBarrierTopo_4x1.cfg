CONSTANTS
  P = 4
  K = 3
  Sock <- Sock4x1
SPECIFICATION Spec
INVARIANT PhaseSeparation
PROPERTY AllDone
CHECK_DEADLOCK FALSE
