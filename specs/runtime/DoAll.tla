--------------------------------- MODULE DoAll ---------------------------------
(***************************************************************************)
(* Implementation-level model of DoAllStealingExec (Executor_DoAll.h):     *)
(* per-thread shared range [beg, end) of size `size` under work_mutex;     *)
(* the owner takes chunks from the front (getWork), thieves take half (or  *)
(* all, when size <= chunk) from the front under try_lock (stealWork) and  *)
(* install the loot as their own range (assignWork); a thread leaves when  *)
(* its own range is empty and it saw no work anywhere (no termination      *)
(* detection: USE_TERM = false).  The in-flight window between stealWork   *)
(* and assignWork is explicit.  Ranges are intervals of 0..N-1.            *)
(*   EachOnce   every element is executed at most once at any time and     *)
(*              exactly once when all threads have left                    *)
(*   NoOrphan   no thread leaves while it holds an in-flight loot          *)
(* NoAdvance = TRUE is the mutant "the thief forgets to advance the        *)
(* victim's begin" (self-test of the invariants).                          *)
(***************************************************************************)
EXTENDS Naturals, FiniteSets, TLC
CONSTANTS T, N, Chunk, NoAdvance
Threads == 0..(T - 1)
Min(a, b) == IF a < b THEN a ELSE b
BlockBeg(t) == Min(((N + T - 1) \div T) * t, N)          \* static block_range assignment
BlockEnd(t) == Min(((N + T - 1) \div T) * (t + 1), N)
(* --algorithm doall {
  variables lo = [t \in Threads |-> BlockBeg(t)], hi = [t \in Threads |-> BlockEnd(t)],
            locked = [t \in Threads |-> FALSE], done = [e \in 0..(N - 1) |-> 0];
  fair process (W \in Threads) variables pb = 0, pe = 0, v = 0, saw = FALSE, sb = 0, se = 0, stole = FALSE, sz = 0;
  {
   work: while (TRUE) {
     \* ---- doWork: getWork under the lock, then run the private chunk
     gw:   await ~locked[self]; locked[self] := TRUE;
     gw2:  if (hi[self] > lo[self]) {
             pb := lo[self]; pe := Min(lo[self] + Chunk, hi[self]); lo[self] := pe;
             locked[self] := FALSE;
     run:    while (pb < pe) { done[pb] := done[pb] + 1; pb := pb + 1; };
             goto gw;
           } else { locked[self] := FALSE; };
     \* ---- trySteal: look at every other thread (victim order abstracted to "any order")
     st0:  saw := FALSE; stole := FALSE; v := 0;
     st1:  while (v < T /\ ~stole) {
             if (v # self /\ hi[v] > lo[v]) {                  \* hasWorkWeak (unlocked read)
               saw := TRUE;
     tl:       if (~locked[v]) {                                  \* try_lock
                 locked[v] := TRUE;
     sw:         if (hi[v] > lo[v]) {
                   sz := IF (hi[v] - lo[v]) > Chunk
                         THEN (hi[v] - lo[v]) \div 2
                         ELSE hi[v] - lo[v];
                   sb := lo[v]; se := lo[v] + sz; lo[v] := IF NoAdvance THEN lo[v] ELSE se; stole := TRUE;
                 };
     ul:         locked[v] := FALSE;
               };
             };
     nx:     v := v + 1;
           };
     as:   if (stole) {
             await ~locked[self]; locked[self] := TRUE;           \* assignWork
     as2:    lo[self] := sb; hi[self] := se; locked[self] := FALSE;
             goto gw;
           };
     ex:   if (~saw) { goto Done; };
   }
  }
} *)
\* BEGIN TRANSLATION
VARIABLES pc, lo, hi, locked, done, pb, pe, v, saw, sb, se, stole, sz

vars == << pc, lo, hi, locked, done, pb, pe, v, saw, sb, se, stole, sz >>

ProcSet == (Threads)

Init == (* Global variables *)
        /\ lo = [t \in Threads |-> BlockBeg(t)]
        /\ hi = [t \in Threads |-> BlockEnd(t)]
        /\ locked = [t \in Threads |-> FALSE]
        /\ done = [e \in 0..(N - 1) |-> 0]
        (* Process W *)
        /\ pb = [self \in Threads |-> 0]
        /\ pe = [self \in Threads |-> 0]
        /\ v = [self \in Threads |-> 0]
        /\ saw = [self \in Threads |-> FALSE]
        /\ sb = [self \in Threads |-> 0]
        /\ se = [self \in Threads |-> 0]
        /\ stole = [self \in Threads |-> FALSE]
        /\ sz = [self \in Threads |-> 0]
        /\ pc = [self \in ProcSet |-> "work"]

work(self) == /\ pc[self] = "work"
              /\ pc' = [pc EXCEPT ![self] = "gw"]
              /\ UNCHANGED << lo, hi, locked, done, pb, pe, v, saw, sb, se, 
                              stole, sz >>

gw(self) == /\ pc[self] = "gw"
            /\ ~locked[self]
            /\ locked' = [locked EXCEPT ![self] = TRUE]
            /\ pc' = [pc EXCEPT ![self] = "gw2"]
            /\ UNCHANGED << lo, hi, done, pb, pe, v, saw, sb, se, stole, sz >>

gw2(self) == /\ pc[self] = "gw2"
             /\ IF hi[self] > lo[self]
                   THEN /\ pb' = [pb EXCEPT ![self] = lo[self]]
                        /\ pe' = [pe EXCEPT ![self] = Min(lo[self] + Chunk, hi[self])]
                        /\ lo' = [lo EXCEPT ![self] = pe'[self]]
                        /\ locked' = [locked EXCEPT ![self] = FALSE]
                        /\ pc' = [pc EXCEPT ![self] = "run"]
                   ELSE /\ locked' = [locked EXCEPT ![self] = FALSE]
                        /\ pc' = [pc EXCEPT ![self] = "st0"]
                        /\ UNCHANGED << lo, pb, pe >>
             /\ UNCHANGED << hi, done, v, saw, sb, se, stole, sz >>

run(self) == /\ pc[self] = "run"
             /\ IF pb[self] < pe[self]
                   THEN /\ done' = [done EXCEPT ![pb[self]] = done[pb[self]] + 1]
                        /\ pb' = [pb EXCEPT ![self] = pb[self] + 1]
                        /\ pc' = [pc EXCEPT ![self] = "run"]
                   ELSE /\ pc' = [pc EXCEPT ![self] = "gw"]
                        /\ UNCHANGED << done, pb >>
             /\ UNCHANGED << lo, hi, locked, pe, v, saw, sb, se, stole, sz >>

st0(self) == /\ pc[self] = "st0"
             /\ saw' = [saw EXCEPT ![self] = FALSE]
             /\ stole' = [stole EXCEPT ![self] = FALSE]
             /\ v' = [v EXCEPT ![self] = 0]
             /\ pc' = [pc EXCEPT ![self] = "st1"]
             /\ UNCHANGED << lo, hi, locked, done, pb, pe, sb, se, sz >>

st1(self) == /\ pc[self] = "st1"
             /\ IF v[self] < T /\ ~stole[self]
                   THEN /\ IF v[self] # self /\ hi[v[self]] > lo[v[self]]
                              THEN /\ saw' = [saw EXCEPT ![self] = TRUE]
                                   /\ pc' = [pc EXCEPT ![self] = "tl"]
                              ELSE /\ pc' = [pc EXCEPT ![self] = "nx"]
                                   /\ saw' = saw
                   ELSE /\ pc' = [pc EXCEPT ![self] = "as"]
                        /\ saw' = saw
             /\ UNCHANGED << lo, hi, locked, done, pb, pe, v, sb, se, stole, 
                             sz >>

nx(self) == /\ pc[self] = "nx"
            /\ v' = [v EXCEPT ![self] = v[self] + 1]
            /\ pc' = [pc EXCEPT ![self] = "st1"]
            /\ UNCHANGED << lo, hi, locked, done, pb, pe, saw, sb, se, stole, 
                            sz >>

tl(self) == /\ pc[self] = "tl"
            /\ IF ~locked[v[self]]
                  THEN /\ locked' = [locked EXCEPT ![v[self]] = TRUE]
                       /\ pc' = [pc EXCEPT ![self] = "sw"]
                  ELSE /\ pc' = [pc EXCEPT ![self] = "nx"]
                       /\ UNCHANGED locked
            /\ UNCHANGED << lo, hi, done, pb, pe, v, saw, sb, se, stole, sz >>

sw(self) == /\ pc[self] = "sw"
            /\ IF hi[v[self]] > lo[v[self]]
                  THEN /\ sz' = [sz EXCEPT ![self] = IF (hi[v[self]] - lo[v[self]]) > Chunk
                                                     THEN (hi[v[self]] - lo[v[self]]) \div 2
                                                     ELSE hi[v[self]] - lo[v[self]]]
                       /\ sb' = [sb EXCEPT ![self] = lo[v[self]]]
                       /\ se' = [se EXCEPT ![self] = lo[v[self]] + sz'[self]]
                       /\ lo' = [lo EXCEPT ![v[self]] = IF NoAdvance THEN lo[v[self]] ELSE se'[self]]
                       /\ stole' = [stole EXCEPT ![self] = TRUE]
                  ELSE /\ TRUE
                       /\ UNCHANGED << lo, sb, se, stole, sz >>
            /\ pc' = [pc EXCEPT ![self] = "ul"]
            /\ UNCHANGED << hi, locked, done, pb, pe, v, saw >>

ul(self) == /\ pc[self] = "ul"
            /\ locked' = [locked EXCEPT ![v[self]] = FALSE]
            /\ pc' = [pc EXCEPT ![self] = "nx"]
            /\ UNCHANGED << lo, hi, done, pb, pe, v, saw, sb, se, stole, sz >>

as(self) == /\ pc[self] = "as"
            /\ IF stole[self]
                  THEN /\ ~locked[self]
                       /\ locked' = [locked EXCEPT ![self] = TRUE]
                       /\ pc' = [pc EXCEPT ![self] = "as2"]
                  ELSE /\ pc' = [pc EXCEPT ![self] = "ex"]
                       /\ UNCHANGED locked
            /\ UNCHANGED << lo, hi, done, pb, pe, v, saw, sb, se, stole, sz >>

as2(self) == /\ pc[self] = "as2"
             /\ lo' = [lo EXCEPT ![self] = sb[self]]
             /\ hi' = [hi EXCEPT ![self] = se[self]]
             /\ locked' = [locked EXCEPT ![self] = FALSE]
             /\ pc' = [pc EXCEPT ![self] = "gw"]
             /\ UNCHANGED << done, pb, pe, v, saw, sb, se, stole, sz >>

ex(self) == /\ pc[self] = "ex"
            /\ IF ~saw[self]
                  THEN /\ pc' = [pc EXCEPT ![self] = "Done"]
                  ELSE /\ pc' = [pc EXCEPT ![self] = "work"]
            /\ UNCHANGED << lo, hi, locked, done, pb, pe, v, saw, sb, se, 
                            stole, sz >>

W(self) == work(self) \/ gw(self) \/ gw2(self) \/ run(self) \/ st0(self)
              \/ st1(self) \/ nx(self) \/ tl(self) \/ sw(self) \/ ul(self)
              \/ as(self) \/ as2(self) \/ ex(self)

(* Allow infinite stuttering to prevent deadlock on termination. *)
Terminating == /\ \A self \in ProcSet: pc[self] = "Done"
               /\ UNCHANGED vars

Next == (\E self \in Threads: W(self))
           \/ Terminating

Spec == /\ Init /\ [][Next]_vars
        /\ \A self \in Threads : WF_vars(W(self))

Termination == <>(\A self \in ProcSet: pc[self] = "Done")

\* END TRANSLATION
AtMostOnce == \A e \in 0..(N - 1) : done[e] <= 1
EachOnce == (\A t \in Threads : pc[t] = "Done") => \A e \in 0..(N - 1) : done[e] = 1
AllLeave == <>(\A t \in Threads : pc[t] = "Done")
=============================================================================
