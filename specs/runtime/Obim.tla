---------------------------------- MODULE Obim ----------------------------------
(***************************************************************************)
(* Implementation-level model of the ordered-by-integer-metric worklist    *)
(* (libgalois/include/galois/worklists/Obim.h, the variant without         *)
(* barrier): one bag per priority, created lazily and published in an      *)
(* append-only master log; every thread keeps a local view of the log      *)
(* (updated lazily), the bag it currently pops from (current / curIndex)   *)
(* and scanStart, the smallest priority it may have to look at again.      *)
(*   push(i): into the current bag if the priority matches, otherwise into *)
(*            the bag of priority i (found in the local view, or after     *)
(*            catching up with / appending to the master log); scanStart   *)
(*            and curIndex move down to i if i is smaller.                 *)
(*   pop():   from the current bag; if that is empty, slowPop: catch up    *)
(*            with the log and scan the local view upwards from the        *)
(*            minimum of the own and the socket leader's scanStart (the    *)
(*            leader uses every thread's).                                 *)
(* The executor around it terminates when every thread has seen an empty   *)
(* pop since the last push or successful pop anywhere near it; the model's *)
(* property is the one the executor relies on: no item is stranded when    *)
(* every thread is idle.  NoBackScanUpdate = TRUE is the mutant in which   *)
(* push does not lower scanStart.                                          *)
(***************************************************************************)
EXTENDS Integers, Sequences, FiniteSets
CONSTANTS Threads, Leader, Prios, MaxPush, NoBackScanUpdate
None == -1
VARIABLES bag,        \* priority -> number of items in that priority's bag
          created,    \* master log: sequence of priorities whose bag exists
          seen,       \* thread -> length of the log prefix in its local view
          cur,        \* thread -> curIndex (None: no current bag)
          scan,       \* thread -> scanStart (large = nothing to rescan)
          idle,       \* thread -> its last pop returned nothing and it has not pushed since
          pushes,     \* total number of pushes so far (bound)
          popped      \* total number of successful pops
vars == <<bag, created, seen, cur, scan, idle, pushes, popped>>
Top == 99
Init == /\ bag = [p \in Prios |-> 0] /\ created = <<>> /\ seen = [t \in Threads |-> 0] /\ cur = [t \in Threads |-> None]
        /\ scan = [t \in Threads |-> Top] /\ idle = [t \in Threads |-> FALSE] /\ pushes = 0 /\ popped = 0
Known(t) == {created[k] : k \in 1..seen[t]}
InLog(p) == \E k \in 1..Len(created) : created[k] = p
\* push by thread t of an item with priority p (an operator pushes only while it is processing an item, or initially)
Push(t, p) ==
  /\ pushes < MaxPush /\ pushes' = pushes + 1 /\ bag' = [bag EXCEPT ![p] = @ + 1] /\ idle' = [idle EXCEPT ![t] = FALSE]
  /\ IF cur[t] = p THEN UNCHANGED <<created, seen, cur, scan>>
     ELSE /\ IF p \in Known(t) THEN UNCHANGED <<created, seen>>
             ELSE IF InLog(p) THEN created' = created /\ seen' = [seen EXCEPT ![t] = Len(created)]            \* catch up with the log
             ELSE created' = Append(created, p) /\ seen' = [seen EXCEPT ![t] = Len(created) + 1]                   \* create and publish
          /\ scan' = [scan EXCEPT ![t] = IF ~NoBackScanUpdate /\ p < @ THEN p ELSE @]
          /\ cur' = [cur EXCEPT ![t] = IF cur[t] = None \/ p < cur[t] THEN p ELSE @]
  /\ UNCHANGED popped
\* pop from the current bag
PopCurrent(t) == /\ cur[t] # None /\ bag[cur[t]] > 0 /\ bag' = [bag EXCEPT ![cur[t]] = @ - 1] /\ popped' = popped + 1
                 /\ idle' = [idle EXCEPT ![t] = FALSE] /\ UNCHANGED <<created, seen, cur, scan, pushes>>
\* slowPop: the current bag is empty (or there is none)
MsS(t) == LET others == IF t = Leader THEN Threads ELSE {t, Leader}
              S == {scan[o] : o \in others} IN CHOOSE x \in S : \A y \in S : x <= y
SlowPop(t) ==
  /\ (IF cur[t] = None THEN TRUE ELSE bag[cur[t]] = 0)
  /\ seen' = [seen EXCEPT ![t] = Len(created)]
  /\ LET view == {created[k] : k \in 1..Len(created)}
         cands == {p \in view : p >= MsS(t) /\ bag[p] > 0} IN
     IF cands = {} THEN /\ idle' = [idle EXCEPT ![t] = TRUE] /\ UNCHANGED <<bag, cur, scan, popped>>
     ELSE LET p == CHOOSE x \in cands : \A y \in cands : x <= y IN
          /\ bag' = [bag EXCEPT ![p] = @ - 1] /\ popped' = popped + 1 /\ cur' = [cur EXCEPT ![t] = p] /\ scan' = [scan EXCEPT ![t] = p]
          /\ idle' = [idle EXCEPT ![t] = FALSE]
  /\ UNCHANGED <<created, pushes>>
Next == \E t \in Threads : PopCurrent(t) \/ SlowPop(t) \/ (\E p \in Prios : Push(t, p))
Spec == Init /\ [][Next]_vars
\* ---- properties
Conservation == popped + (LET S == {<<p, bag[p]>> : p \in Prios} IN
                          LET RECURSIVE Sum(_)
                              Sum(X) == IF X = {} THEN 0 ELSE LET x == CHOOSE y \in X : TRUE IN x[2] + Sum(X \ {x}) IN Sum(S)) = pushes
\* what the executor's termination relies on: when every thread has just seen "empty", nothing is left in any bag
NothingStranded == (\A t \in Threads : idle[t]) => \A p \in Prios : bag[p] = 0
=============================================================================
