CONSTANTS
  T = 2
  N = 6
  Chunk = 2
  NoAdvance = FALSE
SPECIFICATION Spec
INVARIANT AtMostOnce
INVARIANT EachOnce
CHECK_DEADLOCK FALSE
