----------------------------- MODULE BarrierAbs -----------------------------
(***************************************************************************)
(* Property-level specification of a barrier (C05): P participants, each   *)
(* arrives at and departs from phases 1, 2, 3, ...                         *)
(*   PhaseSeparation : nobody departs from phase k before everybody has    *)
(*                     arrived at phase k                                  *)
(*   AllDepart       : everybody does depart (liveness)                    *)
(*   Reusable/Reinit : any number of phases; the participant count may     *)
(*                     change between parallel regions (Reinit)            *)
(***************************************************************************)
EXTENDS Naturals, FiniteSets
CONSTANTS MaxP, MaxK
VARIABLES P, arrived, departed
vars == <<P, arrived, departed>>
Threads == 0..(P - 1)

Init == /\ P \in 1..MaxP
        /\ arrived = [t \in 0..(MaxP - 1) |-> 0]
        /\ departed = [t \in 0..(MaxP - 1) |-> 0]

Arrive(t) == /\ t \in Threads
             /\ arrived[t] = departed[t] /\ arrived[t] < MaxK
             /\ arrived' = [arrived EXCEPT ![t] = @ + 1]
             /\ UNCHANGED <<P, departed>>
CanDepart(t) == /\ t \in Threads /\ arrived[t] = departed[t] + 1
                /\ \A u \in Threads : arrived[u] >= arrived[t]
Depart(t) == /\ CanDepart(t)
             /\ departed' = [departed EXCEPT ![t] = @ + 1]
             /\ UNCHANGED <<P, arrived>>
\* between regions (everybody is outside) the barrier is re-initialised to another count
Quiescent == \A t \in Threads : arrived[t] = departed[t]
Reinit(n) == /\ Quiescent /\ n \in 1..MaxP
             /\ P' = n
             /\ LET k == arrived[0] IN
                /\ arrived' = [t \in 0..(MaxP - 1) |-> k]
                /\ departed' = [t \in 0..(MaxP - 1) |-> k]
Next == (\E t \in 0..(MaxP - 1) : Arrive(t) \/ Depart(t)) \/ (\E n \in 1..MaxP : Reinit(n))
Spec == Init /\ [][Next]_vars /\ \A t \in 0..(MaxP - 1) : WF_vars(Depart(t))

PhaseSeparation == \A t, u \in Threads : departed[t] <= arrived[u]
AllDepart == \A t \in 0..(MaxP - 1) : [](t \in Threads /\ arrived[t] > departed[t] ~> arrived[t] = departed[t])
=============================================================================
