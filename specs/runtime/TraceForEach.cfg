CONSTANT MaxT = 16
SPECIFICATION TSpec
POSTCONDITION Consumed
CHECK_DEADLOCK FALSE
