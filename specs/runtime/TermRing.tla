------------------------------- MODULE TermRing -------------------------------
(***************************************************************************)
(* Implementation-level model of LocalTerminationDetection (Termination.h):*)
(* Dijkstra-style token ring, one label per shared access, composed with a *)
(* work-ledger environment that performs every history C04 lists (a thread *)
(* becoming busy again after passing the token; work handed to a thread    *)
(* that already reported idle).  Loops = number of consecutive loops with  *)
(* re-arming (initializeThread on every thread + barrier).                 *)
(*   NoEarlyAnnounce : globalTerm => nobody holds or is handed work        *)
(*   Announce        : under fairness termination is announced             *)
(*   BoundedAnnounce : once everything is idle, the token makes at most    *)
(*                     Bound further hops (each hop = one idle report of   *)
(*                     the current token holder) before the announcement   *)
(***************************************************************************)
EXTENDS Naturals, FiniteSets, TLC
CONSTANTS N, InitWork, MaxXfer, Bound, NoTaint    \* NoTaint = TRUE: mutant (ignore workHappened)
Threads == 0..(N - 1)
Next1(t) == (t + 1) % N
(* --algorithm ring {
  variables
    \* detector state (TokenHolder per thread)
    tokenIsBlack = [t \in Threads |-> FALSE], hasToken = [t \in Threads |-> t = 0],
    processIsBlack = [t \in Threads |-> TRUE], lastWasWhite = TRUE, globalTerm = FALSE,
    \* environment: work ledger
    inbox = [t \in Threads |-> IF t = 0 THEN InitWork ELSE 0], holding = [t \in Threads |-> FALSE],
    xfers = 0,
    \* ghosts for BoundedAnnounce
    hops = 0;      \* token hops since everything became idle
  define {
    Outstanding == \E t \in Threads : inbox[t] > 0 \/ holding[t]
  }
  fair process (T \in Threads) variables did = FALSE, failed = FALSE, taint = FALSE, seen = FALSE;
  {
   loop: while (~seen) {
     \* ---- runQueue: take what is in my inbox (possibly nothing)
     take: if (inbox[self] > 0) {
             inbox[self] := inbox[self] - 1; holding[self] := TRUE; did := TRUE;
     push:   either { skip; }
             or { with (u \in Threads) { await xfers < MaxXfer; inbox[u] := inbox[u] + 1; xfers := xfers + 1; } };
     fin:    holding[self] := FALSE;
             goto take;
           };
     \* ---- localTermination(did)
     rep:  processIsBlack[self] := processIsBlack[self] \/ (did /\ ~NoTaint);
           if (Outstanding) { hops := 0; };
           did := FALSE;
     ht:   if (hasToken[self]) {                                    \* if (th.hasToken)
             if (self = 0) {
     m1:       failed := tokenIsBlack[self] \/ processIsBlack[self];
               tokenIsBlack[self] := FALSE; processIsBlack[self] := FALSE;
     m2:       if (lastWasWhite /\ ~failed) { globalTerm := TRUE; goto obs; };
     m3:       lastWasWhite := ~failed;
             };
     p1:     taint := processIsBlack[self] \/ tokenIsBlack[self];
             processIsBlack[self] := FALSE; tokenIsBlack[self] := FALSE;
     p2:     hasToken[self] := FALSE;
     p3:     tokenIsBlack[Next1(self)] := taint;                    \* propToken: two stores
     p4:     hasToken[Next1(self)] := TRUE;
             if (~Outstanding) { hops := IF hops > Bound THEN hops ELSE hops + 1; } else { hops := 0; };
           };
     obs:  seen := globalTerm;                                      \* term.globalTermination()
   }
  }
} *)
\* BEGIN TRANSLATION
VARIABLES pc, tokenIsBlack, hasToken, processIsBlack, lastWasWhite, 
          globalTerm, inbox, holding, xfers, hops

(* define statement *)
Outstanding == \E t \in Threads : inbox[t] > 0 \/ holding[t]

VARIABLES did, failed, taint, seen

vars == << pc, tokenIsBlack, hasToken, processIsBlack, lastWasWhite, 
           globalTerm, inbox, holding, xfers, hops, did, failed, taint, seen
        >>

ProcSet == (Threads)

Init == (* Global variables *)
        /\ tokenIsBlack = [t \in Threads |-> FALSE]
        /\ hasToken = [t \in Threads |-> t = 0]
        /\ processIsBlack = [t \in Threads |-> TRUE]
        /\ lastWasWhite = TRUE
        /\ globalTerm = FALSE
        /\ inbox = [t \in Threads |-> IF t = 0 THEN InitWork ELSE 0]
        /\ holding = [t \in Threads |-> FALSE]
        /\ xfers = 0
        /\ hops = 0
        (* Process T *)
        /\ did = [self \in Threads |-> FALSE]
        /\ failed = [self \in Threads |-> FALSE]
        /\ taint = [self \in Threads |-> FALSE]
        /\ seen = [self \in Threads |-> FALSE]
        /\ pc = [self \in ProcSet |-> "loop"]

loop(self) == /\ pc[self] = "loop"
              /\ IF ~seen[self]
                    THEN /\ pc' = [pc EXCEPT ![self] = "take"]
                    ELSE /\ pc' = [pc EXCEPT ![self] = "Done"]
              /\ UNCHANGED << tokenIsBlack, hasToken, processIsBlack, 
                              lastWasWhite, globalTerm, inbox, holding, xfers, 
                              hops, did, failed, taint, seen >>

take(self) == /\ pc[self] = "take"
              /\ IF inbox[self] > 0
                    THEN /\ inbox' = [inbox EXCEPT ![self] = inbox[self] - 1]
                         /\ holding' = [holding EXCEPT ![self] = TRUE]
                         /\ did' = [did EXCEPT ![self] = TRUE]
                         /\ pc' = [pc EXCEPT ![self] = "push"]
                    ELSE /\ pc' = [pc EXCEPT ![self] = "rep"]
                         /\ UNCHANGED << inbox, holding, did >>
              /\ UNCHANGED << tokenIsBlack, hasToken, processIsBlack, 
                              lastWasWhite, globalTerm, xfers, hops, failed, 
                              taint, seen >>

push(self) == /\ pc[self] = "push"
              /\ \/ /\ TRUE
                    /\ UNCHANGED <<inbox, xfers>>
                 \/ /\ \E u \in Threads:
                         /\ xfers < MaxXfer
                         /\ inbox' = [inbox EXCEPT ![u] = inbox[u] + 1]
                         /\ xfers' = xfers + 1
              /\ pc' = [pc EXCEPT ![self] = "fin"]
              /\ UNCHANGED << tokenIsBlack, hasToken, processIsBlack, 
                              lastWasWhite, globalTerm, holding, hops, did, 
                              failed, taint, seen >>

fin(self) == /\ pc[self] = "fin"
             /\ holding' = [holding EXCEPT ![self] = FALSE]
             /\ pc' = [pc EXCEPT ![self] = "take"]
             /\ UNCHANGED << tokenIsBlack, hasToken, processIsBlack, 
                             lastWasWhite, globalTerm, inbox, xfers, hops, did, 
                             failed, taint, seen >>

rep(self) == /\ pc[self] = "rep"
             /\ processIsBlack' = [processIsBlack EXCEPT ![self] = processIsBlack[self] \/ (did[self] /\ ~NoTaint)]
             /\ IF Outstanding
                   THEN /\ hops' = 0
                   ELSE /\ TRUE
                        /\ hops' = hops
             /\ did' = [did EXCEPT ![self] = FALSE]
             /\ pc' = [pc EXCEPT ![self] = "ht"]
             /\ UNCHANGED << tokenIsBlack, hasToken, lastWasWhite, globalTerm, 
                             inbox, holding, xfers, failed, taint, seen >>

ht(self) == /\ pc[self] = "ht"
            /\ IF hasToken[self]
                  THEN /\ IF self = 0
                             THEN /\ pc' = [pc EXCEPT ![self] = "m1"]
                             ELSE /\ pc' = [pc EXCEPT ![self] = "p1"]
                  ELSE /\ pc' = [pc EXCEPT ![self] = "obs"]
            /\ UNCHANGED << tokenIsBlack, hasToken, processIsBlack, 
                            lastWasWhite, globalTerm, inbox, holding, xfers, 
                            hops, did, failed, taint, seen >>

p1(self) == /\ pc[self] = "p1"
            /\ taint' = [taint EXCEPT ![self] = processIsBlack[self] \/ tokenIsBlack[self]]
            /\ processIsBlack' = [processIsBlack EXCEPT ![self] = FALSE]
            /\ tokenIsBlack' = [tokenIsBlack EXCEPT ![self] = FALSE]
            /\ pc' = [pc EXCEPT ![self] = "p2"]
            /\ UNCHANGED << hasToken, lastWasWhite, globalTerm, inbox, holding, 
                            xfers, hops, did, failed, seen >>

p2(self) == /\ pc[self] = "p2"
            /\ hasToken' = [hasToken EXCEPT ![self] = FALSE]
            /\ pc' = [pc EXCEPT ![self] = "p3"]
            /\ UNCHANGED << tokenIsBlack, processIsBlack, lastWasWhite, 
                            globalTerm, inbox, holding, xfers, hops, did, 
                            failed, taint, seen >>

p3(self) == /\ pc[self] = "p3"
            /\ tokenIsBlack' = [tokenIsBlack EXCEPT ![Next1(self)] = taint[self]]
            /\ pc' = [pc EXCEPT ![self] = "p4"]
            /\ UNCHANGED << hasToken, processIsBlack, lastWasWhite, globalTerm, 
                            inbox, holding, xfers, hops, did, failed, taint, 
                            seen >>

p4(self) == /\ pc[self] = "p4"
            /\ hasToken' = [hasToken EXCEPT ![Next1(self)] = TRUE]
            /\ IF ~Outstanding
                  THEN /\ hops' = (IF hops > Bound THEN hops ELSE hops + 1)
                  ELSE /\ hops' = 0
            /\ pc' = [pc EXCEPT ![self] = "obs"]
            /\ UNCHANGED << tokenIsBlack, processIsBlack, lastWasWhite, 
                            globalTerm, inbox, holding, xfers, did, failed, 
                            taint, seen >>

m1(self) == /\ pc[self] = "m1"
            /\ failed' = [failed EXCEPT ![self] = tokenIsBlack[self] \/ processIsBlack[self]]
            /\ tokenIsBlack' = [tokenIsBlack EXCEPT ![self] = FALSE]
            /\ processIsBlack' = [processIsBlack EXCEPT ![self] = FALSE]
            /\ pc' = [pc EXCEPT ![self] = "m2"]
            /\ UNCHANGED << hasToken, lastWasWhite, globalTerm, inbox, holding, 
                            xfers, hops, did, taint, seen >>

m2(self) == /\ pc[self] = "m2"
            /\ IF lastWasWhite /\ ~failed[self]
                  THEN /\ globalTerm' = TRUE
                       /\ pc' = [pc EXCEPT ![self] = "obs"]
                  ELSE /\ pc' = [pc EXCEPT ![self] = "m3"]
                       /\ UNCHANGED globalTerm
            /\ UNCHANGED << tokenIsBlack, hasToken, processIsBlack, 
                            lastWasWhite, inbox, holding, xfers, hops, did, 
                            failed, taint, seen >>

m3(self) == /\ pc[self] = "m3"
            /\ lastWasWhite' = ~failed[self]
            /\ pc' = [pc EXCEPT ![self] = "p1"]
            /\ UNCHANGED << tokenIsBlack, hasToken, processIsBlack, globalTerm, 
                            inbox, holding, xfers, hops, did, failed, taint, 
                            seen >>

obs(self) == /\ pc[self] = "obs"
             /\ seen' = [seen EXCEPT ![self] = globalTerm]
             /\ pc' = [pc EXCEPT ![self] = "loop"]
             /\ UNCHANGED << tokenIsBlack, hasToken, processIsBlack, 
                             lastWasWhite, globalTerm, inbox, holding, xfers, 
                             hops, did, failed, taint >>

T(self) == loop(self) \/ take(self) \/ push(self) \/ fin(self) \/ rep(self)
              \/ ht(self) \/ p1(self) \/ p2(self) \/ p3(self) \/ p4(self)
              \/ m1(self) \/ m2(self) \/ m3(self) \/ obs(self)

(* Allow infinite stuttering to prevent deadlock on termination. *)
Terminating == /\ \A self \in ProcSet: pc[self] = "Done"
               /\ UNCHANGED vars

Next == (\E self \in Threads: T(self))
           \/ Terminating

Spec == /\ Init /\ [][Next]_vars
        /\ \A self \in Threads : WF_vars(T(self))

Termination == <>(\A self \in ProcSet: pc[self] = "Done")

\* END TRANSLATION
NoEarlyAnnounce == globalTerm => ~Outstanding
Announce == <>(\A t \in Threads : pc[t] = "Done")
BoundedAnnounce == hops <= Bound
=============================================================================
