---------------------------- MODULE BarrierSimple ----------------------------
(* Implementation-level model of SimpleBarrier (Barrier_Simple.cpp): two        *)
(* condition-variable "one way" barriers back to back.  Each critical section   *)
(* under the mutex is one label; the condition-variable wait is modelled as     *)
(* release + (blocked until notified, spurious wake-ups allowed) + re-acquire.  *)
(* Generation = FALSE is the barrier as originally shipped (thread 0 resets     *)
(* barrier1.count right after leaving it, unlocked): TLC finds the deadlock.    *)
(* Generation = TRUE is the repaired OneWayBarrier (phase counter).             *)
EXTENDS Naturals, FiniteSets, TLC
CONSTANTS P, K, Generation
Threads == 0..(P - 1)
(* --algorithm simple {
  variables count = [i \in 1..2 |-> 0], gen = [i \in 1..2 |-> 0], lock = [i \in 1..2 |-> FALSE],
            arrived = [t \in Threads |-> 0], departed = [t \in Threads |-> 0];
  fair+ process (T \in Threads) variables b = 1, g = 0;
  {
   loop: while (arrived[self] < K) {
     arr:  arrived[self] := arrived[self] + 1; b := 1;
     one:  while (b <= 2) {
       lk:   await ~lock[b]; lock[b] := TRUE;                       \* unique_lock
       inc:  if (Generation) {
               g := gen[b];
               if (count[b] + 1 >= P) { count[b] := 0; gen[b] := gen[b] + 1; }
               else { count[b] := count[b] + 1; };
             } else { count[b] := count[b] + 1; };
       wt:   while ((Generation /\ g = gen[b]) \/ (~Generation /\ count[b] < P)) {
               lock[b] := FALSE;                                      \* cond.wait releases
       wk:     await ~lock[b] /\ ~((Generation /\ g = gen[b]) \/ (~Generation /\ count[b] < P));
               lock[b] := TRUE;   \* notified, re-acquired, predicate re-evaluated to true (failed wake-ups change nothing)
             };
       ul:   lock[b] := FALSE;                                        \* notify_all; unlock
       ri:   if (self = 0) { count[b] := 0; };                        \* tid 0: barrierN.reinit(total), unlocked
             b := b + 1;
     };
     dep:  departed[self] := departed[self] + 1;
   }
  }
} *)
\* BEGIN TRANSLATION
VARIABLES pc, count, gen, lock, arrived, departed, b, g

vars == << pc, count, gen, lock, arrived, departed, b, g >>

ProcSet == (Threads)

Init == (* Global variables *)
        /\ count = [i \in 1..2 |-> 0]
        /\ gen = [i \in 1..2 |-> 0]
        /\ lock = [i \in 1..2 |-> FALSE]
        /\ arrived = [t \in Threads |-> 0]
        /\ departed = [t \in Threads |-> 0]
        (* Process T *)
        /\ b = [self \in Threads |-> 1]
        /\ g = [self \in Threads |-> 0]
        /\ pc = [self \in ProcSet |-> "loop"]

loop(self) == /\ pc[self] = "loop"
              /\ IF arrived[self] < K
                    THEN /\ pc' = [pc EXCEPT ![self] = "arr"]
                    ELSE /\ pc' = [pc EXCEPT ![self] = "Done"]
              /\ UNCHANGED << count, gen, lock, arrived, departed, b, g >>

arr(self) == /\ pc[self] = "arr"
             /\ arrived' = [arrived EXCEPT ![self] = arrived[self] + 1]
             /\ b' = [b EXCEPT ![self] = 1]
             /\ pc' = [pc EXCEPT ![self] = "one"]
             /\ UNCHANGED << count, gen, lock, departed, g >>

one(self) == /\ pc[self] = "one"
             /\ IF b[self] <= 2
                   THEN /\ pc' = [pc EXCEPT ![self] = "lk"]
                   ELSE /\ pc' = [pc EXCEPT ![self] = "dep"]
             /\ UNCHANGED << count, gen, lock, arrived, departed, b, g >>

lk(self) == /\ pc[self] = "lk"
            /\ ~lock[b[self]]
            /\ lock' = [lock EXCEPT ![b[self]] = TRUE]
            /\ pc' = [pc EXCEPT ![self] = "inc"]
            /\ UNCHANGED << count, gen, arrived, departed, b, g >>

inc(self) == /\ pc[self] = "inc"
             /\ IF Generation
                   THEN /\ g' = [g EXCEPT ![self] = gen[b[self]]]
                        /\ IF count[b[self]] + 1 >= P
                              THEN /\ count' = [count EXCEPT ![b[self]] = 0]
                                   /\ gen' = [gen EXCEPT ![b[self]] = gen[b[self]] + 1]
                              ELSE /\ count' = [count EXCEPT ![b[self]] = count[b[self]] + 1]
                                   /\ gen' = gen
                   ELSE /\ count' = [count EXCEPT ![b[self]] = count[b[self]] + 1]
                        /\ UNCHANGED << gen, g >>
             /\ pc' = [pc EXCEPT ![self] = "wt"]
             /\ UNCHANGED << lock, arrived, departed, b >>

wt(self) == /\ pc[self] = "wt"
            /\ IF (Generation /\ g[self] = gen[b[self]]) \/ (~Generation /\ count[b[self]] < P)
                  THEN /\ lock' = [lock EXCEPT ![b[self]] = FALSE]
                       /\ pc' = [pc EXCEPT ![self] = "wk"]
                  ELSE /\ pc' = [pc EXCEPT ![self] = "ul"]
                       /\ lock' = lock
            /\ UNCHANGED << count, gen, arrived, departed, b, g >>

wk(self) == /\ pc[self] = "wk"
            /\ ~lock[b[self]] /\ ~((Generation /\ g[self] = gen[b[self]]) \/ (~Generation /\ count[b[self]] < P))
            /\ lock' = [lock EXCEPT ![b[self]] = TRUE]
            /\ pc' = [pc EXCEPT ![self] = "wt"]
            /\ UNCHANGED << count, gen, arrived, departed, b, g >>

ul(self) == /\ pc[self] = "ul"
            /\ lock' = [lock EXCEPT ![b[self]] = FALSE]
            /\ pc' = [pc EXCEPT ![self] = "ri"]
            /\ UNCHANGED << count, gen, arrived, departed, b, g >>

ri(self) == /\ pc[self] = "ri"
            /\ IF self = 0
                  THEN /\ count' = [count EXCEPT ![b[self]] = 0]
                  ELSE /\ TRUE
                       /\ count' = count
            /\ b' = [b EXCEPT ![self] = b[self] + 1]
            /\ pc' = [pc EXCEPT ![self] = "one"]
            /\ UNCHANGED << gen, lock, arrived, departed, g >>

dep(self) == /\ pc[self] = "dep"
             /\ departed' = [departed EXCEPT ![self] = departed[self] + 1]
             /\ pc' = [pc EXCEPT ![self] = "loop"]
             /\ UNCHANGED << count, gen, lock, arrived, b, g >>

T(self) == loop(self) \/ arr(self) \/ one(self) \/ lk(self) \/ inc(self)
              \/ wt(self) \/ wk(self) \/ ul(self) \/ ri(self) \/ dep(self)

(* Allow infinite stuttering to prevent deadlock on termination. *)
Terminating == /\ \A self \in ProcSet: pc[self] = "Done"
               /\ UNCHANGED vars

Next == (\E self \in Threads: T(self))
           \/ Terminating

Spec == /\ Init /\ [][Next]_vars
        /\ \A self \in Threads : SF_vars(T(self))

Termination == <>(\A self \in ProcSet: pc[self] = "Done")

\* END TRANSLATION
PhaseSeparation == \A t, u \in Threads : departed[t] <= arrived[u]
AllDone == <>(\A t \in Threads : pc[t] = "Done")
=============================================================================
