------------------------------- MODULE LockMgr -------------------------------
(***************************************************************************)
(* Implementation-level model of Galois' conflict detection (C02):         *)
(* PtrLock::try_lock (relaxed load, fetch_or acq_rel), setValue (load of   *)
(* the lock bit + relaxed store), getOwner, unlock_and_clear (release      *)
(* store), LockManagerBase::tryAcquire -> NEW_OWNER / ALREADY_OWNER /      *)
(* FAIL, the neighbourhood list, commitIteration / cancelIteration, and    *)
(* the executor's abort-and-retry.  One label per shared access.           *)
(* Every thread runs one iteration whose neighbourhood (a sequence of      *)
(* objects, possibly with a repeated object) is chosen in Init.            *)
(*   AtMostOneOwner   no object is in two neighbourhood lists; the lock    *)
(*                    bit is set iff somebody owns (or is about to own) it *)
(*   AbortReleasesAll a cancelled attempt holds nothing when it retries    *)
(*   NoneOwnedAtEnd   when all iterations have committed every word is 0   *)
(*   Serialisable     per object the update log equals the commit order    *)
(* NoRelease = TRUE is the mutant "cancel forgets to release" (self-test). *)
(***************************************************************************)
EXTENDS Naturals, Sequences, FiniteSets, TLC
CONSTANTS T, O, MaxAttempts, NoRelease
Threads == 1..T
Objs == 1..O
(* --algorithm lockmgr {
  variables bit = [o \in Objs |-> FALSE], val = [o \in Objs |-> 0],
            nhoodlist = [t \in Threads |-> <<>>],          \* intrusive list of owned lockables (newest first)
            prog \in [Threads -> [1..2 -> Objs]],           \* acquisition order of each iteration
            objlog = [o \in Objs |-> <<>>], commitOrder = <<>>,
            attempts = [t \in Threads |-> 0], committedT = {};
  define {
    Owns(t, o) == \E k \in 1..Len(nhoodlist[t]) : nhoodlist[t][k] = o
  }
  fair process (I \in Threads) variables k = 1, old = FALSE, b = FALSE, status = "none", l = 0;
  {
   begin: attempts[self] := attempts[self] + 1; k := 1;
   acq:   while (k <= 2) {
            l := prog[self][k];
     t1:    old := bit[l];                                   \* try_lock: relaxed load
            if (old) { goto own; };
     t2:    old := bit[l]; bit[l] := TRUE;                   \* fetch_or(1)
            if (old) { goto own; };
     t3:    b := bit[l];                                     \* setValue: nval |= (_lock & 1)
     t4:    val[l] := self;                                  \*           _lock.store(nval, relaxed)
            nhoodlist[self] := <<l>> \o nhoodlist[self];     \* addToNhood (thread-local)
            status := "new"; goto nxt;
     own:   if (val[l] = self) { status := "already"; goto nxt; }   \* getOwner(lockable) == this
            else { status := "fail"; };
     \* ---- conflict: unwind to the executor, cancelIteration releases everything, retry
     cn:    while (nhoodlist[self] # <<>>) {
              l := Head(nhoodlist[self]); nhoodlist[self] := Tail(nhoodlist[self]);
     rel1:    if (~NoRelease) { bit[l] := FALSE || val[l] := 0; };  \* unlock_and_clear: store(0, release)
            };
     rt:    await attempts[self] < MaxAttempts; goto begin;
     nxt:   k := k + 1;
          };
   \* ---- cautious point reached: non-commutative update of every owned object, then commit
   upd:   objlog := [o \in Objs |-> IF Owns(self, o) THEN Append(objlog[o], self) ELSE objlog[o]];
          commitOrder := Append(commitOrder, self);
   cm:    while (nhoodlist[self] # <<>>) {
            l := Head(nhoodlist[self]); nhoodlist[self] := Tail(nhoodlist[self]);
     rel2:  bit[l] := FALSE || val[l] := 0;
          };
   fin:   committedT := committedT \cup {self};
  }
} *)
\* BEGIN TRANSLATION
VARIABLES pc, bit, val, nhoodlist, prog, objlog, commitOrder, attempts, 
          committedT

(* define statement *)
Owns(t, o) == \E k \in 1..Len(nhoodlist[t]) : nhoodlist[t][k] = o

VARIABLES k, old, b, status, l

vars == << pc, bit, val, nhoodlist, prog, objlog, commitOrder, attempts, 
           committedT, k, old, b, status, l >>

ProcSet == (Threads)

Init == (* Global variables *)
        /\ bit = [o \in Objs |-> FALSE]
        /\ val = [o \in Objs |-> 0]
        /\ nhoodlist = [t \in Threads |-> <<>>]
        /\ prog \in [Threads -> [1..2 -> Objs]]
        /\ objlog = [o \in Objs |-> <<>>]
        /\ commitOrder = <<>>
        /\ attempts = [t \in Threads |-> 0]
        /\ committedT = {}
        (* Process I *)
        /\ k = [self \in Threads |-> 1]
        /\ old = [self \in Threads |-> FALSE]
        /\ b = [self \in Threads |-> FALSE]
        /\ status = [self \in Threads |-> "none"]
        /\ l = [self \in Threads |-> 0]
        /\ pc = [self \in ProcSet |-> "begin"]

begin(self) == /\ pc[self] = "begin"
               /\ attempts' = [attempts EXCEPT ![self] = attempts[self] + 1]
               /\ k' = [k EXCEPT ![self] = 1]
               /\ pc' = [pc EXCEPT ![self] = "acq"]
               /\ UNCHANGED << bit, val, nhoodlist, prog, objlog, commitOrder, 
                               committedT, old, b, status, l >>

acq(self) == /\ pc[self] = "acq"
             /\ IF k[self] <= 2
                   THEN /\ l' = [l EXCEPT ![self] = prog[self][k[self]]]
                        /\ pc' = [pc EXCEPT ![self] = "t1"]
                   ELSE /\ pc' = [pc EXCEPT ![self] = "upd"]
                        /\ l' = l
             /\ UNCHANGED << bit, val, nhoodlist, prog, objlog, commitOrder, 
                             attempts, committedT, k, old, b, status >>

t1(self) == /\ pc[self] = "t1"
            /\ old' = [old EXCEPT ![self] = bit[l[self]]]
            /\ IF old'[self]
                  THEN /\ pc' = [pc EXCEPT ![self] = "own"]
                  ELSE /\ pc' = [pc EXCEPT ![self] = "t2"]
            /\ UNCHANGED << bit, val, nhoodlist, prog, objlog, commitOrder, 
                            attempts, committedT, k, b, status, l >>

t2(self) == /\ pc[self] = "t2"
            /\ old' = [old EXCEPT ![self] = bit[l[self]]]
            /\ bit' = [bit EXCEPT ![l[self]] = TRUE]
            /\ IF old'[self]
                  THEN /\ pc' = [pc EXCEPT ![self] = "own"]
                  ELSE /\ pc' = [pc EXCEPT ![self] = "t3"]
            /\ UNCHANGED << val, nhoodlist, prog, objlog, commitOrder, 
                            attempts, committedT, k, b, status, l >>

t3(self) == /\ pc[self] = "t3"
            /\ b' = [b EXCEPT ![self] = bit[l[self]]]
            /\ pc' = [pc EXCEPT ![self] = "t4"]
            /\ UNCHANGED << bit, val, nhoodlist, prog, objlog, commitOrder, 
                            attempts, committedT, k, old, status, l >>

t4(self) == /\ pc[self] = "t4"
            /\ val' = [val EXCEPT ![l[self]] = self]
            /\ nhoodlist' = [nhoodlist EXCEPT ![self] = <<l[self]>> \o nhoodlist[self]]
            /\ status' = [status EXCEPT ![self] = "new"]
            /\ pc' = [pc EXCEPT ![self] = "nxt"]
            /\ UNCHANGED << bit, prog, objlog, commitOrder, attempts, 
                            committedT, k, old, b, l >>

own(self) == /\ pc[self] = "own"
             /\ IF val[l[self]] = self
                   THEN /\ status' = [status EXCEPT ![self] = "already"]
                        /\ pc' = [pc EXCEPT ![self] = "nxt"]
                   ELSE /\ status' = [status EXCEPT ![self] = "fail"]
                        /\ pc' = [pc EXCEPT ![self] = "cn"]
             /\ UNCHANGED << bit, val, nhoodlist, prog, objlog, commitOrder, 
                             attempts, committedT, k, old, b, l >>

cn(self) == /\ pc[self] = "cn"
            /\ IF nhoodlist[self] # <<>>
                  THEN /\ l' = [l EXCEPT ![self] = Head(nhoodlist[self])]
                       /\ nhoodlist' = [nhoodlist EXCEPT ![self] = Tail(nhoodlist[self])]
                       /\ pc' = [pc EXCEPT ![self] = "rel1"]
                  ELSE /\ pc' = [pc EXCEPT ![self] = "rt"]
                       /\ UNCHANGED << nhoodlist, l >>
            /\ UNCHANGED << bit, val, prog, objlog, commitOrder, attempts, 
                            committedT, k, old, b, status >>

rel1(self) == /\ pc[self] = "rel1"
              /\ IF ~NoRelease
                    THEN /\ /\ bit' = [bit EXCEPT ![l[self]] = FALSE]
                            /\ val' = [val EXCEPT ![l[self]] = 0]
                    ELSE /\ TRUE
                         /\ UNCHANGED << bit, val >>
              /\ pc' = [pc EXCEPT ![self] = "cn"]
              /\ UNCHANGED << nhoodlist, prog, objlog, commitOrder, attempts, 
                              committedT, k, old, b, status, l >>

rt(self) == /\ pc[self] = "rt"
            /\ attempts[self] < MaxAttempts
            /\ pc' = [pc EXCEPT ![self] = "begin"]
            /\ UNCHANGED << bit, val, nhoodlist, prog, objlog, commitOrder, 
                            attempts, committedT, k, old, b, status, l >>

nxt(self) == /\ pc[self] = "nxt"
             /\ k' = [k EXCEPT ![self] = k[self] + 1]
             /\ pc' = [pc EXCEPT ![self] = "acq"]
             /\ UNCHANGED << bit, val, nhoodlist, prog, objlog, commitOrder, 
                             attempts, committedT, old, b, status, l >>

upd(self) == /\ pc[self] = "upd"
             /\ objlog' = [o \in Objs |-> IF Owns(self, o) THEN Append(objlog[o], self) ELSE objlog[o]]
             /\ commitOrder' = Append(commitOrder, self)
             /\ pc' = [pc EXCEPT ![self] = "cm"]
             /\ UNCHANGED << bit, val, nhoodlist, prog, attempts, committedT, 
                             k, old, b, status, l >>

cm(self) == /\ pc[self] = "cm"
            /\ IF nhoodlist[self] # <<>>
                  THEN /\ l' = [l EXCEPT ![self] = Head(nhoodlist[self])]
                       /\ nhoodlist' = [nhoodlist EXCEPT ![self] = Tail(nhoodlist[self])]
                       /\ pc' = [pc EXCEPT ![self] = "rel2"]
                  ELSE /\ pc' = [pc EXCEPT ![self] = "fin"]
                       /\ UNCHANGED << nhoodlist, l >>
            /\ UNCHANGED << bit, val, prog, objlog, commitOrder, attempts, 
                            committedT, k, old, b, status >>

rel2(self) == /\ pc[self] = "rel2"
              /\ /\ bit' = [bit EXCEPT ![l[self]] = FALSE]
                 /\ val' = [val EXCEPT ![l[self]] = 0]
              /\ pc' = [pc EXCEPT ![self] = "cm"]
              /\ UNCHANGED << nhoodlist, prog, objlog, commitOrder, attempts, 
                              committedT, k, old, b, status, l >>

fin(self) == /\ pc[self] = "fin"
             /\ committedT' = (committedT \cup {self})
             /\ pc' = [pc EXCEPT ![self] = "Done"]
             /\ UNCHANGED << bit, val, nhoodlist, prog, objlog, commitOrder, 
                             attempts, k, old, b, status, l >>

I(self) == begin(self) \/ acq(self) \/ t1(self) \/ t2(self) \/ t3(self)
              \/ t4(self) \/ own(self) \/ cn(self) \/ rel1(self)
              \/ rt(self) \/ nxt(self) \/ upd(self) \/ cm(self)
              \/ rel2(self) \/ fin(self)

(* Allow infinite stuttering to prevent deadlock on termination. *)
Terminating == /\ \A self \in ProcSet: pc[self] = "Done"
               /\ UNCHANGED vars

Next == (\E self \in Threads: I(self))
           \/ Terminating

Spec == /\ Init /\ [][Next]_vars
        /\ \A self \in Threads : WF_vars(I(self))

Termination == <>(\A self \in ProcSet: pc[self] = "Done")

\* END TRANSLATION
AtMostOneOwner ==
  /\ \A o \in Objs : Cardinality({t \in Threads : Owns(t, o)}) <= 1
  /\ \A o \in Objs : (\E t \in Threads : Owns(t, o)) => bit[o]
AbortReleasesAll == \A t \in Threads : pc[t] \in {"rt", "begin"} => nhoodlist[t] = <<>>
NoneOwnedAtEnd == (\A t \in Threads : pc[t] = "Done") => \A o \in Objs : ~bit[o] /\ val[o] = 0
\* per object: the log is the commit order restricted to the iterations that acquired it
Restrict(s, o) == SelectSeq(s, LAMBDA t : \E j \in 1..2 : prog[t][j] = o)
Serialisable == (\A t \in Threads : pc[t] = "Done") => \A o \in Objs : objlog[o] = Restrict(commitOrder, o)
=============================================================================
