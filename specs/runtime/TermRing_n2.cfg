CONSTANTS
  N = 2
  InitWork = 1
  MaxXfer = 4
  Bound = 6
  NoTaint = FALSE
SPECIFICATION Spec
INVARIANT NoEarlyAnnounce
INVARIANT BoundedAnnounce
PROPERTY Announce
CHECK_DEADLOCK FALSE
