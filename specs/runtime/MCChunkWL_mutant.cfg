SPECIFICATION Spec
CONSTANTS Threads = {1, 2, 3} NSock = 2 CS = 2 MaxPush = 6 NoFallback = TRUE Sock <- Sock2
INVARIANTS Conservation NothingStranded
CHECK_DEADLOCK FALSE
