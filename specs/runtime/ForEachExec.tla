---------------------------------- MODULE ForEachExec ----------------------------------
(***************************************************************************)
(* Implementation-shaped model of the speculative for_each executor        *)
(* (libgalois/include/galois/runtime/Executor_ForEach.h with the lock      *)
(* manager of Context.h): every thread repeatedly takes an item (from the  *)
(* abort queue first, then from the worklist), runs the operator, which    *)
(* acquires the objects of the item's neighbourhood one by one with        *)
(* try-lock - a conflict never waits, it aborts the REQUESTER: everything  *)
(* acquired is released, the pushes made so far are discarded and the item *)
(* goes to the abort queue - and commits: buffered pushes go to the        *)
(* worklist, all locks are released.  The loop returns when every thread   *)
(* is idle and both queues are empty (termination detection abstracted).   *)
(* KeepAbortedPushes = TRUE is the mutant in which an aborted iteration's  *)
(* pushes survive.                                                         *)
(***************************************************************************)
EXTENDS Integers, Sequences, FiniteSets
CONSTANTS Threads, Items, Initial, Nhood, Children, KeepAbortedPushes
\* Nhood[i]: sequence of objects item i acquires, in program order; Children[i]: set of items it pushes (each item is pushed by at
\* most one parent, so "exactly once" is well defined); pushes happen before the last acquisition (the worst case)
Objs == UNION {{Nhood[i][k] : k \in 1..Len(Nhood[i])} : i \in Items}
VARIABLES wl, aborted, cur, idx, buf, owner, commits, done
vars == <<wl, aborted, cur, idx, buf, owner, commits, done>>
Init == /\ wl = Initial /\ aborted = <<>> /\ cur = [t \in Threads |-> 0] /\ idx = [t \in Threads |-> 0] /\ buf = [t \in Threads |-> {}]
        /\ owner = [o \in Objs |-> 0] /\ commits = [i \in Items |-> 0] /\ done = FALSE
\* wl is a set here (the order of a worklist is irrelevant for these properties); an item pushed twice would be lost from a set, so
\* pushes are counted: wlCount is not needed because CommitOnce is checked through commits and the mutant shows up as a second commit
TakeAborted(t) == /\ ~done /\ cur[t] = 0 /\ aborted # <<>> /\ cur' = [cur EXCEPT ![t] = Head(aborted)] /\ aborted' = Tail(aborted)
                  /\ idx' = [idx EXCEPT ![t] = 0] /\ UNCHANGED <<wl, buf, owner, commits, done>>
Take(t, i) == /\ ~done /\ cur[t] = 0 /\ aborted = <<>> /\ i \in wl /\ wl' = wl \ {i} /\ cur' = [cur EXCEPT ![t] = i]
              /\ idx' = [idx EXCEPT ![t] = 0] /\ UNCHANGED <<aborted, buf, owner, commits, done>>
\* the operator's next acquisition; before the last one it makes its pushes (buffered in the iteration's context)
Acquire(t) == /\ cur[t] # 0 /\ idx[t] < Len(Nhood[cur[t]])
              /\ LET o == Nhood[cur[t]][idx[t] + 1] IN
                 IF owner[o] = 0 \/ owner[o] = t
                 THEN /\ owner' = [owner EXCEPT ![o] = t] /\ idx' = [idx EXCEPT ![t] = @ + 1]
                      /\ buf' = [buf EXCEPT ![t] = IF idx[t] + 1 = Len(Nhood[cur[t]]) - 1 \/ Len(Nhood[cur[t]]) = 1 THEN Children[cur[t]] ELSE @]
                      /\ UNCHANGED <<wl, aborted, cur, commits, done>>
                 ELSE \* conflict: abort this iteration
                      /\ owner' = [x \in Objs |-> IF owner[x] = t THEN 0 ELSE owner[x]]
                      /\ aborted' = Append(aborted, cur[t]) /\ cur' = [cur EXCEPT ![t] = 0] /\ idx' = [idx EXCEPT ![t] = 0]
                      /\ IF KeepAbortedPushes THEN wl' = wl \cup buf[t] ELSE UNCHANGED wl
                      /\ buf' = [buf EXCEPT ![t] = {}] /\ UNCHANGED <<commits, done>>
Commit(t) == /\ cur[t] # 0 /\ idx[t] = Len(Nhood[cur[t]])
             /\ wl' = wl \cup (IF Len(Nhood[cur[t]]) = 0 THEN Children[cur[t]] ELSE buf[t])
             /\ commits' = [commits EXCEPT ![cur[t]] = @ + 1]
             /\ owner' = [x \in Objs |-> IF owner[x] = t THEN 0 ELSE owner[x]]
             /\ cur' = [cur EXCEPT ![t] = 0] /\ idx' = [idx EXCEPT ![t] = 0] /\ buf' = [buf EXCEPT ![t] = {}] /\ UNCHANGED <<aborted, done>>
Return == /\ ~done /\ wl = {} /\ aborted = <<>> /\ \A t \in Threads : cur[t] = 0 /\ done' = TRUE
          /\ UNCHANGED <<wl, aborted, cur, idx, buf, owner, commits>>
Next == (\E t \in Threads : TakeAborted(t) \/ Acquire(t) \/ Commit(t) \/ (\E i \in Items : Take(t, i))) \/ Return
\* a conflict aborts the requester at once, so two iterations can abort each other again and again (TLC finds that cycle when
\* asked for <>done): termination of conflicting iterations is not a property of this protocol but of the abort handler's back-off,
\* which serialises repeatedly aborted items; only safety is checked here
Spec == Init /\ [][Next]_vars
\* ---- properties
RECURSIVE Reach(_)
Reach(S) == LET S2 == S \cup UNION {Children[i] : i \in S} IN IF S2 = S THEN S ELSE Reach(S2)
AtMostOnce == \A i \in Items : commits[i] <= 1
WorkConserved == done => /\ (\A i \in Reach(Initial) : commits[i] = 1) /\ (\A j \in Items \ Reach(Initial) : commits[j] = 0)
                         /\ \A o \in Objs : owner[o] = 0
\* an iteration only ever owns what it acquired, and everything is released at commit and abort
OwnedOnlyByRunning == \A o \in Objs : owner[o] # 0 => cur[owner[o]] # 0
=============================================================================
