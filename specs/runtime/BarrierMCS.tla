------------------------------ MODULE BarrierMCS ------------------------------
(* Implementation-level model of MCSBarrier::wait (Barrier_MCS.cpp): 4-ary      *)
(* arrival tree on childnotready flags, binary wake-up tree on parentsense.     *)
EXTENDS Naturals, FiniteSets, TLC
CONSTANTS P, K
Threads == 0..(P - 1)
Have(i, j) == 4 * i + j + 1 < P
(* --algorithm mcs {
  variables cnr = [i \in Threads |-> [j \in 0..3 |-> Have(i, j)]],
            psense = [i \in Threads |-> FALSE], sense = [i \in Threads |-> TRUE],
            arrived = [t \in Threads |-> 0], departed = [t \in Threads |-> 0];
  fair process (T \in Threads)
  {
   loop: while (arrived[self] < K) {
     arr:  arrived[self] := arrived[self] + 1;
     m1:   await \A j \in 0..3 : ~cnr[self][j];                  \* while (any childnotready) asmPause()
     m2:   cnr[self] := [j \in 0..3 |-> Have(self, j)];          \* re-arm own flags
     m3:   if (self # 0) {
             cnr[(self - 1) \div 4][(self - 1) % 4] := FALSE;    \* *parentpointer = false
     m4:     await psense[self] = sense[self];                   \* while (parentsense != sense) asmPause()
           };
     m5:   if (2 * self + 1 < P) { psense[2 * self + 1] := sense[self]; };
     m6:   if (2 * self + 2 < P) { psense[2 * self + 2] := sense[self]; };
     dep:  sense[self] := ~sense[self]; departed[self] := departed[self] + 1;
   }
  }
} *)
\* BEGIN TRANSLATION
VARIABLES pc, cnr, psense, sense, arrived, departed

vars == << pc, cnr, psense, sense, arrived, departed >>

ProcSet == (Threads)

Init == (* Global variables *)
        /\ cnr = [i \in Threads |-> [j \in 0..3 |-> Have(i, j)]]
        /\ psense = [i \in Threads |-> FALSE]
        /\ sense = [i \in Threads |-> TRUE]
        /\ arrived = [t \in Threads |-> 0]
        /\ departed = [t \in Threads |-> 0]
        /\ pc = [self \in ProcSet |-> "loop"]

loop(self) == /\ pc[self] = "loop"
              /\ IF arrived[self] < K
                    THEN /\ pc' = [pc EXCEPT ![self] = "arr"]
                    ELSE /\ pc' = [pc EXCEPT ![self] = "Done"]
              /\ UNCHANGED << cnr, psense, sense, arrived, departed >>

arr(self) == /\ pc[self] = "arr"
             /\ arrived' = [arrived EXCEPT ![self] = arrived[self] + 1]
             /\ pc' = [pc EXCEPT ![self] = "m1"]
             /\ UNCHANGED << cnr, psense, sense, departed >>

m1(self) == /\ pc[self] = "m1"
            /\ \A j \in 0..3 : ~cnr[self][j]
            /\ pc' = [pc EXCEPT ![self] = "m2"]
            /\ UNCHANGED << cnr, psense, sense, arrived, departed >>

m2(self) == /\ pc[self] = "m2"
            /\ cnr' = [cnr EXCEPT ![self] = [j \in 0..3 |-> Have(self, j)]]
            /\ pc' = [pc EXCEPT ![self] = "m3"]
            /\ UNCHANGED << psense, sense, arrived, departed >>

m3(self) == /\ pc[self] = "m3"
            /\ IF self # 0
                  THEN /\ cnr' = [cnr EXCEPT ![(self - 1) \div 4][(self - 1) % 4] = FALSE]
                       /\ pc' = [pc EXCEPT ![self] = "m4"]
                  ELSE /\ pc' = [pc EXCEPT ![self] = "m5"]
                       /\ cnr' = cnr
            /\ UNCHANGED << psense, sense, arrived, departed >>

m4(self) == /\ pc[self] = "m4"
            /\ psense[self] = sense[self]
            /\ pc' = [pc EXCEPT ![self] = "m5"]
            /\ UNCHANGED << cnr, psense, sense, arrived, departed >>

m5(self) == /\ pc[self] = "m5"
            /\ IF 2 * self + 1 < P
                  THEN /\ psense' = [psense EXCEPT ![2 * self + 1] = sense[self]]
                  ELSE /\ TRUE
                       /\ UNCHANGED psense
            /\ pc' = [pc EXCEPT ![self] = "m6"]
            /\ UNCHANGED << cnr, sense, arrived, departed >>

m6(self) == /\ pc[self] = "m6"
            /\ IF 2 * self + 2 < P
                  THEN /\ psense' = [psense EXCEPT ![2 * self + 2] = sense[self]]
                  ELSE /\ TRUE
                       /\ UNCHANGED psense
            /\ pc' = [pc EXCEPT ![self] = "dep"]
            /\ UNCHANGED << cnr, sense, arrived, departed >>

dep(self) == /\ pc[self] = "dep"
             /\ sense' = [sense EXCEPT ![self] = ~sense[self]]
             /\ departed' = [departed EXCEPT ![self] = departed[self] + 1]
             /\ pc' = [pc EXCEPT ![self] = "loop"]
             /\ UNCHANGED << cnr, psense, arrived >>

T(self) == loop(self) \/ arr(self) \/ m1(self) \/ m2(self) \/ m3(self)
              \/ m4(self) \/ m5(self) \/ m6(self) \/ dep(self)

(* Allow infinite stuttering to prevent deadlock on termination. *)
Terminating == /\ \A self \in ProcSet: pc[self] = "Done"
               /\ UNCHANGED vars

Next == (\E self \in Threads: T(self))
           \/ Terminating

Spec == /\ Init /\ [][Next]_vars
        /\ \A self \in Threads : WF_vars(T(self))

Termination == <>(\A self \in ProcSet: pc[self] = "Done")

\* END TRANSLATION
PhaseSeparation == \A t, u \in Threads : departed[t] <= arrived[u]
AllDone == <>(\A t \in Threads : pc[t] = "Done")
=============================================================================
