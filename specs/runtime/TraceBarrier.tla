---------------------------- MODULE TraceBarrier ----------------------------
(* Trace validation for C05 against BarrierAbs.  The log is a total order      *)
(* (tickets taken at the logging calls; "arr" is logged before wait() is       *)
(* entered, "dep" after it returned, so ticket order is sound for              *)
(* PhaseSeparation).  "dep" carries the minimum phase stamp the thread read    *)
(* after the barrier: data written before the barrier must be visible.         *)
EXTENDS Naturals, Sequences, Json, IOUtils, TLC
Tr == ndJsonDeserialize(IOEnv.TRACE)
MaxT == 64
VARIABLES l, P, arrived, departed, dead
vars == <<l, P, arrived, departed, dead>>
Zero == [t \in 0..(MaxT - 1) |-> 0]
Init == l = 1 /\ P = 0 /\ arrived = Zero /\ departed = Zero /\ dead = TRUE
Rej(r) == PrintT(<<"REJECT", l, r.ev>>)
Next ==
  /\ l <= Len(Tr)
  /\ l' = l + 1
  /\ LET r == Tr[l] IN
     CASE r.ev = "reset" -> /\ P' = r.P /\ arrived' = Zero /\ departed' = Zero /\ dead' = FALSE
       [] dead -> UNCHANGED <<P, arrived, departed, dead>>
       [] r.ev = "arr" ->
            \* BarrierAbs!Arrive(t) with the logged phase number
            IF r.t < P /\ arrived[r.t] = departed[r.t] /\ r.k = arrived[r.t] + 1
            THEN arrived' = [arrived EXCEPT ![r.t] = r.k] /\ UNCHANGED <<P, departed, dead>>
            ELSE Rej(r) /\ dead' = TRUE /\ UNCHANGED <<P, arrived, departed>>
       [] r.ev = "dep" ->
            \* BarrierAbs!Depart(t): enabled only if everybody arrived at phase k
            IF /\ r.t < P /\ arrived[r.t] = r.k /\ departed[r.t] = r.k - 1
               /\ \A u \in 0..(P - 1) : arrived[u] >= r.k
               /\ r.min >= r.k
            THEN departed' = [departed EXCEPT ![r.t] = r.k] /\ UNCHANGED <<P, arrived, dead>>
            ELSE Rej(r) /\ dead' = TRUE /\ UNCHANGED <<P, arrived, departed>>
       [] r.ev = "reinit" ->
            IF \A u \in 0..(P - 1) : arrived[u] = departed[u]
            THEN LET k == arrived[0] IN
                 /\ P' = r.P /\ arrived' = [t \in 0..(MaxT - 1) |-> k] /\ departed' = [t \in 0..(MaxT - 1) |-> k]
                 /\ UNCHANGED dead
            ELSE Rej(r) /\ dead' = TRUE /\ UNCHANGED <<P, arrived, departed>>
       [] r.ev = "end" ->
            \* AllDepart: the run is over, nobody may still be inside
            IF \A u \in 0..(P - 1) : arrived[u] = departed[u]
            THEN dead' = TRUE /\ UNCHANGED <<P, arrived, departed>>
            ELSE Rej(r) /\ dead' = TRUE /\ UNCHANGED <<P, arrived, departed>>
       [] r.ev = "hang" -> Rej(r) /\ dead' = TRUE /\ UNCHANGED <<P, arrived, departed>>
       [] OTHER -> Rej(r) /\ UNCHANGED <<P, arrived, departed, dead>>
Spec == Init /\ [][Next]_vars
Consumed == TLCGet("stats").diameter = Len(Tr) + 1
=============================================================================
