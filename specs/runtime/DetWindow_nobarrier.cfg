SPECIFICATION Spec
CONSTANTS T = 3 BarrierBetween = FALSE
INVARIANT SameSums
PROPERTY Termination
CHECK_DEADLOCK FALSE
