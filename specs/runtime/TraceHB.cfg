CONSTANT MaxT = 18
SPECIFICATION TSpec
POSTCONDITION Consumed
CHECK_DEADLOCK FALSE
