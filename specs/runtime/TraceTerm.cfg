CONSTANT MaxT = 64
SPECIFICATION TSpec
POSTCONDITION Consumed
CHECK_DEADLOCK FALSE
