--------------------------------- MODULE TraceHB ---------------------------------
(* Trace validation for C06 (happens-before part): the complete stream of          *)
(* synchronisation operations of a real execution (with the requested memory      *)
(* orders, recorded by the interposed atomics / mutexes in one total order) plus    *)
(* the harness-declared plain accesses is replayed on HB; a plain access that is    *)
(* not ordered after the conflicting accesses is a data race = a promised edge      *)
(* that is not a happens-before edge.                                               *)
EXTENDS HB, Sequences, Json, IOUtils, TLC
Tr == ndJsonDeserialize(IOEnv.TRACE)
VARIABLES l, dead
tvars == <<l, dead, C, L, SCclk, lastW, reads>>
TInit == l = 1 /\ dead = TRUE /\ HInit
Act(r) ==
  CASE r.k = 0 -> Load(r.t, r.x, r.mo)
    [] r.k = 1 -> Store(r.t, r.x, r.mo)
    [] r.k = 2 -> RMW(r.t, r.x, r.mo)
    [] r.k = 4 -> Lock(r.t, r.x)
    [] r.k = 5 -> Unlock(r.t, r.x)
    [] r.k = 20 -> PlainRead(r.t, r.x)
    [] r.k = 21 -> PlainWrite(r.t, r.x)
    [] OTHER -> UNCHANGED hvars
TNext ==
  /\ l <= Len(Tr) /\ l' = l + 1
  /\ LET r == Tr[l] IN
     IF "ev" \in DOMAIN r
     THEN /\ dead' = (r.ev # "reset")
          /\ C' = [t \in Tids |-> [u \in Tids |-> IF u = t THEN 1 ELSE 0]]
          /\ L' = <<>> /\ SCclk' = Zero /\ lastW' = <<>> /\ reads' = <<>>
          /\ (IF r.ev \in {"reset", "end"} THEN TRUE ELSE PrintT(<<"REJECT", l, r.ev>>))
     ELSE IF dead THEN UNCHANGED <<dead, hvars>>
     ELSE IF ENABLED Act(r) THEN Act(r) /\ UNCHANGED dead
     ELSE PrintT(<<"REJECT", l, IF r.k = 20 THEN "race:read" ELSE "race:write">>) /\ dead' = TRUE /\ UNCHANGED hvars
TSpec == TInit /\ [][TNext]_tvars
Consumed == TLCGet("stats").diameter = Len(Tr) + 1
=============================================================================
