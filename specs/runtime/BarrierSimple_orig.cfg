CONSTANTS
  P = 3
  K = 2
  Generation = FALSE
SPECIFICATION Spec
INVARIANT PhaseSeparation
PROPERTY AllDone
CHECK_DEADLOCK FALSE
