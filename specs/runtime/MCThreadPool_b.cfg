CONSTANTS
  M = 4
  Nums <- NumsB
  EarlyDone = FALSE
SPECIFICATION Spec
INVARIANT ExactlyOnce
INVARIANT NeverTwice
PROPERTY MasterFinishes
CHECK_DEADLOCK FALSE
