------------------------------ MODULE ForEachAbs ------------------------------
(***************************************************************************)
(* Property-level specification of galois::for_each over what the operator *)
(* can observe (C01 work conservation, C02 isolation, C08 level order).    *)
(*                                                                         *)
(* State: the set of items that may be started (pending), the committed    *)
(* items, and per worker the attempt it is running: its item, the pushes   *)
(* and acquisitions made so far and how far it got (pre = before its       *)
(* cautious point, cau = after it: commit is certain).                     *)
(*                                                                         *)
(*   ExactlyOnce        Start(i) only for a pending, not running, not      *)
(*                      committed item; Return only when nothing is        *)
(*                      pending or running                                 *)
(*   NoWorkFromAborted  only Commit adds an attempt's pushes to pending    *)
(*   AtMostOneOwner     Acquire(o) by t while u owns o is possible only if *)
(*                      u's attempt aborts (it then never acquires,        *)
(*                      reaches its cautious point or commits)             *)
(*   Serialisable       per object, the sequence of updates equals the     *)
(*                      commit order of the iterations that own it         *)
(*   RoundSeparation / NoPriorityInversion  (level-synchronous schedulers) *)
(***************************************************************************)
EXTENDS Integers, Sequences, FiniteSets
CONSTANT MaxT
VARIABLES pending, committed, run, owner, objlog, round, kind, desc
avars == <<pending, committed, run, owner, objlog, round, kind, desc>>
Workers == 0..(MaxT - 1)
Idle == [item |-> -1, phase |-> "none", pushes |-> <<>>, owned |-> {}, trying |-> FALSE, doomed |-> FALSE, lv |-> 0]

Running == {run[t].item : t \in {u \in Workers : run[u].phase \in {"pre", "cau", "abort"}}}
RunningElse(t) == {run[u].item : u \in {v \in Workers : v # t /\ run[v].phase \in {"pre", "cau"}}}

\* an attempt that has not reached its cautious point may have been aborted (conflict inside a
\* try, or voluntarily): its pushes are dropped, its objects released, its item stays pending
DropAttempt(t) == [run EXCEPT ![t] = Idle]
ReleaseAll(t, ow) == [o \in DOMAIN ow |-> IF ow[o] = t THEN -1 ELSE ow[o]]

Urgent(a, b) == IF desc = 1 THEN a > b ELSE a < b      \* a strictly more urgent than b

LevelOK(t, i, lv) ==
  CASE kind = "level-bsp" ->
         \* RoundSeparation: nothing of an earlier round is uncommitted
         LET r == IF i \in DOMAIN round THEN round[i] ELSE 0 IN
         \A j \in ((pending \cup Running) \ committed) \ {i} : (IF j \in DOMAIN round THEN round[j] ELSE 0) >= r
    [] kind = "level-obim" ->
         \* NoPriorityInversion: no known uncommitted item is strictly more urgent
         /\ \A u \in Workers : (u # t /\ run[u].phase \in {"pre", "cau", "abort"} /\ run[u].item \notin committed)
                                   => ~Urgent(run[u].lv, lv)
         /\ \A j \in pending \ ({i} \cup Running) : (j \in DOMAIN round) => ~Urgent(round[j], lv)
    [] OTHER -> TRUE

\* u may lose an object (or its item) only while its attempt can still abort: inside a try
\* (a conflict unwinds from there without a trace) or after a voluntary abort
CanLose(u) == (run[u].phase = "pre" /\ run[u].trying) \/ run[u].phase = "abort"

Start(t, i, lv) ==
  /\ run[t].phase \in {"none", "pre", "abort"}          \* a "pre"/"abort" attempt of t was aborted
  /\ i \in pending /\ i \notin committed
  \* somebody else still shown running i must have been aborted (the retry may be handed to another worker)
  /\ \A u \in Workers : (u # t /\ run[u].item = i /\ run[u].phase \in {"pre", "cau", "abort"}) => CanLose(u)
  /\ LevelOK(t, i, lv)
  /\ owner' = ReleaseAll(t, owner)
  /\ run' = [u \in Workers |->
               IF u = t THEN [Idle EXCEPT !.item = i, !.phase = "pre", !.lv = lv]
               ELSE IF run[u].item = i /\ run[u].phase \in {"pre", "abort"} THEN [run[u] EXCEPT !.doomed = TRUE]
               ELSE run[u]]
  /\ UNCHANGED <<pending, committed, objlog, round, kind, desc>>

Push(t, i, c, clv) ==
  /\ run[t].item = i /\ run[t].phase \in {"pre", "cau"}
  /\ run' = [run EXCEPT ![t].pushes = Append(@, <<c, clv>>)]
  /\ UNCHANGED <<pending, committed, owner, objlog, round, kind, desc>>

Try(t, o) ==
  /\ run[t].phase = "pre"
  /\ run' = [run EXCEPT ![t].trying = TRUE]
  /\ UNCHANGED <<pending, committed, owner, objlog, round, kind, desc>>

Acquire(t, o) ==
  /\ run[t].phase = "pre" /\ run[t].trying /\ ~run[t].doomed
  /\ LET cur == IF o \in DOMAIN owner THEN owner[o] ELSE -1 IN
     /\ (IF cur = -1 \/ cur = t THEN TRUE ELSE CanLose(cur))
     /\ run' = [u \in Workers |->
                 IF u = t THEN [run[t] EXCEPT !.trying = FALSE, !.owned = @ \cup {o}]
                 ELSE IF u = cur THEN [run[u] EXCEPT !.doomed = TRUE] ELSE run[u]]
     /\ owner' = [x \in DOMAIN owner \cup {o} |-> IF x = o THEN t ELSE owner[x]]
  /\ UNCHANGED <<pending, committed, objlog, round, kind, desc>>

VAbort(t, i) ==
  /\ run[t].item = i /\ run[t].phase = "pre"
  /\ run' = [run EXCEPT ![t].phase = "abort"]
  /\ UNCHANGED <<pending, committed, owner, objlog, round, kind, desc>>

Cautious(t, i) ==
  /\ run[t].item = i /\ run[t].phase = "pre" /\ ~run[t].doomed
  /\ \A o \in run[t].owned : owner[o] = t
  /\ run' = [run EXCEPT ![t].phase = "cau", ![t].trying = FALSE]
  /\ objlog' = [o \in DOMAIN objlog \cup run[t].owned |->
                 IF o \in run[t].owned THEN Append(IF o \in DOMAIN objlog THEN objlog[o] ELSE <<>>, i)
                 ELSE objlog[o]]
  /\ UNCHANGED <<pending, committed, owner, round, kind, desc>>

Pushed(s) == {s[k][1] : k \in 1..Len(s)}
LvOf(s, c) == s[CHOOSE k \in 1..Len(s) : s[k][1] = c][2]
Commit(t, i) ==
  /\ run[t].item = i /\ run[t].phase = "cau"
  /\ committed' = committed \cup {i}
  /\ pending' = (pending \ {i}) \cup Pushed(run[t].pushes)
  \* round of a new item: bulk-synchronous = creator's round + 1; priority schedulers = its level
  /\ round' = [j \in DOMAIN round \cup Pushed(run[t].pushes) |->
                 IF j \in Pushed(run[t].pushes)
                 THEN (IF kind = "level-bsp" THEN (IF i \in DOMAIN round THEN round[i] ELSE 0) + 1
                       ELSE LvOf(run[t].pushes, j))
                 ELSE round[j]]
  /\ owner' = ReleaseAll(t, owner)
  /\ run' = [run EXCEPT ![t] = Idle]
  /\ UNCHANGED <<objlog, kind, desc>>

\* the loop returned: every attempt still "pre" was aborted and would have to be retried
Return ==
  /\ \A t \in Workers : run[t].phase # "cau"
  /\ pending = {}
  /\ UNCHANGED avars

Final(o, owned, lg, n) ==
  /\ owned = 0                                                    \* NoneOwnedAtReturn
  /\ n <= 512 => lg = (IF o \in DOMAIN objlog THEN objlog[o] ELSE <<>>)   \* Serialisable
  /\ UNCHANGED avars
=============================================================================
