SPECIFICATION Spec
CONSTANTS T = 2 N = 4 OwnerSkipsLock = TRUE
INVARIANTS ExactlyOnce AllTaken
PROPERTY Termination
CHECK_DEADLOCK FALSE
