CONSTANTS
  N = 2
  InitWork = 2
  MaxXfer = 3
SPECIFICATION Spec
INVARIANT NoEarlyAnnounce
PROPERTY Announce
CHECK_DEADLOCK FALSE
