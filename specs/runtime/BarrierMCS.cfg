CONSTANTS
  P = 4
  K = 3
SPECIFICATION Spec
INVARIANT PhaseSeparation
PROPERTY AllDone
CHECK_DEADLOCK FALSE
