---------------------------------- MODULE ChunkWL ----------------------------------
(***************************************************************************)
(* Implementation-level model of the chunked worklists (libgalois/include/ *)
(* galois/worklists/Chunk.h, ChunkMaster in its FIFO form, per-socket):    *)
(* every thread fills a private "next" chunk and publishes it to its       *)
(* socket's shared queue when it is full; it pops from a private "cur"     *)
(* chunk; when that is empty it takes a chunk from its socket's queue,     *)
(* then from the other sockets' queues (stealing), and finally falls back  *)
(* to its own unpublished "next" chunk.  Chunks are counts of items.       *)
(* NoFallback = TRUE is the mutant without that last step.                 *)
(***************************************************************************)
EXTENDS Integers, Sequences, FiniteSets
CONSTANTS Threads, Sock, NSock, CS, MaxPush, NoFallback      \* Sock: thread -> socket (1..NSock)
VARIABLES cur, nxt, q, idle, pushes, popped
vars == <<cur, nxt, q, idle, pushes, popped>>
Init == /\ cur = [t \in Threads |-> 0] /\ nxt = [t \in Threads |-> 0] /\ q = [s \in 1..NSock |-> <<>>]
        /\ idle = [t \in Threads |-> FALSE] /\ pushes = 0 /\ popped = 0
Push(t) == /\ pushes < MaxPush /\ pushes' = pushes + 1 /\ idle' = [idle EXCEPT ![t] = FALSE]
           /\ IF nxt[t] = CS THEN q' = [q EXCEPT ![Sock[t]] = Append(@, CS)] /\ nxt' = [nxt EXCEPT ![t] = 1]
              ELSE nxt' = [nxt EXCEPT ![t] = @ + 1] /\ UNCHANGED q
           /\ UNCHANGED <<cur, popped>>
PopCur(t) == /\ cur[t] > 0 /\ cur' = [cur EXCEPT ![t] = @ - 1] /\ popped' = popped + 1 /\ idle' = [idle EXCEPT ![t] = FALSE]
             /\ UNCHANGED <<nxt, q, pushes>>
\* popChunk: own socket first, then the others in order
Order(t) == [i \in 1..NSock |-> ((Sock[t] - 1 + i - 1) % NSock) + 1]
FirstNonEmpty(t) == LET S == {i \in 1..NSock : q[Order(t)[i]] # <<>>} IN IF S = {} THEN 0 ELSE Order(t)[CHOOSE i \in S : \A j \in S : i <= j]
Refill(t) == /\ cur[t] = 0
             /\ LET s == FirstNonEmpty(t) IN
                IF s # 0 THEN /\ cur' = [cur EXCEPT ![t] = Head(q[s]) - 1] /\ q' = [q EXCEPT ![s] = Tail(@)] /\ popped' = popped + 1
                              /\ idle' = [idle EXCEPT ![t] = FALSE] /\ UNCHANGED nxt
                ELSE IF nxt[t] > 0 /\ ~NoFallback THEN /\ cur' = [cur EXCEPT ![t] = nxt[t] - 1] /\ nxt' = [nxt EXCEPT ![t] = 0] /\ popped' = popped + 1
                                                       /\ idle' = [idle EXCEPT ![t] = FALSE] /\ UNCHANGED q
                ELSE idle' = [idle EXCEPT ![t] = TRUE] /\ UNCHANGED <<cur, nxt, q, popped>>
             /\ UNCHANGED pushes
Next == \E t \in Threads : Push(t) \/ PopCur(t) \/ Refill(t)
Spec == Init /\ [][Next]_vars
RECURSIVE SumSeq(_)
SumSeq(s) == IF s = <<>> THEN 0 ELSE Head(s) + SumSeq(Tail(s))
RECURSIVE SumF(_, _)
SumF(f, S) == IF S = {} THEN 0 ELSE LET x == CHOOSE y \in S : TRUE IN f[x] + SumF(f, S \ {x})
InFlight == SumF(cur, Threads) + SumF(nxt, Threads) + SumF([s \in 1..NSock |-> SumSeq(q[s])], 1..NSock)
Conservation == popped + InFlight = pushes
NothingStranded == (\A t \in Threads : idle[t]) => InFlight = 0
=============================================================================
