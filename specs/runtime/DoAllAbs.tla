------------------------------- MODULE DoAllAbs -------------------------------
(***************************************************************************)
(* Property-level meaning of do_all / on_each / parallel regions (C03):    *)
(*   ExactlyOnce  the multiset of invocations equals the range             *)
(*   OnActiveOnly invocations happen on thread ids 0..n-1 only; a region   *)
(*                body runs exactly once on each of them                   *)
(*   Join         the call returns only after every invocation finished    *)
(*   NoInterfere  consecutive regions with other thread counts behave the  *)
(*                same                                                     *)
(* The records are summaries computed by the harness from per-element /    *)
(* per-thread counters: `bad` lists elements whose invocation count is not *)
(* one, `finished` counts invocations completed when the call returned.    *)
(***************************************************************************)
EXTENDS Naturals, Sequences
RECURSIVE SumSeq(_)
SumSeq(s) == IF s = <<>> THEN 0 ELSE Head(s) + SumSeq(Tail(s))
DoAllOK(r) ==
  /\ r.bad = <<>>                 \* ExactlyOnce
  /\ r.finished = r.n             \* Join
  /\ r.foreign = 0                \* OnActiveOnly
  /\ Len(r.per) = r.threads /\ SumSeq(r.per) = r.n
RegionOK(n, counts, joined) ==
  /\ \A t \in 1..Len(counts) : counts[t] = (IF t <= n THEN 1 ELSE 0)
  /\ joined = n
RegionsOK(r) == \A k \in 1..Len(r.seq) : RegionOK(r.seq[k], r.counts[k], r.joined[k])
=============================================================================
