CONSTANTS
  P = 4
  K = 3
  Sock <- Sock1x4
SPECIFICATION Spec
INVARIANT PhaseSeparation
PROPERTY AllDone
CHECK_DEADLOCK FALSE
