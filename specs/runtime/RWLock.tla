---------------------------------- MODULE RWLock ----------------------------------
(***************************************************************************)
(* Implementation-level model of galois::substrate::ThreadRWlock (libgalois*)
(* /include/galois/substrate/ThreadRWlock.h): one padded spin lock per     *)
(* thread; a reader takes only its own slot, a writer takes every slot in  *)
(* index order 0 .. n-1 (and releases them all).  RotateOrder = TRUE is    *)
(* the change the fixed order protects against: a writer starts at its own *)
(* slot and wraps round.                                                   *)
(***************************************************************************)
EXTENDS Integers, FiniteSets
CONSTANTS N, RotateOrder
Thr == 0..(N - 1)
VARIABLES slot,     \* slot -> holder + 1 (0 = free)
          pc,       \* "idle", "reading", "wacq", "writing"
          k         \* writer: number of slots taken so far
vars == <<slot, pc, k>>
Init == slot = [s \in Thr |-> 0] /\ pc = [t \in Thr |-> "idle"] /\ k = [t \in Thr |-> 0]
Nth(t, i) == IF RotateOrder THEN (t + i) % N ELSE i
ReadLock(t) == /\ pc[t] = "idle" /\ slot[t] = 0 /\ slot' = [slot EXCEPT ![t] = t + 1] /\ pc' = [pc EXCEPT ![t] = "reading"] /\ UNCHANGED k
ReadUnlock(t) == /\ pc[t] = "reading" /\ slot' = [slot EXCEPT ![t] = 0] /\ pc' = [pc EXCEPT ![t] = "idle"] /\ UNCHANGED k
WriteStart(t) == /\ pc[t] = "idle" /\ pc' = [pc EXCEPT ![t] = "wacq"] /\ k' = [k EXCEPT ![t] = 0] /\ UNCHANGED slot
WriteAcq(t) == /\ pc[t] = "wacq" /\ k[t] < N /\ slot[Nth(t, k[t])] = 0
               /\ slot' = [slot EXCEPT ![Nth(t, k[t])] = t + 1] /\ k' = [k EXCEPT ![t] = @ + 1]
               /\ pc' = [pc EXCEPT ![t] = IF k[t] + 1 = N THEN "writing" ELSE "wacq"]
WriteUnlock(t) == /\ pc[t] = "writing" /\ slot' = [s \in Thr |-> 0] /\ pc' = [pc EXCEPT ![t] = "idle"] /\ k' = [k EXCEPT ![t] = 0]
Next == \E t \in Thr : ReadLock(t) \/ ReadUnlock(t) \/ WriteStart(t) \/ WriteAcq(t) \/ WriteUnlock(t)
Spec == Init /\ [][Next]_vars /\ \A t \in Thr : WF_vars(ReadUnlock(t)) /\ SF_vars(WriteAcq(t)) /\ WF_vars(WriteUnlock(t))
\* ---- properties (C06: locks exclude)
WriterExcludesAll == \A w \in Thr : pc[w] = "writing" => \A t \in Thr \ {w} : pc[t] \notin {"reading", "writing"}
\* a writer that started acquiring always gets in (no deadlock between writers)
WriterGetsIn == \A t \in Thr : (pc[t] = "wacq") ~> (pc[t] = "writing")
=============================================================================
