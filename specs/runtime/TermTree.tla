------------------------------- MODULE TermTree -------------------------------
(***************************************************************************)
(* Implementation-level model of TreeTerminationDetection (Termination.h): *)
(* a down token travels from the master to the leaves of a binary tree,    *)
(* up tokens carry "somebody was black" back; the master needs two         *)
(* consecutive white rounds.  One label per shared (volatile) access.      *)
(* Same work-ledger environment as TermRing.                               *)
(***************************************************************************)
EXTENDS Integers, FiniteSets, TLC
CONSTANTS N, InitWork, MaxXfer
Threads == 0..(N - 1)
Child(t, i) == 2 * t + i + 1
HasChild(t, i) == Child(t, i) < N
Parent(t) == (t - 1) \div 2
POff(t) == (t - 1) % 2
(* --algorithm tree {
  variables
    down = [t \in Threads |-> t = 0], up = [t \in Threads |-> [i \in 0..1 |-> 0]],
    processIsBlack = [t \in Threads |-> TRUE], hasToken = [t \in Threads |-> FALSE],
    lastWasWhite = FALSE, globalTerm = FALSE,
    inbox = [t \in Threads |-> IF t = 0 THEN InitWork ELSE 0], holding = [t \in Threads |-> FALSE], xfers = 0;
  define { Outstanding == \E t \in Threads : inbox[t] > 0 \/ holding[t] }
  fair process (T \in Threads) variables did = FALSE, haveAll = FALSE, black = FALSE, seen = FALSE;
  {
   loop: while (~seen) {
     take: if (inbox[self] > 0) {
             inbox[self] := inbox[self] - 1; holding[self] := TRUE; did := TRUE;
     push:   either { skip; }
             or { with (u \in Threads) { await xfers < MaxXfer; inbox[u] := inbox[u] + 1; xfers := xfers + 1; } };
     fin:    holding[self] := FALSE;
             goto take;
           };
     rep:  processIsBlack[self] := processIsBlack[self] \/ did; did := FALSE;
           haveAll := hasToken[self]; black := processIsBlack[self];
     u0:   if (HasChild(self, 0)) { if (up[self][0] = -1) { haveAll := FALSE; } else { black := black \/ (up[self][0] = 1); } };
     u1:   if (HasChild(self, 1)) { if (up[self][1] = -1) { haveAll := FALSE; } else { black := black \/ (up[self][1] = 1); } };
     ha:   if (haveAll) {
             processIsBlack[self] := FALSE; hasToken[self] := FALSE;
             if (self = 0) {
     m2:       if (lastWasWhite /\ ~black) { globalTerm := TRUE; goto obs; };
     m3:       lastWasWhite := ~black; down[self] := TRUE;
             } else {
     up1:      up[Parent(self)][POff(self)] := IF black THEN 1 ELSE 0;
             };
           };
     dn:   if (down[self]) {
             down[self] := FALSE; hasToken[self] := TRUE;
     d0:     up[self][0] := -1; 
     d0c:    if (HasChild(self, 0)) { down[Child(self, 0)] := TRUE; };
     d1:     up[self][1] := -1;
     d1c:    if (HasChild(self, 1)) { down[Child(self, 1)] := TRUE; };
           };
     obs:  seen := globalTerm;
   }
  }
} *)
\* BEGIN TRANSLATION
VARIABLES pc, down, up, processIsBlack, hasToken, lastWasWhite, globalTerm, 
          inbox, holding, xfers

(* define statement *)
Outstanding == \E t \in Threads : inbox[t] > 0 \/ holding[t]

VARIABLES did, haveAll, black, seen

vars == << pc, down, up, processIsBlack, hasToken, lastWasWhite, globalTerm, 
           inbox, holding, xfers, did, haveAll, black, seen >>

ProcSet == (Threads)

Init == (* Global variables *)
        /\ down = [t \in Threads |-> t = 0]
        /\ up = [t \in Threads |-> [i \in 0..1 |-> 0]]
        /\ processIsBlack = [t \in Threads |-> TRUE]
        /\ hasToken = [t \in Threads |-> FALSE]
        /\ lastWasWhite = FALSE
        /\ globalTerm = FALSE
        /\ inbox = [t \in Threads |-> IF t = 0 THEN InitWork ELSE 0]
        /\ holding = [t \in Threads |-> FALSE]
        /\ xfers = 0
        (* Process T *)
        /\ did = [self \in Threads |-> FALSE]
        /\ haveAll = [self \in Threads |-> FALSE]
        /\ black = [self \in Threads |-> FALSE]
        /\ seen = [self \in Threads |-> FALSE]
        /\ pc = [self \in ProcSet |-> "loop"]

loop(self) == /\ pc[self] = "loop"
              /\ IF ~seen[self]
                    THEN /\ pc' = [pc EXCEPT ![self] = "take"]
                    ELSE /\ pc' = [pc EXCEPT ![self] = "Done"]
              /\ UNCHANGED << down, up, processIsBlack, hasToken, lastWasWhite, 
                              globalTerm, inbox, holding, xfers, did, haveAll, 
                              black, seen >>

take(self) == /\ pc[self] = "take"
              /\ IF inbox[self] > 0
                    THEN /\ inbox' = [inbox EXCEPT ![self] = inbox[self] - 1]
                         /\ holding' = [holding EXCEPT ![self] = TRUE]
                         /\ did' = [did EXCEPT ![self] = TRUE]
                         /\ pc' = [pc EXCEPT ![self] = "push"]
                    ELSE /\ pc' = [pc EXCEPT ![self] = "rep"]
                         /\ UNCHANGED << inbox, holding, did >>
              /\ UNCHANGED << down, up, processIsBlack, hasToken, lastWasWhite, 
                              globalTerm, xfers, haveAll, black, seen >>

push(self) == /\ pc[self] = "push"
              /\ \/ /\ TRUE
                    /\ UNCHANGED <<inbox, xfers>>
                 \/ /\ \E u \in Threads:
                         /\ xfers < MaxXfer
                         /\ inbox' = [inbox EXCEPT ![u] = inbox[u] + 1]
                         /\ xfers' = xfers + 1
              /\ pc' = [pc EXCEPT ![self] = "fin"]
              /\ UNCHANGED << down, up, processIsBlack, hasToken, lastWasWhite, 
                              globalTerm, holding, did, haveAll, black, seen >>

fin(self) == /\ pc[self] = "fin"
             /\ holding' = [holding EXCEPT ![self] = FALSE]
             /\ pc' = [pc EXCEPT ![self] = "take"]
             /\ UNCHANGED << down, up, processIsBlack, hasToken, lastWasWhite, 
                             globalTerm, inbox, xfers, did, haveAll, black, 
                             seen >>

rep(self) == /\ pc[self] = "rep"
             /\ processIsBlack' = [processIsBlack EXCEPT ![self] = processIsBlack[self] \/ did[self]]
             /\ did' = [did EXCEPT ![self] = FALSE]
             /\ haveAll' = [haveAll EXCEPT ![self] = hasToken[self]]
             /\ black' = [black EXCEPT ![self] = processIsBlack'[self]]
             /\ pc' = [pc EXCEPT ![self] = "u0"]
             /\ UNCHANGED << down, up, hasToken, lastWasWhite, globalTerm, 
                             inbox, holding, xfers, seen >>

u0(self) == /\ pc[self] = "u0"
            /\ IF HasChild(self, 0)
                  THEN /\ IF up[self][0] = -1
                             THEN /\ haveAll' = [haveAll EXCEPT ![self] = FALSE]
                                  /\ black' = black
                             ELSE /\ black' = [black EXCEPT ![self] = black[self] \/ (up[self][0] = 1)]
                                  /\ UNCHANGED haveAll
                  ELSE /\ TRUE
                       /\ UNCHANGED << haveAll, black >>
            /\ pc' = [pc EXCEPT ![self] = "u1"]
            /\ UNCHANGED << down, up, processIsBlack, hasToken, lastWasWhite, 
                            globalTerm, inbox, holding, xfers, did, seen >>

u1(self) == /\ pc[self] = "u1"
            /\ IF HasChild(self, 1)
                  THEN /\ IF up[self][1] = -1
                             THEN /\ haveAll' = [haveAll EXCEPT ![self] = FALSE]
                                  /\ black' = black
                             ELSE /\ black' = [black EXCEPT ![self] = black[self] \/ (up[self][1] = 1)]
                                  /\ UNCHANGED haveAll
                  ELSE /\ TRUE
                       /\ UNCHANGED << haveAll, black >>
            /\ pc' = [pc EXCEPT ![self] = "ha"]
            /\ UNCHANGED << down, up, processIsBlack, hasToken, lastWasWhite, 
                            globalTerm, inbox, holding, xfers, did, seen >>

ha(self) == /\ pc[self] = "ha"
            /\ IF haveAll[self]
                  THEN /\ processIsBlack' = [processIsBlack EXCEPT ![self] = FALSE]
                       /\ hasToken' = [hasToken EXCEPT ![self] = FALSE]
                       /\ IF self = 0
                             THEN /\ pc' = [pc EXCEPT ![self] = "m2"]
                             ELSE /\ pc' = [pc EXCEPT ![self] = "up1"]
                  ELSE /\ pc' = [pc EXCEPT ![self] = "dn"]
                       /\ UNCHANGED << processIsBlack, hasToken >>
            /\ UNCHANGED << down, up, lastWasWhite, globalTerm, inbox, holding, 
                            xfers, did, haveAll, black, seen >>

m2(self) == /\ pc[self] = "m2"
            /\ IF lastWasWhite /\ ~black[self]
                  THEN /\ globalTerm' = TRUE
                       /\ pc' = [pc EXCEPT ![self] = "obs"]
                  ELSE /\ pc' = [pc EXCEPT ![self] = "m3"]
                       /\ UNCHANGED globalTerm
            /\ UNCHANGED << down, up, processIsBlack, hasToken, lastWasWhite, 
                            inbox, holding, xfers, did, haveAll, black, seen >>

m3(self) == /\ pc[self] = "m3"
            /\ lastWasWhite' = ~black[self]
            /\ down' = [down EXCEPT ![self] = TRUE]
            /\ pc' = [pc EXCEPT ![self] = "dn"]
            /\ UNCHANGED << up, processIsBlack, hasToken, globalTerm, inbox, 
                            holding, xfers, did, haveAll, black, seen >>

up1(self) == /\ pc[self] = "up1"
             /\ up' = [up EXCEPT ![Parent(self)][POff(self)] = IF black[self] THEN 1 ELSE 0]
             /\ pc' = [pc EXCEPT ![self] = "dn"]
             /\ UNCHANGED << down, processIsBlack, hasToken, lastWasWhite, 
                             globalTerm, inbox, holding, xfers, did, haveAll, 
                             black, seen >>

dn(self) == /\ pc[self] = "dn"
            /\ IF down[self]
                  THEN /\ down' = [down EXCEPT ![self] = FALSE]
                       /\ hasToken' = [hasToken EXCEPT ![self] = TRUE]
                       /\ pc' = [pc EXCEPT ![self] = "d0"]
                  ELSE /\ pc' = [pc EXCEPT ![self] = "obs"]
                       /\ UNCHANGED << down, hasToken >>
            /\ UNCHANGED << up, processIsBlack, lastWasWhite, globalTerm, 
                            inbox, holding, xfers, did, haveAll, black, seen >>

d0(self) == /\ pc[self] = "d0"
            /\ up' = [up EXCEPT ![self][0] = -1]
            /\ pc' = [pc EXCEPT ![self] = "d0c"]
            /\ UNCHANGED << down, processIsBlack, hasToken, lastWasWhite, 
                            globalTerm, inbox, holding, xfers, did, haveAll, 
                            black, seen >>

d0c(self) == /\ pc[self] = "d0c"
             /\ IF HasChild(self, 0)
                   THEN /\ down' = [down EXCEPT ![Child(self, 0)] = TRUE]
                   ELSE /\ TRUE
                        /\ down' = down
             /\ pc' = [pc EXCEPT ![self] = "d1"]
             /\ UNCHANGED << up, processIsBlack, hasToken, lastWasWhite, 
                             globalTerm, inbox, holding, xfers, did, haveAll, 
                             black, seen >>

d1(self) == /\ pc[self] = "d1"
            /\ up' = [up EXCEPT ![self][1] = -1]
            /\ pc' = [pc EXCEPT ![self] = "d1c"]
            /\ UNCHANGED << down, processIsBlack, hasToken, lastWasWhite, 
                            globalTerm, inbox, holding, xfers, did, haveAll, 
                            black, seen >>

d1c(self) == /\ pc[self] = "d1c"
             /\ IF HasChild(self, 1)
                   THEN /\ down' = [down EXCEPT ![Child(self, 1)] = TRUE]
                   ELSE /\ TRUE
                        /\ down' = down
             /\ pc' = [pc EXCEPT ![self] = "obs"]
             /\ UNCHANGED << up, processIsBlack, hasToken, lastWasWhite, 
                             globalTerm, inbox, holding, xfers, did, haveAll, 
                             black, seen >>

obs(self) == /\ pc[self] = "obs"
             /\ seen' = [seen EXCEPT ![self] = globalTerm]
             /\ pc' = [pc EXCEPT ![self] = "loop"]
             /\ UNCHANGED << down, up, processIsBlack, hasToken, lastWasWhite, 
                             globalTerm, inbox, holding, xfers, did, haveAll, 
                             black >>

T(self) == loop(self) \/ take(self) \/ push(self) \/ fin(self) \/ rep(self)
              \/ u0(self) \/ u1(self) \/ ha(self) \/ m2(self) \/ m3(self)
              \/ up1(self) \/ dn(self) \/ d0(self) \/ d0c(self) \/ d1(self)
              \/ d1c(self) \/ obs(self)

(* Allow infinite stuttering to prevent deadlock on termination. *)
Terminating == /\ \A self \in ProcSet: pc[self] = "Done"
               /\ UNCHANGED vars

Next == (\E self \in Threads: T(self))
           \/ Terminating

Spec == /\ Init /\ [][Next]_vars
        /\ \A self \in Threads : WF_vars(T(self))

Termination == <>(\A self \in ProcSet: pc[self] = "Done")

\* END TRANSLATION
NoEarlyAnnounce == globalTerm => ~Outstanding
Announce == <>(\A t \in Threads : pc[t] = "Done")
=============================================================================
