CONSTANTS
  N = 4
  InitWork = 1
  MaxXfer = 1
SPECIFICATION Spec
INVARIANT NoEarlyAnnounce
CHECK_DEADLOCK FALSE
