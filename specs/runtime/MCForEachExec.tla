---------------------------------- MODULE MCForEachExec ----------------------------------
EXTENDS ForEachExec, TLC
\* items 1, 2 initial with overlapping neighbourhoods in opposite order; each pushes one child
NhoodA == (1 :> <<1, 2>> @@ 2 :> <<2, 1>> @@ 3 :> <<1>> @@ 4 :> <<>>)
ChildrenA == (1 :> {3} @@ 2 :> {4} @@ 3 :> {} @@ 4 :> {})
=============================================================================
