SPECIFICATION Spec
CONSTANTS N = 3 RotateOrder = TRUE
INVARIANT WriterExcludesAll
PROPERTY WriterGetsIn
CHECK_DEADLOCK TRUE
