CONSTANTS
  T = 3
  O = 2
  MaxAttempts = 2
  NoRelease = FALSE
SPECIFICATION Spec
INVARIANT AtMostOneOwner
INVARIANT AbortReleasesAll
INVARIANT NoneOwnedAtEnd
INVARIANT Serialisable
CHECK_DEADLOCK FALSE
