SPECIFICATION Spec
CONSTANTS N = 3 RotateOrder = FALSE
INVARIANT WriterExcludesAll
PROPERTY WriterGetsIn
CHECK_DEADLOCK TRUE
