------------------------------- MODULE SpinLock -------------------------------
(***************************************************************************)
(* Implementation-level model of SimpleLock (SimpleLock.h / .cpp; also     *)
(* PaddedLock and the per-thread locks of ThreadRWlock, which wrap it):    *)
(* fast path (relaxed load, CAS), slow path (acquire-load spin, CAS),      *)
(* unlock (store), composed with vector-clock happens-before for one plain *)
(* variable written in the critical section.  The memory orders are        *)
(* CONSTANTS; the check extracts them from the operation stream of the     *)
(* real code, so a weakened order in the sources weakens it here and TLC   *)
(* finds the race for all interleavings.                                   *)
(*   MutualExclusion, NoRace (invariants), Admission (every requester gets *)
(*   in, under fairness)                                                   *)
(***************************************************************************)
EXTENDS Naturals, FiniteSets, TLC
CONSTANTS T, Iters, MoCas, MoUnlock, MoSpinLoad
Threads == 1..T
Zero == [u \in Threads |-> 0]
Max(a, b) == IF a > b THEN a ELSE b
Join(a, b) == [u \in Threads |-> Max(a[u], b[u])]
Acq(mo) == mo \in {1, 2, 4, 5}
Rel(mo) == mo \in {3, 4, 5}
(* --algorithm spinlock {
  variables word = 0, Lrel = Zero,
            C = [t \in Threads |-> [u \in Threads |-> IF u = t THEN 1 ELSE 0]],
            lastW = <<0, 0>>, inCS = {}, raced = FALSE, got = [t \in Threads |-> 0];
  fair+ process (P \in Threads) variable i = 0;
  {
   loop: while (i < Iters) {
     f1:   if (word # 0) { goto s1; };                          \* fast path: relaxed load
     f2:   if (word = 0) {                                       \* CAS(0 -> 1, MoCas)
             word := 1;
             C[self] := [(IF Acq(MoCas) THEN Join(C[self], Lrel) ELSE C[self]) EXCEPT ![self] = @ + 1];
             Lrel := IF Rel(MoCas) THEN Join(Lrel, C[self]) ELSE Lrel;
             goto cs;
           };
     s1:   await word = 0;                                       \* slow path: spin on acquire load
           if (Acq(MoSpinLoad)) { C[self] := Join(C[self], Lrel); };
     s2:   if (word = 0) {
             word := 1;
             C[self] := [(IF Acq(MoCas) THEN Join(C[self], Lrel) ELSE C[self]) EXCEPT ![self] = @ + 1];
             Lrel := IF Rel(MoCas) THEN Join(Lrel, C[self]) ELSE Lrel;
           } else { goto s1; };
     cs:   inCS := inCS \cup {self};
           \* plain write of the protected variable: must be ordered after the previous one
           raced := raced \/ (lastW[1] # 0 /\ lastW[2] > C[self][lastW[1]]);
           lastW := <<self, C[self][self]>>;
     un:   inCS := inCS \ {self};
           word := 0;                                            \* unlock: store(0, MoUnlock)
           Lrel := IF Rel(MoUnlock) THEN C[self] ELSE Zero;
           C[self] := [C[self] EXCEPT ![self] = @ + 1];
           got[self] := got[self] + 1; i := i + 1;
   }
  }
} *)
\* BEGIN TRANSLATION
VARIABLES pc, word, Lrel, C, lastW, inCS, raced, got, i

vars == << pc, word, Lrel, C, lastW, inCS, raced, got, i >>

ProcSet == (Threads)

Init == (* Global variables *)
        /\ word = 0
        /\ Lrel = Zero
        /\ C = [t \in Threads |-> [u \in Threads |-> IF u = t THEN 1 ELSE 0]]
        /\ lastW = <<0, 0>>
        /\ inCS = {}
        /\ raced = FALSE
        /\ got = [t \in Threads |-> 0]
        (* Process P *)
        /\ i = [self \in Threads |-> 0]
        /\ pc = [self \in ProcSet |-> "loop"]

loop(self) == /\ pc[self] = "loop"
              /\ IF i[self] < Iters
                    THEN /\ pc' = [pc EXCEPT ![self] = "f1"]
                    ELSE /\ pc' = [pc EXCEPT ![self] = "Done"]
              /\ UNCHANGED << word, Lrel, C, lastW, inCS, raced, got, i >>

f1(self) == /\ pc[self] = "f1"
            /\ IF word # 0
                  THEN /\ pc' = [pc EXCEPT ![self] = "s1"]
                  ELSE /\ pc' = [pc EXCEPT ![self] = "f2"]
            /\ UNCHANGED << word, Lrel, C, lastW, inCS, raced, got, i >>

f2(self) == /\ pc[self] = "f2"
            /\ IF word = 0
                  THEN /\ word' = 1
                       /\ C' = [C EXCEPT ![self] = [(IF Acq(MoCas) THEN Join(C[self], Lrel) ELSE C[self]) EXCEPT ![self] = @ + 1]]
                       /\ Lrel' = IF Rel(MoCas) THEN Join(Lrel, C'[self]) ELSE Lrel
                       /\ pc' = [pc EXCEPT ![self] = "cs"]
                  ELSE /\ pc' = [pc EXCEPT ![self] = "s1"]
                       /\ UNCHANGED << word, Lrel, C >>
            /\ UNCHANGED << lastW, inCS, raced, got, i >>

s1(self) == /\ pc[self] = "s1"
            /\ word = 0
            /\ IF Acq(MoSpinLoad)
                  THEN /\ C' = [C EXCEPT ![self] = Join(C[self], Lrel)]
                  ELSE /\ TRUE
                       /\ C' = C
            /\ pc' = [pc EXCEPT ![self] = "s2"]
            /\ UNCHANGED << word, Lrel, lastW, inCS, raced, got, i >>

s2(self) == /\ pc[self] = "s2"
            /\ IF word = 0
                  THEN /\ word' = 1
                       /\ C' = [C EXCEPT ![self] = [(IF Acq(MoCas) THEN Join(C[self], Lrel) ELSE C[self]) EXCEPT ![self] = @ + 1]]
                       /\ Lrel' = IF Rel(MoCas) THEN Join(Lrel, C'[self]) ELSE Lrel
                       /\ pc' = [pc EXCEPT ![self] = "cs"]
                  ELSE /\ pc' = [pc EXCEPT ![self] = "s1"]
                       /\ UNCHANGED << word, Lrel, C >>
            /\ UNCHANGED << lastW, inCS, raced, got, i >>

cs(self) == /\ pc[self] = "cs"
            /\ inCS' = (inCS \cup {self})
            /\ raced' = (raced \/ (lastW[1] # 0 /\ lastW[2] > C[self][lastW[1]]))
            /\ lastW' = <<self, C[self][self]>>
            /\ pc' = [pc EXCEPT ![self] = "un"]
            /\ UNCHANGED << word, Lrel, C, got, i >>

un(self) == /\ pc[self] = "un"
            /\ inCS' = inCS \ {self}
            /\ word' = 0
            /\ Lrel' = IF Rel(MoUnlock) THEN C[self] ELSE Zero
            /\ C' = [C EXCEPT ![self] = [C[self] EXCEPT ![self] = @ + 1]]
            /\ got' = [got EXCEPT ![self] = got[self] + 1]
            /\ i' = [i EXCEPT ![self] = i[self] + 1]
            /\ pc' = [pc EXCEPT ![self] = "loop"]
            /\ UNCHANGED << lastW, raced >>

P(self) == loop(self) \/ f1(self) \/ f2(self) \/ s1(self) \/ s2(self)
              \/ cs(self) \/ un(self)

(* Allow infinite stuttering to prevent deadlock on termination. *)
Terminating == /\ \A self \in ProcSet: pc[self] = "Done"
               /\ UNCHANGED vars

Next == (\E self \in Threads: P(self))
           \/ Terminating

Spec == /\ Init /\ [][Next]_vars
        /\ \A self \in Threads : SF_vars(P(self))

Termination == <>(\A self \in ProcSet: pc[self] = "Done")

\* END TRANSLATION
MutualExclusion == Cardinality(inCS) <= 1
NoRace == ~raced
Admission == <>(\A t \in Threads : got[t] = Iters)
=============================================================================
