CONSTANT MaxT = 2
INIT Init
NEXT Next
INVARIANT Inv
CONSTRAINT Bound
CHECK_DEADLOCK FALSE
