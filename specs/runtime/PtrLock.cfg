SPECIFICATION Spec
CONSTANTS Thr = {1, 2, 3} Vals = {0, 1} BlindOr = FALSE
INVARIANTS MutualExclusion ValuePreserved BitMeansHeld
CHECK_DEADLOCK FALSE
