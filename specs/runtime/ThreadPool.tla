------------------------------ MODULE ThreadPool ------------------------------
(***************************************************************************)
(* Implementation-level model of ThreadPool::runInternal / threadLoop /    *)
(* cascade / decascade (ThreadPool.cpp): the master wakes up to two        *)
(* children (binary tree over tids 1..num-1 encoded by wbegin/wend in each *)
(* mailbox), every woken thread cascades further, runs the body, waits for *)
(* its children's done flags (decascade) and sets its own.  Regions with   *)
(* different `num` follow each other on the same pool (tree shapes differ).*)
(*   ExactlyOnce  in region r the body runs once on every tid < num[r] and *)
(*                on no other thread                                       *)
(*   Join         the master leaves region r only when all are done        *)
(* EarlyDone = TRUE is the mutant "set done before waiting for children".  *)
(***************************************************************************)
EXTENDS Naturals, Sequences, FiniteSets, TLC
CONSTANTS M, Nums, EarlyDone       \* pool size, sequence of region thread counts
Pool == 0..(M - 1)
R == Len(Nums)
(* --algorithm pool {
  variables wbegin = [t \in Pool |-> 0], wend = [t \in Pool |-> 0], done = [t \in Pool |-> 1],
            region = 0, ran = [r \in 1..R |-> [t \in Pool |-> 0]], finished = FALSE, left = 0;
  define { Mid(t) == wbegin[t] + (1 + wend[t] - wbegin[t]) \div 2 }
  procedure cascade() {
    c0: if (wbegin[self] = wend[self]) { return; };
    c1: wbegin[wbegin[self]] := wbegin[self] + 1 || wend[wbegin[self]] := Mid(self);     \* child1 mailbox
    c2: done[wbegin[self]] := 0;                                                           \* child1->wakeup()
    c3: if (Mid(self) < wend[self]) {
          wbegin[Mid(self)] := Mid(self) + 1 || wend[Mid(self)] := wend[self];
    c4:   done[Mid(self)] := 0;
        };
    c5: return;
  }
  procedure decascade() {
    d0: if (wbegin[self] # wend[self]) {
    d1:   await done[wbegin[self]] = 1;                      \* while (!c1done) asmPause()
    d2:   if (Mid(self) < wend[self]) { await done[Mid(self)] = 1; };
        };
    d3: return;
  }
  fair process (Master = 0) {
    m0: while (region < R) {
          region := region + 1;
    m1:   wbegin[0] := 1 || wend[0] := Nums[region];
          call cascade();
    m2:   ran[region][0] := ran[region][0] + 1;              \* work()
          call decascade();
    m3:   left := region;                                    \* run() returns
        };
    m4: finished := TRUE;
  }
  fair process (Worker \in 1..(M - 1)) {
    w0: while (TRUE) {
          await done[self] = 0 \/ finished;                   \* me.wait()
          if (finished /\ done[self] # 0) { goto Done; };
    w1:   call cascade();
    w2:   ran[region][self] := ran[region][self] + 1;        \* work()
          if (EarlyDone) { done[self] := 1; };
    w3:   call decascade();
    w4:   done[self] := 1;
        };
  }
} *)
\* BEGIN TRANSLATION
VARIABLES pc, wbegin, wend, done, region, ran, finished, left, stack

(* define statement *)
Mid(t) == wbegin[t] + (1 + wend[t] - wbegin[t]) \div 2


vars == << pc, wbegin, wend, done, region, ran, finished, left, stack >>

ProcSet == {0} \cup (1..(M - 1))

Init == (* Global variables *)
        /\ wbegin = [t \in Pool |-> 0]
        /\ wend = [t \in Pool |-> 0]
        /\ done = [t \in Pool |-> 1]
        /\ region = 0
        /\ ran = [r \in 1..R |-> [t \in Pool |-> 0]]
        /\ finished = FALSE
        /\ left = 0
        /\ stack = [self \in ProcSet |-> << >>]
        /\ pc = [self \in ProcSet |-> CASE self = 0 -> "m0"
                                        [] self \in 1..(M - 1) -> "w0"]

c0(self) == /\ pc[self] = "c0"
            /\ IF wbegin[self] = wend[self]
                  THEN /\ pc' = [pc EXCEPT ![self] = Head(stack[self]).pc]
                       /\ stack' = [stack EXCEPT ![self] = Tail(stack[self])]
                  ELSE /\ pc' = [pc EXCEPT ![self] = "c1"]
                       /\ stack' = stack
            /\ UNCHANGED << wbegin, wend, done, region, ran, finished, left >>

c1(self) == /\ pc[self] = "c1"
            /\ /\ wbegin' = [wbegin EXCEPT ![wbegin[self]] = wbegin[self] + 1]
               /\ wend' = [wend EXCEPT ![wbegin[self]] = Mid(self)]
            /\ pc' = [pc EXCEPT ![self] = "c2"]
            /\ UNCHANGED << done, region, ran, finished, left, stack >>

c2(self) == /\ pc[self] = "c2"
            /\ done' = [done EXCEPT ![wbegin[self]] = 0]
            /\ pc' = [pc EXCEPT ![self] = "c3"]
            /\ UNCHANGED << wbegin, wend, region, ran, finished, left, stack >>

c3(self) == /\ pc[self] = "c3"
            /\ IF Mid(self) < wend[self]
                  THEN /\ /\ wbegin' = [wbegin EXCEPT ![Mid(self)] = Mid(self) + 1]
                          /\ wend' = [wend EXCEPT ![Mid(self)] = wend[self]]
                       /\ pc' = [pc EXCEPT ![self] = "c4"]
                  ELSE /\ pc' = [pc EXCEPT ![self] = "c5"]
                       /\ UNCHANGED << wbegin, wend >>
            /\ UNCHANGED << done, region, ran, finished, left, stack >>

c4(self) == /\ pc[self] = "c4"
            /\ done' = [done EXCEPT ![Mid(self)] = 0]
            /\ pc' = [pc EXCEPT ![self] = "c5"]
            /\ UNCHANGED << wbegin, wend, region, ran, finished, left, stack >>

c5(self) == /\ pc[self] = "c5"
            /\ pc' = [pc EXCEPT ![self] = Head(stack[self]).pc]
            /\ stack' = [stack EXCEPT ![self] = Tail(stack[self])]
            /\ UNCHANGED << wbegin, wend, done, region, ran, finished, left >>

cascade(self) == c0(self) \/ c1(self) \/ c2(self) \/ c3(self) \/ c4(self)
                    \/ c5(self)

d0(self) == /\ pc[self] = "d0"
            /\ IF wbegin[self] # wend[self]
                  THEN /\ pc' = [pc EXCEPT ![self] = "d1"]
                  ELSE /\ pc' = [pc EXCEPT ![self] = "d3"]
            /\ UNCHANGED << wbegin, wend, done, region, ran, finished, left, 
                            stack >>

d1(self) == /\ pc[self] = "d1"
            /\ done[wbegin[self]] = 1
            /\ pc' = [pc EXCEPT ![self] = "d2"]
            /\ UNCHANGED << wbegin, wend, done, region, ran, finished, left, 
                            stack >>

d2(self) == /\ pc[self] = "d2"
            /\ IF Mid(self) < wend[self]
                  THEN /\ done[Mid(self)] = 1
                  ELSE /\ TRUE
            /\ pc' = [pc EXCEPT ![self] = "d3"]
            /\ UNCHANGED << wbegin, wend, done, region, ran, finished, left, 
                            stack >>

d3(self) == /\ pc[self] = "d3"
            /\ pc' = [pc EXCEPT ![self] = Head(stack[self]).pc]
            /\ stack' = [stack EXCEPT ![self] = Tail(stack[self])]
            /\ UNCHANGED << wbegin, wend, done, region, ran, finished, left >>

decascade(self) == d0(self) \/ d1(self) \/ d2(self) \/ d3(self)

m0 == /\ pc[0] = "m0"
      /\ IF region < R
            THEN /\ region' = region + 1
                 /\ pc' = [pc EXCEPT ![0] = "m1"]
            ELSE /\ pc' = [pc EXCEPT ![0] = "m4"]
                 /\ UNCHANGED region
      /\ UNCHANGED << wbegin, wend, done, ran, finished, left, stack >>

m1 == /\ pc[0] = "m1"
      /\ /\ wbegin' = [wbegin EXCEPT ![0] = 1]
         /\ wend' = [wend EXCEPT ![0] = Nums[region]]
      /\ stack' = [stack EXCEPT ![0] = << [ procedure |->  "cascade",
                                            pc        |->  "m2" ] >>
                                        \o stack[0]]
      /\ pc' = [pc EXCEPT ![0] = "c0"]
      /\ UNCHANGED << done, region, ran, finished, left >>

m2 == /\ pc[0] = "m2"
      /\ ran' = [ran EXCEPT ![region][0] = ran[region][0] + 1]
      /\ stack' = [stack EXCEPT ![0] = << [ procedure |->  "decascade",
                                            pc        |->  "m3" ] >>
                                        \o stack[0]]
      /\ pc' = [pc EXCEPT ![0] = "d0"]
      /\ UNCHANGED << wbegin, wend, done, region, finished, left >>

m3 == /\ pc[0] = "m3"
      /\ left' = region
      /\ pc' = [pc EXCEPT ![0] = "m0"]
      /\ UNCHANGED << wbegin, wend, done, region, ran, finished, stack >>

m4 == /\ pc[0] = "m4"
      /\ finished' = TRUE
      /\ pc' = [pc EXCEPT ![0] = "Done"]
      /\ UNCHANGED << wbegin, wend, done, region, ran, left, stack >>

Master == m0 \/ m1 \/ m2 \/ m3 \/ m4

w0(self) == /\ pc[self] = "w0"
            /\ done[self] = 0 \/ finished
            /\ IF finished /\ done[self] # 0
                  THEN /\ pc' = [pc EXCEPT ![self] = "Done"]
                  ELSE /\ pc' = [pc EXCEPT ![self] = "w1"]
            /\ UNCHANGED << wbegin, wend, done, region, ran, finished, left, 
                            stack >>

w1(self) == /\ pc[self] = "w1"
            /\ stack' = [stack EXCEPT ![self] = << [ procedure |->  "cascade",
                                                     pc        |->  "w2" ] >>
                                                 \o stack[self]]
            /\ pc' = [pc EXCEPT ![self] = "c0"]
            /\ UNCHANGED << wbegin, wend, done, region, ran, finished, left >>

w2(self) == /\ pc[self] = "w2"
            /\ ran' = [ran EXCEPT ![region][self] = ran[region][self] + 1]
            /\ IF EarlyDone
                  THEN /\ done' = [done EXCEPT ![self] = 1]
                  ELSE /\ TRUE
                       /\ done' = done
            /\ pc' = [pc EXCEPT ![self] = "w3"]
            /\ UNCHANGED << wbegin, wend, region, finished, left, stack >>

w3(self) == /\ pc[self] = "w3"
            /\ stack' = [stack EXCEPT ![self] = << [ procedure |->  "decascade",
                                                     pc        |->  "w4" ] >>
                                                 \o stack[self]]
            /\ pc' = [pc EXCEPT ![self] = "d0"]
            /\ UNCHANGED << wbegin, wend, done, region, ran, finished, left >>

w4(self) == /\ pc[self] = "w4"
            /\ done' = [done EXCEPT ![self] = 1]
            /\ pc' = [pc EXCEPT ![self] = "w0"]
            /\ UNCHANGED << wbegin, wend, region, ran, finished, left, stack >>

Worker(self) == w0(self) \/ w1(self) \/ w2(self) \/ w3(self) \/ w4(self)

(* Allow infinite stuttering to prevent deadlock on termination. *)
Terminating == /\ \A self \in ProcSet: pc[self] = "Done"
               /\ UNCHANGED vars

Next == Master
           \/ (\E self \in ProcSet: cascade(self) \/ decascade(self))
           \/ (\E self \in 1..(M - 1): Worker(self))
           \/ Terminating

Spec == /\ Init /\ [][Next]_vars
        /\ WF_vars(Master) /\ WF_vars(cascade(0)) /\ WF_vars(decascade(0))
        /\ \A self \in 1..(M - 1) : WF_vars(Worker(self)) /\ WF_vars(cascade(self)) /\ WF_vars(decascade(self))

Termination == <>(\A self \in ProcSet: pc[self] = "Done")

\* END TRANSLATION
ExactlyOnce == \A r \in 1..R : r <= left => \A t \in Pool : ran[r][t] = (IF t < Nums[r] THEN 1 ELSE 0)
NeverTwice == \A r \in 1..R, t \in Pool : ran[r][t] <= 1 /\ (t >= Nums[r] => ran[r][t] = 0)
MasterFinishes == <>finished
=============================================================================
