----------------------------- MODULE BarrierTopo -----------------------------
(* Implementation-level model of TopoBarrier::wait (Barrier_Topo.cpp), the      *)
(* default Galois barrier: per-socket tree nodes, 4-ary arrival tree over       *)
(* sockets plus the socket's non-leader threads, binary wake-up tree over       *)
(* sockets, monotonically increasing per-thread sense.  One label per shared    *)
(* access.  Sock = socket of each thread (threads 0..P-1 active).               *)
EXTENDS Naturals, FiniteSets, TLC
CONSTANTS P, K, Sock      \* Sock \in [0..P-1 -> Nat], non-decreasing, Sock[0] = 0
Threads == 0..(P - 1)
Pkgs == Sock[P - 1] + 1
Sockets == 0..(Pkgs - 1)
Leader(s) == CHOOSE t \in Threads : Sock[t] = s /\ \A u \in Threads : Sock[u] = s => t <= u
IsLeader(t) == Leader(Sock[t]) = t
HaveChild(i) == Cardinality({j \in 0..3 : 4 * i + j + 1 < Pkgs}) +
                Cardinality({t \in Threads : Sock[t] = i /\ ~IsLeader(t)})
Parent(i) == (i - 1) \div 4
(* --algorithm topo {
  variables childnotready = [i \in Sockets |-> HaveChild(i)],
            parentsense = [i \in Sockets |-> 0],
            sense = [t \in Threads |-> 1],
            arrived = [t \in Threads |-> 0], departed = [t \in Threads |-> 0];
  fair process (T \in Threads)
  {
   loop: while (arrived[self] < K) {
     arr:  arrived[self] := arrived[self] + 1;
     ld:   if (IsLeader(self)) {
     l1:     await childnotready[Sock[self]] = 0;                       \* while (n.childnotready) asmPause()
     l2:     childnotready[Sock[self]] := HaveChild(Sock[self]);        \* n.childnotready = n.havechild
     l3:     if (Sock[self] # 0) {
               childnotready[Parent(Sock[self])] := childnotready[Parent(Sock[self])] - 1;
             };
           } else {
     n1:     childnotready[Sock[self]] := childnotready[Sock[self]] - 1;  \* --n.childnotready
           };
     w:    if (self # 0) { w1: await parentsense[Sock[self]] = sense[self]; };
     c:    if (IsLeader(self)) {
     c0:     if (2 * Sock[self] + 1 < Pkgs) { parentsense[2 * Sock[self] + 1] := sense[self]; };
     c1:     if (2 * Sock[self] + 2 < Pkgs) { parentsense[2 * Sock[self] + 2] := sense[self]; };
     c2:     if (self = 0) { parentsense[0] := sense[self]; };
           };
     dep:  sense[self] := sense[self] + 1; departed[self] := departed[self] + 1;
   }
  }
} *)
\* BEGIN TRANSLATION
VARIABLES pc, childnotready, parentsense, sense, arrived, departed

vars == << pc, childnotready, parentsense, sense, arrived, departed >>

ProcSet == (Threads)

Init == (* Global variables *)
        /\ childnotready = [i \in Sockets |-> HaveChild(i)]
        /\ parentsense = [i \in Sockets |-> 0]
        /\ sense = [t \in Threads |-> 1]
        /\ arrived = [t \in Threads |-> 0]
        /\ departed = [t \in Threads |-> 0]
        /\ pc = [self \in ProcSet |-> "loop"]

loop(self) == /\ pc[self] = "loop"
              /\ IF arrived[self] < K
                    THEN /\ pc' = [pc EXCEPT ![self] = "arr"]
                    ELSE /\ pc' = [pc EXCEPT ![self] = "Done"]
              /\ UNCHANGED << childnotready, parentsense, sense, arrived, 
                              departed >>

arr(self) == /\ pc[self] = "arr"
             /\ arrived' = [arrived EXCEPT ![self] = arrived[self] + 1]
             /\ pc' = [pc EXCEPT ![self] = "ld"]
             /\ UNCHANGED << childnotready, parentsense, sense, departed >>

ld(self) == /\ pc[self] = "ld"
            /\ IF IsLeader(self)
                  THEN /\ pc' = [pc EXCEPT ![self] = "l1"]
                  ELSE /\ pc' = [pc EXCEPT ![self] = "n1"]
            /\ UNCHANGED << childnotready, parentsense, sense, arrived, 
                            departed >>

l1(self) == /\ pc[self] = "l1"
            /\ childnotready[Sock[self]] = 0
            /\ pc' = [pc EXCEPT ![self] = "l2"]
            /\ UNCHANGED << childnotready, parentsense, sense, arrived, 
                            departed >>

l2(self) == /\ pc[self] = "l2"
            /\ childnotready' = [childnotready EXCEPT ![Sock[self]] = HaveChild(Sock[self])]
            /\ pc' = [pc EXCEPT ![self] = "l3"]
            /\ UNCHANGED << parentsense, sense, arrived, departed >>

l3(self) == /\ pc[self] = "l3"
            /\ IF Sock[self] # 0
                  THEN /\ childnotready' = [childnotready EXCEPT ![Parent(Sock[self])] = childnotready[Parent(Sock[self])] - 1]
                  ELSE /\ TRUE
                       /\ UNCHANGED childnotready
            /\ pc' = [pc EXCEPT ![self] = "w"]
            /\ UNCHANGED << parentsense, sense, arrived, departed >>

n1(self) == /\ pc[self] = "n1"
            /\ childnotready' = [childnotready EXCEPT ![Sock[self]] = childnotready[Sock[self]] - 1]
            /\ pc' = [pc EXCEPT ![self] = "w"]
            /\ UNCHANGED << parentsense, sense, arrived, departed >>

w(self) == /\ pc[self] = "w"
           /\ IF self # 0
                 THEN /\ pc' = [pc EXCEPT ![self] = "w1"]
                 ELSE /\ pc' = [pc EXCEPT ![self] = "c"]
           /\ UNCHANGED << childnotready, parentsense, sense, arrived, 
                           departed >>

w1(self) == /\ pc[self] = "w1"
            /\ parentsense[Sock[self]] = sense[self]
            /\ pc' = [pc EXCEPT ![self] = "c"]
            /\ UNCHANGED << childnotready, parentsense, sense, arrived, 
                            departed >>

c(self) == /\ pc[self] = "c"
           /\ IF IsLeader(self)
                 THEN /\ pc' = [pc EXCEPT ![self] = "c0"]
                 ELSE /\ pc' = [pc EXCEPT ![self] = "dep"]
           /\ UNCHANGED << childnotready, parentsense, sense, arrived, 
                           departed >>

c0(self) == /\ pc[self] = "c0"
            /\ IF 2 * Sock[self] + 1 < Pkgs
                  THEN /\ parentsense' = [parentsense EXCEPT ![2 * Sock[self] + 1] = sense[self]]
                  ELSE /\ TRUE
                       /\ UNCHANGED parentsense
            /\ pc' = [pc EXCEPT ![self] = "c1"]
            /\ UNCHANGED << childnotready, sense, arrived, departed >>

c1(self) == /\ pc[self] = "c1"
            /\ IF 2 * Sock[self] + 2 < Pkgs
                  THEN /\ parentsense' = [parentsense EXCEPT ![2 * Sock[self] + 2] = sense[self]]
                  ELSE /\ TRUE
                       /\ UNCHANGED parentsense
            /\ pc' = [pc EXCEPT ![self] = "c2"]
            /\ UNCHANGED << childnotready, sense, arrived, departed >>

c2(self) == /\ pc[self] = "c2"
            /\ IF self = 0
                  THEN /\ parentsense' = [parentsense EXCEPT ![0] = sense[self]]
                  ELSE /\ TRUE
                       /\ UNCHANGED parentsense
            /\ pc' = [pc EXCEPT ![self] = "dep"]
            /\ UNCHANGED << childnotready, sense, arrived, departed >>

dep(self) == /\ pc[self] = "dep"
             /\ sense' = [sense EXCEPT ![self] = sense[self] + 1]
             /\ departed' = [departed EXCEPT ![self] = departed[self] + 1]
             /\ pc' = [pc EXCEPT ![self] = "loop"]
             /\ UNCHANGED << childnotready, parentsense, arrived >>

T(self) == loop(self) \/ arr(self) \/ ld(self) \/ l1(self) \/ l2(self)
              \/ l3(self) \/ n1(self) \/ w(self) \/ w1(self) \/ c(self)
              \/ c0(self) \/ c1(self) \/ c2(self) \/ dep(self)

(* Allow infinite stuttering to prevent deadlock on termination. *)
Terminating == /\ \A self \in ProcSet: pc[self] = "Done"
               /\ UNCHANGED vars

Next == (\E self \in Threads: T(self))
           \/ Terminating

Spec == /\ Init /\ [][Next]_vars
        /\ \A self \in Threads : WF_vars(T(self))

Termination == <>(\A self \in ProcSet: pc[self] = "Done")

\* END TRANSLATION
PhaseSeparation == \A t, u \in Threads : departed[t] <= arrived[u]
AllDone == <>(\A t \in Threads : pc[t] = "Done")
=============================================================================
