SPECIFICATION Spec
CONSTANTS Threads = {1, 2, 3} Leader = 1 Prios = {0, 1, 2, 3} MaxPush = 5 NoBackScanUpdate = FALSE
INVARIANTS Conservation NothingStranded
CHECK_DEADLOCK FALSE
