---------------------------------- MODULE DetWindow ----------------------------------
(***************************************************************************)
(* The window computation of the deterministic executor                    *)
(* (Executor_Deterministic.h, WindowManager): at the end of a round every  *)
(* thread sums the committed / iterations counters of ALL threads          *)
(* (calculateWindow), derives the next window from the sums, and then      *)
(* resets ITS OWN counters (nextWindow).  Determinism needs every thread   *)
(* to derive the same window, i.e. to see the same sums.  Each read of a   *)
(* counter and the reset are separate steps.                               *)
(*                                                                         *)
(*   SameSums : when all threads are done, they all computed the same sum  *)
(*                                                                         *)
(* BarrierBetween = FALSE is the outer round of go() as it was (no barrier *)
(* between calculateWindow(false) and nextWindow(): a thread that is ahead *)
(* zeroes its counter while others are still summing -- TLC finds it; the  *)
(* real executor then ran the items of a round in an order that depended   *)
(* on the schedule, repaired by one barrier.wait()).  TRUE is the inner    *)
(* round, and the outer round after the repair.                            *)
(***************************************************************************)
EXTENDS Integers, FiniteSets, Sequences, TLC
CONSTANTS T, BarrierBetween
Threads == 1..T
(* --algorithm detwindow {
  variables counter = [t \in Threads |-> t], arrived = 0, sum = [t \in Threads |-> 0];
  fair process (W \in Threads) variables k = 1, acc = 0;
  {
   rd:  while (k <= T) { acc := acc + counter[k]; k := k + 1; };
   st:  sum[self] := acc;
   bar: if (BarrierBetween) { arrived := arrived + 1; bw: await arrived = T; };
   rs:  counter[self] := 0;
  }
} *)
\* BEGIN TRANSLATION
VARIABLES pc, counter, arrived, sum, k, acc

vars == << pc, counter, arrived, sum, k, acc >>

ProcSet == (Threads)

Init == (* Global variables *)
        /\ counter = [t \in Threads |-> t]
        /\ arrived = 0
        /\ sum = [t \in Threads |-> 0]
        (* Process W *)
        /\ k = [self \in Threads |-> 1]
        /\ acc = [self \in Threads |-> 0]
        /\ pc = [self \in ProcSet |-> "rd"]

rd(self) == /\ pc[self] = "rd"
            /\ IF k[self] <= T
                  THEN /\ acc' = [acc EXCEPT ![self] = acc[self] + counter[k[self]]]
                       /\ k' = [k EXCEPT ![self] = k[self] + 1]
                       /\ pc' = [pc EXCEPT ![self] = "rd"]
                  ELSE /\ pc' = [pc EXCEPT ![self] = "st"]
                       /\ UNCHANGED << k, acc >>
            /\ UNCHANGED << counter, arrived, sum >>

st(self) == /\ pc[self] = "st"
            /\ sum' = [sum EXCEPT ![self] = acc[self]]
            /\ pc' = [pc EXCEPT ![self] = "bar"]
            /\ UNCHANGED << counter, arrived, k, acc >>

bar(self) == /\ pc[self] = "bar"
             /\ IF BarrierBetween
                   THEN /\ arrived' = arrived + 1
                        /\ pc' = [pc EXCEPT ![self] = "bw"]
                   ELSE /\ pc' = [pc EXCEPT ![self] = "rs"]
                        /\ UNCHANGED arrived
             /\ UNCHANGED << counter, sum, k, acc >>

bw(self) == /\ pc[self] = "bw"
            /\ arrived = T
            /\ pc' = [pc EXCEPT ![self] = "rs"]
            /\ UNCHANGED << counter, arrived, sum, k, acc >>

rs(self) == /\ pc[self] = "rs"
            /\ counter' = [counter EXCEPT ![self] = 0]
            /\ pc' = [pc EXCEPT ![self] = "Done"]
            /\ UNCHANGED << arrived, sum, k, acc >>

W(self) == rd(self) \/ st(self) \/ bar(self) \/ bw(self) \/ rs(self)

(* Allow infinite stuttering to prevent deadlock on termination. *)
Terminating == /\ \A self \in ProcSet: pc[self] = "Done"
               /\ UNCHANGED vars

Next == (\E self \in Threads: W(self))
           \/ Terminating

Spec == /\ Init /\ [][Next]_vars
        /\ \A self \in Threads : WF_vars(W(self))

Termination == <>(\A self \in ProcSet: pc[self] = "Done")

\* END TRANSLATION
AllDone == \A t \in Threads : pc[t] = "Done"
SameSums == AllDone => \A a, b \in Threads : sum[a] = sum[b]
=============================================================================
