CONSTANTS
  P = 3
  K = 3
  Sock <- Sock1p2
SPECIFICATION Spec
INVARIANT PhaseSeparation
PROPERTY AllDone
CHECK_DEADLOCK FALSE
