CONSTANTS
  P = 4
  K = 3
  Sock <- Sock3p1
SPECIFICATION Spec
INVARIANT PhaseSeparation
PROPERTY AllDone
CHECK_DEADLOCK FALSE
