------------------------- MODULE BarrierDissemination -------------------------
(* Implementation-level model of DisseminationBarrier::wait: ceil(log2 P)       *)
(* rounds; in round r thread i signals thread (i + 2^r) mod P and waits for     *)
(* its own flag; parity/sense reversal keeps consecutive phases apart.          *)
EXTENDS Naturals, FiniteSets, TLC
CONSTANTS P, K, LogP         \* LogP = ceil(log2 P)
Threads == 0..(P - 1)
Pow2(r) == IF r = 0 THEN 1 ELSE IF r = 1 THEN 2 ELSE IF r = 2 THEN 4 ELSE 8
(* --algorithm diss {
  variables flag = [i \in Threads |-> [rr \in 0..(LogP - 1) |-> [pp \in 0..1 |-> 0]]],
            parity = [i \in Threads |-> 0], sense = [i \in Threads |-> 1],
            arrived = [t \in Threads |-> 0], departed = [t \in Threads |-> 0];
  fair process (T \in Threads) variable r = 0;
  {
   loop: while (arrived[self] < K) {
     arr:  arrived[self] := arrived[self] + 1; r := 0;
     rnd:  while (r < LogP) {
     d1:     flag[(self + Pow2(r)) % P][r][parity[self]] := sense[self];     \* partner->flag[parity] = sense
     d2:     await flag[self][r][parity[self]] = sense[self];                \* while (myflag != sense) asmPause()
             r := r + 1;
           };
     dep:  if (parity[self] = 1) { sense[self] := 1 - sense[self]; };
           parity[self] := 1 - parity[self];
           departed[self] := departed[self] + 1;
   }
  }
} *)
\* BEGIN TRANSLATION
VARIABLES pc, flag, parity, sense, arrived, departed, r

vars == << pc, flag, parity, sense, arrived, departed, r >>

ProcSet == (Threads)

Init == (* Global variables *)
        /\ flag = [i \in Threads |-> [rr \in 0..(LogP - 1) |-> [pp \in 0..1 |-> 0]]]
        /\ parity = [i \in Threads |-> 0]
        /\ sense = [i \in Threads |-> 1]
        /\ arrived = [t \in Threads |-> 0]
        /\ departed = [t \in Threads |-> 0]
        (* Process T *)
        /\ r = [self \in Threads |-> 0]
        /\ pc = [self \in ProcSet |-> "loop"]

loop(self) == /\ pc[self] = "loop"
              /\ IF arrived[self] < K
                    THEN /\ pc' = [pc EXCEPT ![self] = "arr"]
                    ELSE /\ pc' = [pc EXCEPT ![self] = "Done"]
              /\ UNCHANGED << flag, parity, sense, arrived, departed, r >>

arr(self) == /\ pc[self] = "arr"
             /\ arrived' = [arrived EXCEPT ![self] = arrived[self] + 1]
             /\ r' = [r EXCEPT ![self] = 0]
             /\ pc' = [pc EXCEPT ![self] = "rnd"]
             /\ UNCHANGED << flag, parity, sense, departed >>

rnd(self) == /\ pc[self] = "rnd"
             /\ IF r[self] < LogP
                   THEN /\ pc' = [pc EXCEPT ![self] = "d1"]
                   ELSE /\ pc' = [pc EXCEPT ![self] = "dep"]
             /\ UNCHANGED << flag, parity, sense, arrived, departed, r >>

d1(self) == /\ pc[self] = "d1"
            /\ flag' = [flag EXCEPT ![(self + Pow2(r[self])) % P][r[self]][parity[self]] = sense[self]]
            /\ pc' = [pc EXCEPT ![self] = "d2"]
            /\ UNCHANGED << parity, sense, arrived, departed, r >>

d2(self) == /\ pc[self] = "d2"
            /\ flag[self][r[self]][parity[self]] = sense[self]
            /\ r' = [r EXCEPT ![self] = r[self] + 1]
            /\ pc' = [pc EXCEPT ![self] = "rnd"]
            /\ UNCHANGED << flag, parity, sense, arrived, departed >>

dep(self) == /\ pc[self] = "dep"
             /\ IF parity[self] = 1
                   THEN /\ sense' = [sense EXCEPT ![self] = 1 - sense[self]]
                   ELSE /\ TRUE
                        /\ sense' = sense
             /\ parity' = [parity EXCEPT ![self] = 1 - parity[self]]
             /\ departed' = [departed EXCEPT ![self] = departed[self] + 1]
             /\ pc' = [pc EXCEPT ![self] = "loop"]
             /\ UNCHANGED << flag, arrived, r >>

T(self) == loop(self) \/ arr(self) \/ rnd(self) \/ d1(self) \/ d2(self)
              \/ dep(self)

(* Allow infinite stuttering to prevent deadlock on termination. *)
Terminating == /\ \A self \in ProcSet: pc[self] = "Done"
               /\ UNCHANGED vars

Next == (\E self \in Threads: T(self))
           \/ Terminating

Spec == /\ Init /\ [][Next]_vars
        /\ \A self \in Threads : WF_vars(T(self))

Termination == <>(\A self \in ProcSet: pc[self] = "Done")

\* END TRANSLATION
PhaseSeparation == \A t, u \in Threads : departed[t] <= arrived[u]
AllDone == <>(\A t \in Threads : pc[t] = "Done")
=============================================================================
