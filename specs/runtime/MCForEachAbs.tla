---------------------------- MODULE MCForEachAbs ----------------------------
(* Sanity model of ForEachAbs: an environment that issues every operator-level  *)
(* event the abstract specification allows, over 2 workers, 3 initial items,    *)
(* 2 objects; checks the representation invariants the trace walker relies on.  *)
EXTENDS ForEachAbs, TLC
Items == 0..2
Objs == 0..1
Init == /\ pending = {0, 1} /\ committed = {} /\ run = [t \in Workers |-> Idle] /\ owner = <<>> /\ objlog = <<>>
        /\ round = [j \in {0, 1} |-> 0] /\ kind \in {"plain", "level-bsp"} /\ desc = 0
Next == \E t \in Workers :
          \/ \E i \in Items : Start(t, i, 0) \/ Cautious(t, i) \/ Commit(t, i) \/ VAbort(t, i)
          \* the program creates fresh item ids only (each child has one creator)
          \/ \E i \in Items, c \in {2} :
               /\ c \notin pending \cup committed \cup Running
               /\ \A u \in Workers : c \notin Pushed(run[u].pushes)
               /\ Len(run[t].pushes) < 1 /\ Push(t, i, c, 0)
          \/ \E o \in Objs : (~run[t].trying /\ Try(t, o)) \/ Acquire(t, o)
Inv == /\ committed \cap pending = {}
       /\ \A t, u \in Workers : (t # u /\ run[t].phase = "cau" /\ run[u].phase = "cau") => run[t].item # run[u].item
       /\ \A t \in Workers : run[t].phase = "cau" => \A o \in run[t].owned : owner[o] = t
       /\ \A o \in DOMAIN objlog : \A k \in 1..Len(objlog[o]) : objlog[o][k] \in committed \cup Running
Bound == \A o \in DOMAIN objlog : Len(objlog[o]) <= 4
=============================================================================
