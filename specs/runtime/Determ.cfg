CONSTANTS
  NI = 3
  NO = 2
  IgnoreLoser = FALSE
SPECIFICATION Spec
INVARIANT Deterministic
INVARIANT Isolated
CHECK_DEADLOCK FALSE
