SPECIFICATION Spec
CONSTANTS Threads = {1, 2} Leader = 1 Prios = {0, 1, 2} MaxPush = 4 NoBackScanUpdate = FALSE
INVARIANTS Conservation NothingStranded
CHECK_DEADLOCK FALSE
