CONSTANTS
  P = 4
  K = 3
  Sock <- Sock2x2
SPECIFICATION Spec
INVARIANT PhaseSeparation
PROPERTY AllDone
CHECK_DEADLOCK FALSE
