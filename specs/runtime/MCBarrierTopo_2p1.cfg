CONSTANTS
  P = 3
  K = 3
  Sock <- Sock2p1
SPECIFICATION Spec
INVARIANT PhaseSeparation
PROPERTY AllDone
CHECK_DEADLOCK FALSE
