SPECIFICATION Spec
CONSTANTS N = 4 M = 5 AtomicClaim = TRUE
INVARIANTS SlotsInRange TransposeExact
PROPERTY Terminates
CHECK_DEADLOCK FALSE
