-------------------------------- MODULE MorphAbs --------------------------------
(***************************************************************************)
(* Property-level specification of a morph graph (C10): the serial graph   *)
(* abstract data type.  State: the set of live nodes and a multiset of     *)
(* edges <<src, dst, data>> (kept as a sorted sequence; an undirected edge *)
(* is stored once with src <= dst).  A concurrent execution inside         *)
(* for_each must leave the graph exactly as applying the committed         *)
(* operations one at a time in commit order does (Serialisable); the       *)
(* structural promises follow from how the views are derived from the one  *)
(* edge multiset: an undirected / in-out edge and its reverse entry exist  *)
(* together and share their data, no edge refers to a removed node,        *)
(* iteration yields each live node / edge exactly once.                    *)
(* Apply(..) is the set of allowed <<result, next state>> pairs (removing  *)
(* or updating "the" edge a->b may pick any of several parallel edges).    *)
(***************************************************************************)
EXTENDS Integers, Sequences, FiniteSets
Less3(x, y) == \/ x[1] < y[1] \/ (x[1] = y[1] /\ x[2] < y[2]) \/ (x[1] = y[1] /\ x[2] = y[2] /\ x[3] < y[3])
Less2(x, y) == \/ x[1] < y[1] \/ (x[1] = y[1] /\ x[2] < y[2])
InsAt(s, p, v) == SubSeq(s, 1, p) \o <<v>> \o SubSeq(s, p + 1, Len(s))
RemAt(s, i) == SubSeq(s, 1, i - 1) \o SubSeq(s, i + 1, Len(s))
Ins3(s, v) == InsAt(s, Cardinality({i \in 1..Len(s) : Less3(s[i], v) \/ s[i] = v}), v)
Ins2(s, v) == InsAt(s, Cardinality({i \in 1..Len(s) : Less2(s[i], v) \/ s[i] = v}), v)
RECURSIVE SortPairs(_)
SortPairs(s) == IF s = <<>> THEN <<>> ELSE Ins2(SortPairs(Tail(s)), Head(s))

Key(undir, a, b) == IF undir /\ b < a THEN <<b, a>> ELSE <<a, b>>
Matches(E, undir, a, b) == {i \in 1..Len(E) : <<E[i][1], E[i][2]>> = Key(undir, a, b)}
Mk(undir, a, b, d) == LET k == Key(undir, a, b) IN <<k[1], k[2], d>>

\* state = [nodes |-> set, E |-> sorted sequence of triples]
Apply(st, undir, op, a, b, d) ==
  LET E == st.E  m == Matches(E, undir, a, b) IN
  CASE op = "addnode" -> {<< <<1>>, [st EXCEPT !.nodes = @ \cup {a}] >>}
    [] op = "rmnode" -> {<< <<1>>, [nodes |-> st.nodes \ {a},
                                     E |-> SelectSeq(E, LAMBDA e : e[1] # a /\ e[2] # a)] >>}
    [] op = "addedge" -> IF m = {} THEN {<< <<1, d>>, [st EXCEPT !.E = Ins3(E, Mk(undir, a, b, d))] >>}
                         ELSE {<< <<0, E[i][3]>>, st >> : i \in m}
    [] op = "addmulti" -> {<< <<1, d>>, [st EXCEPT !.E = Ins3(E, Mk(undir, a, b, d))] >>}
    [] op = "rmedge" -> IF m = {} THEN {<< <<0>>, st >>} ELSE {<< <<1>>, [st EXCEPT !.E = RemAt(E, i)] >> : i \in m}
    [] op = "find" -> {<< <<IF m = {} THEN 0 ELSE 1>>, st >>}
    \* the edge looked up in every way the flavour offers (plain, sorted by destination, through the reverse view): all agree
    [] op = "findall" -> LET f == IF m = {} THEN 0 ELSE 1 IN {<< <<f, f, f>>, st >>}
    [] op = "setdata" -> IF m = {} THEN {<< <<0>>, st >>}
                         ELSE {<< <<1>>, [st EXCEPT !.E = Ins3(RemAt(E, i), <<E[i][1], E[i][2], d>>)] >> : i \in m}
    [] op = "incdata" -> IF m = {} THEN {<< <<0>>, st >>}
                         ELSE {<< <<1, E[i][3] + 100>>, [st EXCEPT !.E = Ins3(RemAt(E, i), <<E[i][1], E[i][2], E[i][3] + 100>>)] >> : i \in m}
    [] op = "setnode" -> {<< <<1>>, st >>}
    [] OTHER -> {}

\* views derived from the edge multiset
OutOf(st, undir, n) ==
  LET idx == {i \in 1..Len(st.E) : (st.E[i][1] = n \/ (undir /\ st.E[i][2] = n)) /\ st.E[i][1] \in st.nodes /\ st.E[i][2] \in st.nodes}
      other(i) == IF st.E[i][1] = n THEN st.E[i][2] ELSE st.E[i][1]
      RECURSIVE Build(_)
      Build(S) == IF S = {} THEN <<>> ELSE LET i == CHOOSE x \in S : TRUE IN <<<<other(i), st.E[i][3]>>>> \o Build(S \ {i})
  IN SortPairs(Build(idx))
InOf(st, n) ==
  LET idx == {i \in 1..Len(st.E) : st.E[i][2] = n /\ st.E[i][1] \in st.nodes /\ st.E[i][2] \in st.nodes}
      RECURSIVE Build(_)
      Build(S) == IF S = {} THEN <<>> ELSE LET i == CHOOSE x \in S : TRUE IN <<<<st.E[i][1], st.E[i][3]>>>> \o Build(S \ {i})
  IN SortPairs(Build(idx))
=============================================================================
