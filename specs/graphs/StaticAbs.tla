---------------------------------- MODULE StaticAbs ----------------------------------
(***************************************************************************)
(* Property-level meaning of the static (local-computation) graphs (C11).  *)
(* A graph is a sequence (indexed by node id + 1) of sequences of          *)
(* <<dst, data>> pairs: the out-edges of each node in file order.          *)
(***************************************************************************)
EXTENDS Integers, Sequences, FiniteSets
Range(s) == {s[i] : i \in 1..Len(s)}
Count(s, x) == Cardinality({i \in 1..Len(s) : s[i] = x})
SameBag(s, t) == Len(s) = Len(t) /\ \A x \in Range(s) \cup Range(t) : Count(s, x) = Count(t, x)
N(G) == Len(G)
\* in-edges of node v (0-based) as a bag, represented by the sequence in (source, position) order
RECURSIVE Flatten(_)
Flatten(ss) == IF ss = <<>> THEN <<>> ELSE Head(ss) \o Flatten(Tail(ss))
InEdges(G, v) == Flatten([s \in 1..Len(G) |-> LET idx == {i \in 1..Len(G[s]) : G[s][i][1] = v} IN
                    [k \in 1..Cardinality(idx) |-> LET i == CHOOSE j \in idx : Cardinality({m \in idx : m < j}) = k - 1 IN <<s - 1, G[s][i][2]>>]])
SortedBy(s, c) == \A i \in 1..(Len(s) - 1) : s[i][c] <= s[i + 1][c]

OutExact(G, V) == V = G
OutBag(G, V) == Len(V) = Len(G) /\ \A n \in 1..Len(G) : SameBag(G[n], V[n])
InView(G, V) == Len(V) = Len(G) /\ \A n \in 1..Len(G) : SameBag(InEdges(G, n - 1), V[n])
SortedDstView(G, V) == OutBag(G, V) /\ \A n \in 1..Len(V) : SortedBy(V[n], 1)
SortedDataView(G, V) == OutBag(G, V) /\ \A n \in 1..Len(V) : SortedBy(V[n], 2)
DegreeOK(G, d) == Len(d) = Len(G) /\ \A n \in 1..Len(G) : d[n] = Len(G[n])
InDegreeOK(G, d) == Len(d) = Len(G) /\ \A n \in 1..Len(G) : d[n] = Len(InEdges(G, n - 1))
\* lookup answers <<src, dst, found, data, dstOk>>: found iff the edge exists, and what is returned is such an edge
FindOK(G, a, hasData) ==
  LET hits == {i \in 1..Len(G[a[1] + 1]) : G[a[1] + 1][i][1] = a[2]} IN
  /\ (a[3] = 1) = (hits # {})
  /\ a[3] = 1 => /\ a[5] = 1 /\ (hasData => \E i \in hits : G[a[1] + 1][i][2] = a[4])
\* per-thread local ranges: every node in exactly one thread's range, each range a block of consecutive ids,
\* blocks ordered by thread id
RangesOK(n, loc) == /\ Flatten(loc) = [i \in 1..n |-> i - 1]
=============================================================================
