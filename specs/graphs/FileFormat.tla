---------------------------------- MODULE FileFormat ----------------------------------
(***************************************************************************)
(* The binary graph (.gr) layout (C12).  A file is a sequence of sections: *)
(*   header      4 x u64: version, sizeof(edge data), #nodes, #edges       *)
(*   out index   u64 per node: end offset of its edges                     *)
(*   dests       u32 per edge (version 1, padded to a multiple of 8 bytes) *)
(*               u64 per edge (version 2, no padding)                      *)
(*   edge data   sizeof(edge data) bytes per edge                          *)
(* Writers and readers must agree on the section offsets below; a reader   *)
(* of the node range [b, e) presents exactly that slice of the graph.      *)
(***************************************************************************)
EXTENDS Integers, Sequences
HeaderBytes == 32
IndexOffset == HeaderBytes
DestOffset(n) == IndexOffset + 8 * n
DestBytes(version, m) == IF version = 1 THEN 4 * m + 4 * (m % 2) ELSE 8 * m
DataOffset(version, n, m) == DestOffset(n) + DestBytes(version, m)
FileSize(version, n, m, sz) == DataOffset(version, n, m) + sz * m
\* every section starts 8-byte aligned
Aligned(version, n, m) == DestOffset(n) % 8 = 0 /\ DataOffset(version, n, m) % 8 = 0
\* the slice of graph G (sequence of per-node edge sequences) a sub-range reader must present
Slice(G, b, e) == SubSeq(G, b + 1, e)
=============================================================================
