---------------------------------- MODULE TraceGFile ----------------------------------
EXTENDS FileFormat, ConvertAbs, Json, IOUtils, TLC
Tr == ndJsonDeserialize(IOEnv.TRACE)
VARIABLES l, G, NN, MM
RecOK(r) == IF r.k = "crash" THEN FALSE
            ELSE CASE r.k = "graph" -> TRUE
                   \* the independent reference writer follows the layout; library writers must produce the same bytes
                   [] r.k = "layout" -> r.size = FileSize(r.version, r.n, r.m, r.sz) /\ Aligned(r.version, r.n, r.m)
                   [] r.k = "write" -> r.diff = -1 /\ r.size = r.refsize
                   [] r.k = "header" -> r.n = NN /\ r.m = MM
                   [] r.k = "read" -> IF r.big = 1 THEN r.ok = 1 ELSE r.adj = Slice(G, r.b, r.e)
                   \* graph-convert runs (driver: tools/checks/c12.py); outputs were parsed by an independent reader
                   [] r.k = "conv" ->
                        IF r.failed = 1 THEN FALSE
                        ELSE CASE r.mode = "edgelist2gr" -> EdgelistOK(r.lines, r.void = 1, r.adj)
                               [] r.mode = "csv2gr" -> EdgelistOK(r.lines, r.void = 1, r.adj)
                               [] r.mode = "dimacs2gr" -> SameOK(G, r.adj)
                               [] r.mode = "gr2edgelist" -> ListOK(G, 0, r.list)
                               [] r.mode = "gr2edgelist1ind" -> ListOK(G, 1, r.list)
                               [] r.mode = "gr2dimacs" -> ListOK(G, 1, r.list) /\ r.n = NN /\ r.m = MM
                               [] r.mode = "gr2tgr" -> TransposeOK(G, r.adj)
                               [] r.mode = "gr2sgr" -> SymmetricOK(G, r.adj)
                               [] r.mode = "gr2cgr" -> CleanOK(G, r.adj)
                               [] r.mode = "gr2sorteddstgr" -> SortedDstView(G, r.adj)
                               [] r.mode = "gr2sortedweightgr" -> SortedDataView(G, r.adj)
                               [] r.mode = "gr2randomweightgr" -> RandomWeightOK(G, r.adj, r.lo, r.hi)
                               [] r.mode = "gr2biggr" -> SameOK(G, r.adj)
                               [] r.mode = "gr2mtx" -> ListOK(G, 1, r.list) /\ r.n = NN /\ r.m = MM
                               [] r.mode = "mtx2gr" -> SameOK(G, r.adj)
                               [] r.mode = "gr2lowdegreegr" -> LowDegreeOK(G, r.adj, r.maxdeg)
                               [] r.mode = "gr2sorteddegreegr" -> SortedDegreeOK(G, r.adj, r.perm)
                               [] OTHER -> FALSE
                   [] OTHER -> FALSE
Init == l = 1 /\ G = <<>> /\ NN = 0 /\ MM = 0
Next == /\ l <= Len(Tr) /\ l' = l + 1
        /\ IF Tr[l].k = "graph" THEN G' = Tr[l].adj /\ NN' = Tr[l].n /\ MM' = Tr[l].m ELSE UNCHANGED <<G, NN, MM>>
        /\ IF RecOK(Tr[l]) THEN TRUE ELSE PrintT(<<"REJECT", l, Tr[l].k>>)
Spec == Init /\ [][Next]_<<l, G, NN, MM>>
Consumed == TLCGet("stats").diameter = Len(Tr) + 1
=============================================================================
