---------------------------------- MODULE TraceStatic ----------------------------------
EXTENDS StaticAbs, Json, IOUtils, TLC
Tr == ndJsonDeserialize(IOEnv.TRACE)
VARIABLES l, G, hasData
ViewOK(r) == CASE r.what = "out" -> IF r.ordered = 1 THEN OutExact(G, r.adj) ELSE OutBag(G, r.adj)
               [] r.what = "in" -> InView(G, r.adj)
               [] r.what = "transposed" -> InView(G, r.adj)
               [] r.what = "sortedDst" -> SortedDstView(G, r.adj)
               [] r.what = "sortedData" -> SortedDataView(G, r.adj)
               [] OTHER -> FALSE
RecOK(r) == IF r.k = "crash" THEN FALSE
            ELSE IF r.k = "graph" THEN TRUE
            ELSE IF r.big = 1 THEN r.ok = 1      \* large graphs: the harness applied the same rules (see staticg.cpp)
            ELSE CASE r.k = "view" -> ViewOK(r)
                   [] r.k = "degree" -> DegreeOK(G, r.deg)
                   [] r.k = "indegree" -> InDegreeOK(G, r.deg)
                   [] r.k = "find" -> \A i \in 1..Len(r.ans) : FindOK(G, r.ans[i], hasData)
                   [] r.k = "ranges" -> RangesOK(r.n, r.loc)
                   [] OTHER -> FALSE
Init == l = 1 /\ G = <<>> /\ hasData = FALSE
Next == /\ l <= Len(Tr) /\ l' = l + 1
        /\ IF Tr[l].k = "graph" THEN G' = Tr[l].adj /\ hasData' = (Tr[l].et # "void")
           ELSE UNCHANGED <<G, hasData>>
        /\ IF RecOK(Tr[l]) THEN TRUE ELSE PrintT(<<"REJECT", l, Tr[l].k>>)
Spec == Init /\ [][Next]_<<l, G, hasData>>
Consumed == TLCGet("stats").diameter = Len(Tr) + 1
=============================================================================
