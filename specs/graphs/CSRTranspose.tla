---------------------------------- MODULE CSRTranspose ----------------------------------
(***************************************************************************)
(* Implementation-level model of LC_CSR_Graph::transpose() and             *)
(* LC_CSR_CSC_Graph::constructIncomingEdges(): in-degrees are counted with *)
(* atomic increments, a serial prefix sum turns them into slot ranges, and *)
(* the source nodes are then processed concurrently, each edge claiming    *)
(* the next free slot of its destination with an atomic fetch-and-add.     *)
(* All graphs with N nodes and M edges and all interleavings of the        *)
(* scatter phase are explored.  AtomicClaim = FALSE splits the fetch-and-  *)
(* add into a read and a write (the change the atomicity protects against).*)
(***************************************************************************)
EXTENDS Integers, Sequences, FiniteSets
CONSTANTS N, M, AtomicClaim
Nodes == 0..(N - 1)
Edges == 1..M
VARIABLES src, dst, phase, temp, start, cursor, reg, newSrc, newEdge
vars == <<src, dst, phase, temp, start, cursor, reg, newSrc, newEdge>>
\* edge e (1..M) goes from src[e] to dst[e]; edges are stored grouped by source (CSR), its "data" is its own index e
Init == /\ src \in {f \in [Edges -> Nodes] : \A e \in 1..(M - 1) : f[e] <= f[e + 1]}
        /\ dst \in [Edges -> Nodes]
        /\ phase = "count" /\ temp = [n \in Nodes |-> 0] /\ start = [n \in Nodes |-> 0]
        /\ cursor = [n \in Nodes |-> 0]      \* number of out-edges of n already scattered
        /\ reg = [n \in Nodes |-> -1]        \* value read by the worker on source n (non-atomic variant only)
        /\ newSrc = [s \in Edges |-> -1] /\ newEdge = [s \in Edges |-> -1]
OutEdges(n) == {e \in Edges : src[e] = n}
Kth(n, k) == CHOOSE e \in OutEdges(n) : Cardinality({f \in OutEdges(n) : f < e}) = k
\* phase 1+2 (counting is a commutative sum of atomic increments; the prefix sum is serial): one step
CountAndPrefix == /\ phase = "count" /\ phase' = "scatter"
                  /\ LET indeg == [n \in Nodes |-> Cardinality({e \in Edges : dst[e] = n})]
                         before == [n \in Nodes |-> Cardinality({e \in Edges : dst[e] < n})]
                     IN temp' = before /\ start' = before
                  /\ UNCHANGED <<src, dst, cursor, reg, newSrc, newEdge>>
\* phase 3: the worker on source n scatters its next edge
Claim(n) == /\ phase = "scatter" /\ cursor[n] < Cardinality(OutEdges(n))
            /\ LET e == Kth(n, cursor[n]) d == dst[e] IN
               IF AtomicClaim
               THEN /\ temp' = [temp EXCEPT ![d] = @ + 1]
                    /\ newSrc' = [newSrc EXCEPT ![temp[d] + 1] = n] /\ newEdge' = [newEdge EXCEPT ![temp[d] + 1] = e]
                    /\ cursor' = [cursor EXCEPT ![n] = @ + 1] /\ UNCHANGED reg
               ELSE IF reg[n] = -1
               THEN reg' = [reg EXCEPT ![n] = temp[d]] /\ UNCHANGED <<temp, newSrc, newEdge, cursor>>
               ELSE /\ temp' = [temp EXCEPT ![d] = reg[n] + 1] /\ reg' = [reg EXCEPT ![n] = -1]
                    /\ newSrc' = [newSrc EXCEPT ![reg[n] + 1] = n] /\ newEdge' = [newEdge EXCEPT ![reg[n] + 1] = e]
                    /\ cursor' = [cursor EXCEPT ![n] = @ + 1]
            /\ UNCHANGED <<src, dst, phase, start>>
Finish == /\ phase = "scatter" /\ \A n \in Nodes : cursor[n] = Cardinality(OutEdges(n))
          /\ phase' = "done" /\ UNCHANGED <<src, dst, temp, start, cursor, reg, newSrc, newEdge>>
Next == CountAndPrefix \/ (\E n \in Nodes : Claim(n)) \/ Finish
Spec == Init /\ [][Next]_vars /\ WF_vars(Next)

\* ---- properties ----
\* every slot written at most once, and only inside the range of the destination it belongs to
SlotsInRange == \A s \in Edges : newEdge[s] # -1 =>
                   LET d == dst[newEdge[s]] IN s > start[d] /\ s <= start[d] + Cardinality({e \in Edges : dst[e] = d})
\* the transposed graph is exactly the multiset of reversed edges: slot s of node d holds an in-edge of d, each edge once
TransposeExact == phase = "done" =>
   /\ \A e \in Edges : Cardinality({s \in Edges : newEdge[s] = e}) = 1
   /\ \A s \in Edges : newEdge[s] # -1 /\ newSrc[s] = src[newEdge[s]]
   /\ \A s \in Edges : LET d == dst[newEdge[s]] IN s > start[d] /\ s <= start[d] + Cardinality({e \in Edges : dst[e] = d})
\* edges of one source keep their relative order inside a destination's slot range (parallel edges stay in file order)
Terminates == <>(phase = "done")
=============================================================================
