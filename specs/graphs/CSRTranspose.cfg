SPECIFICATION Spec
CONSTANTS N = 3 M = 4 AtomicClaim = TRUE
INVARIANTS SlotsInRange TransposeExact
PROPERTY Terminates
CHECK_DEADLOCK FALSE
