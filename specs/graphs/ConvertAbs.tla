---------------------------------- MODULE ConvertAbs ----------------------------------
(***************************************************************************)
(* What each graph-convert conversion must produce (C12), over abstract    *)
(* graphs (StaticAbs): G is the input, V the output adjacency.             *)
(* Text inputs are described line by line as <<kind, src, dst, weight>>:   *)
(*   kind 0  "src dst weight"   (also with extra columns / CR-LF)          *)
(*   kind 1  comment, blank or otherwise unparsable line                   *)
(*   kind 2  "src dst" without a weight column                             *)
(***************************************************************************)
EXTENDS StaticAbs
Max2(a, b) == IF a > b THEN a ELSE b
\* ---- text -> gr -----------------------------------------------------------
Accepted(lines, void) == SelectSeq(lines, LAMBDA x : x[1] = 0 \/ (void /\ x[1] = 2))
RECURSIVE MaxId(_)
MaxId(ls) == IF ls = <<>> THEN 0 ELSE Max2(Max2(Head(ls)[2], Head(ls)[3]), MaxId(Tail(ls)))
\* node count is inferred from the largest id; edges keep their file order within a source
FromEdgelist(lines, void) ==
  LET acc == Accepted(lines, void) n == MaxId(acc) + 1 IN
  [s \in 1..n |-> LET mine == SelectSeq(acc, LAMBDA x : x[2] = s - 1) IN
                  [i \in 1..Len(mine) |-> <<mine[i][3], IF void THEN 0 ELSE mine[i][4]>>]]
EdgelistOK(lines, void, V) == V = FromEdgelist(lines, void)
\* ---- gr -> text -----------------------------------------------------------
\* the edges in CSR order as <<src, dst, weight>>, ids shifted by 'base'
ToList(G, base) == Flatten([s \in 1..Len(G) |-> [i \in 1..Len(G[s]) |-> <<s - 1 + base, G[s][i][1] + base, G[s][i][2]>>]])
ListOK(G, base, L) == L = ToList(G, base)
\* ---- gr -> gr -------------------------------------------------------------
SameOK(G, V) == V = G                                   \* endian swap, round trips
TransposeOK(G, V) == InView(G, V)
SymmetricOK(G, V) == /\ Len(V) = Len(G)
                     /\ \A n \in 1..Len(G) :
                          SameBag(V[n], G[n] \o SelectSeq(InEdges(G, n - 1), LAMBDA x : x[1] # n - 1))
\* no self loops, one edge per destination (carrying the data of one of the merged edges), sorted by destination
CleanOK(G, V) == /\ Len(V) = Len(G)
                 /\ \A n \in 1..Len(G) :
                      /\ \A i \in 1..(Len(V[n]) - 1) : V[n][i][1] < V[n][i + 1][1]
                      /\ {V[n][i][1] : i \in 1..Len(V[n])} = {G[n][i][1] : i \in 1..Len(G[n])} \ {n - 1}
                      /\ \A i \in 1..Len(V[n]) : \E j \in 1..Len(G[n]) : G[n][j] = V[n][i]
\* same structure, weights inside the requested interval
RandomWeightOK(G, V, lo, hi) == /\ Len(V) = Len(G)
                                /\ \A n \in 1..Len(G) : /\ Len(V[n]) = Len(G[n])
                                                        /\ \A i \in 1..Len(G[n]) : V[n][i][1] = G[n][i][1] /\ V[n][i][2] >= lo /\ V[n][i][2] <= hi
\* remove the nodes with more than k out-edges (and every edge from or to them); the others are renumbered in order
Kept(G, k) == {n \in 1..Len(G) : Len(G[n]) <= k}
NewId(G, k, n) == Cardinality({x \in Kept(G, k) : x < n})          \* 0-based new id of kept node n (1-based index)
LowDegreeOK(G, V, k) ==
   /\ Len(V) = Cardinality(Kept(G, k))
   /\ \A n \in Kept(G, k) :
        V[NewId(G, k, n) + 1] = [i \in 1..Len(SelectSeq(G[n], LAMBDA e : (e[1] + 1) \in Kept(G, k))) |->
                                  LET e == SelectSeq(G[n], LAMBDA x : (x[1] + 1) \in Kept(G, k))[i] IN <<NewId(G, k, e[1] + 1), e[2]>>]
\* relabel by out-degree: perm[old + 1] = new id is a bijection, degrees do not decrease along the new ids, edges follow
SortedDegreeOK(G, V, perm) ==
   /\ Len(V) = Len(G) /\ Len(perm) = Len(G) /\ {perm[i] : i \in 1..Len(perm)} = 0..(Len(G) - 1)
   /\ \A a, b \in 1..Len(G) : perm[a] < perm[b] => Len(G[a]) <= Len(G[b])
   /\ \A a \in 1..Len(G) : SameBag(V[perm[a] + 1], [i \in 1..Len(G[a]) |-> <<perm[G[a][i][1] + 1], G[a][i][2]>>])
=============================================================================
