-------------------------------- MODULE TraceMorph --------------------------------
(* Trace validation for C10.  Executions: reset, operations (sequential mode: with  *)
(* a full dump of the real graph after each one; concurrent mode: the commit log     *)
(* of a for_each and one dump after the loop), end.  The specification may branch    *)
(* (parallel edges); an execution is accepted when some branch reaches its "end"     *)
(* alive: it then prints <<"ACCEPT", line>>.                                         *)
EXTENDS MorphAbs, Json, IOUtils, TLC
Tr == ndJsonDeserialize(IOEnv.TRACE)
VARIABLES l, st, cfg, alive
vars == <<l, st, cfg, alive>>
Empty == [nodes |-> {}, E |-> <<>>]
Init == l = 1 /\ st = Empty /\ cfg = [undir |-> FALSE, hasin |-> FALSE, sortedg |-> FALSE] /\ alive = FALSE

SetOf(s) == {s[i] : i \in 1..Len(s)}
DumpOK(r) ==
  /\ SetOf(r.nodes) = st.nodes /\ Len(r.nodes) = Cardinality(st.nodes) /\ r.dupnodes = 0
  /\ \A k \in 1..Len(r.out) : r.out[k][2] = OutOf(st, cfg.undir, r.out[k][1])
  /\ cfg.hasin => \A k \in 1..Len(r["in"]) : r["in"][k][2] = InOf(st, r["in"][k][1])
  /\ cfg.sortedg => r.sorted = 1

Next ==
  /\ l <= Len(Tr) /\ l' = l + 1
  /\ LET r == Tr[l] IN
     CASE r.ev = "reset" -> /\ st' = Empty /\ alive' = TRUE
                            /\ cfg' = [undir |-> r.undir = 1, hasin |-> r.hasin = 1, sortedg |-> r.sortedg = 1]
       [] ~alive -> UNCHANGED <<st, cfg, alive>>
       [] r.ev = "op" ->
            LET ok == {e \in Apply(st, cfg.undir, r.op, r.a, r.b, r.d) : e[1] = r.res} IN
            IF ok = {} THEN alive' = FALSE /\ UNCHANGED <<st, cfg>>
            ELSE \E e \in ok : st' = e[2] /\ UNCHANGED <<cfg, alive>>
       [] r.ev = "dump" -> alive' = DumpOK(r) /\ UNCHANGED <<st, cfg>>
       \* parallel iteration over the nodes: every live node exactly once, nothing else
       [] r.ev = "piter" -> /\ alive' = (r.bad = 0 /\ SetOf(r.nodes) = st.nodes /\ Len(r.nodes) = Cardinality(st.nodes))
                            /\ UNCHANGED <<st, cfg>>
       [] r.ev = "end" -> PrintT(<<"ACCEPT", l>>) /\ UNCHANGED <<st, cfg, alive>>
       [] OTHER -> alive' = FALSE /\ UNCHANGED <<st, cfg>>      \* hang, crash
Spec == Init /\ [][Next]_vars
=============================================================================
