---------------------------------- MODULE PSTLAbs ----------------------------------
(***************************************************************************)
(* Property-level meaning of the ParallelSTL algorithms (C16) = the meaning*)
(* of their std:: counterparts, over run-length encoded sequences          *)
(* <<value, length>>, ... (adjacent runs have different values).           *)
(***************************************************************************)
EXTENDS Integers, Sequences, FiniteSets
RECURSIVE TotalLen(_)
TotalLen(r) == IF r = <<>> THEN 0 ELSE Head(r)[2] + TotalLen(Tail(r))
RECURSIVE CountV(_, _)
CountV(r, v) == IF r = <<>> THEN 0 ELSE (IF Head(r)[1] = v THEN Head(r)[2] ELSE 0) + CountV(Tail(r), v)
Values(r) == {r[i][1] : i \in 1..Len(r)}
SamePerm(a, b) == /\ TotalLen(a) = TotalLen(b) /\ \A v \in Values(a) \cup Values(b) : CountV(a, v) = CountV(b, v)
SortedAsc(r) == \A i \in 1..(Len(r) - 1) : r[i][1] < r[i + 1][1]
SortedDesc(r) == \A i \in 1..(Len(r) - 1) : r[i][1] > r[i + 1][1]
RECURSIVE WSum(_)
WSum(r) == IF r = <<>> THEN 0 ELSE Head(r)[1] * Head(r)[2] + WSum(Tail(r))
\* value at 0-based index i
RECURSIVE At(_, _)
At(r, i) == IF i < Head(r)[2] THEN Head(r)[1] ELSE At(Tail(r), i - Head(r)[2])
\* prefix sum at 0-based index i (inclusive)
RECURSIVE Prefix(_, _)
Prefix(r, i) == IF i < Head(r)[2] THEN Head(r)[1] * (i + 1) ELSE Head(r)[1] * Head(r)[2] + Prefix(Tail(r), i - Head(r)[2])
\* number of leading elements satisfying x < k in an RLE sequence in which all of them come first
RECURSIVE LeadLess(_, _)
LeadLess(r, k) == IF r = <<>> \/ ~(Head(r)[1] < k) THEN 0 ELSE Head(r)[2] + LeadLess(Tail(r), k)
RECURSIVE CountLess(_, _)
CountLess(r, k) == IF r = <<>> THEN 0 ELSE (IF Head(r)[1] < k THEN Head(r)[2] ELSE 0) + CountLess(Tail(r), k)
Max(S) == CHOOSE x \in S : \A y \in S : y <= x
Min(S) == CHOOSE x \in S : \A y \in S : y >= x

SortOK(in, o, desc) == SamePerm(in, o) /\ (IF desc = 1 THEN SortedDesc(o) ELSE SortedAsc(o))
\* a valid partition point with a permutation of the input on either side
PartitionOK(in, o, k, p) == /\ SamePerm(in, o) /\ p = CountLess(in, k) /\ LeadLess(o, k) = p
CountOK(in, k, res) == res = CountV(in, k)
FindOK(in, k, res) == IF CountV(in, k) > 0 THEN res < TotalLen(in) /\ At(in, res) = k ELSE res = TotalLen(in)
AccumOK(in, r) == /\ r.sum = WSum(in) /\ r.min = (IF in = <<>> THEN 1000 ELSE Min(Values(in))) /\ r.mapred = 2 * WSum(in) + TotalLen(in)
                  /\ r.max = (IF in = <<>> THEN -1 ELSE Max(Values(in)))
PartialSumOK(in, pos, val, ret) == /\ ret = TotalLen(in) /\ \A j \in 1..Len(pos) : val[j] = Prefix(in, pos[j])
=============================================================================
