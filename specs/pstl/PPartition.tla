---------------------------------- MODULE PPartition ----------------------------------
(***************************************************************************)
(* Implementation-level model of galois::ParallelSTL::partition            *)
(* (ParallelSTL.h: partition_helper / dual_partition): threads claim blocks*)
(* of BS elements from the low and the high end under a lock, swap         *)
(* misplaced elements between their current low and high block, record the *)
(* block they could not finish (update), and a serial std::partition over  *)
(* [rfirst, rlast) finishes the job.  Elements are booleans (= pred(x)).   *)
(* PerfectTest selects the final step: "orig" is the pinned code before the*)
(* fix, "ge" a partial repair, "fixed" the repaired code (see Final).       *)
(***************************************************************************)
EXTENDS Integers, Sequences, FiniteSets
CONSTANTS N, BS, T, PerfectTest
Idx == 0..(N - 1)
VARIABLES arr, first, last, rfirst, rlast, low, high, pc, res, oob, arr0
vars == <<arr, first, last, rfirst, rlast, low, high, pc, res, oob, arr0>>
Thr == 1..T
Min2(a, b) == IF a < b THEN a ELSE b
Max2(a, b) == IF a > b THEN a ELSE b
Swap(a, i, j) == [a EXCEPT ![i] = a[j], ![j] = a[i]]
\* dual_partition(first1,last1, first2,last2): returns <<array, first1', first3.base()>>
RECURSIVE SkipTrue(_, _, _)
SkipTrue(a, i, l) == IF i < l /\ a[i] THEN SkipTrue(a, i + 1, l) ELSE i
RECURSIVE SkipFalseDown(_, _, _)
SkipFalseDown(a, h, f) == IF h > f /\ ~a[h - 1] THEN SkipFalseDown(a, h - 1, f) ELSE h
RECURSIVE DP(_, _, _, _, _)
DP(a, f1, l1, f2, h) ==
  LET i == SkipTrue(a, f1, l1) IN
  IF i = l1 THEN <<a, l1, h>>
  ELSE LET g == SkipFalseDown(a, h, f2) IN
       IF g = f2 THEN <<a, i, f2>>
       ELSE DP(Swap(a, i, g - 1), i + 1, l1, f2, g - 1)
\* std::partition of [f, l): stable enough for the model (result index and a valid arrangement)
CountTrue(a, f, l) == Cardinality({i \in f..(l - 1) : a[i]})
StdPartition(a, f, l) == LET c == CountTrue(a, f, l) IN
   <<[i \in Idx |-> IF i >= f /\ i < l THEN (i < f + c) ELSE a[i]], f + c>>

Init == /\ arr \in [Idx -> BOOLEAN] /\ arr0 = arr
        /\ first = 0 /\ last = N /\ rfirst = N /\ rlast = 0
        /\ low = [t \in Thr |-> <<0, 0>>] /\ high = [t \in Thr |-> <<0, 0>>]
        /\ pc = [t \in Thr |-> "dual"] /\ res = -1 /\ oob = FALSE
Dual(t) == /\ pc[t] = "dual"
           /\ LET d == DP(arr, low[t][1], low[t][2], high[t][1], high[t][2]) IN
                /\ arr' = d[1] /\ low' = [low EXCEPT ![t] = <<d[2], low[t][2]>>]
                /\ high' = [high EXCEPT ![t] = <<high[t][1], d[3]>>]
           /\ pc' = [pc EXCEPT ![t] = "takeLow"]
           /\ UNCHANGED <<first, last, rfirst, rlast, res, oob, arr0>>
TakeLow(t) == /\ pc[t] = "takeLow" /\ pc' = [pc EXCEPT ![t] = "takeHigh"]
              /\ IF low[t][1] = low[t][2]
                 THEN LET b == Min2(BS, last - first) IN /\ low' = [low EXCEPT ![t] = <<first, first + b>>] /\ first' = first + b
                 ELSE UNCHANGED <<low, first>>
              /\ UNCHANGED <<arr, last, rfirst, rlast, high, res, oob, arr0>>
TakeHigh(t) == /\ pc[t] = "takeHigh" /\ pc' = [pc EXCEPT ![t] = "test"]
               /\ IF high[t][1] = high[t][2]
                  THEN LET b == Min2(BS, last - first) IN /\ high' = [high EXCEPT ![t] = <<last - b, last>>] /\ last' = last - b
                  ELSE UNCHANGED <<high, last>>
               /\ UNCHANGED <<arr, first, rfirst, rlast, low, res, oob, arr0>>
Test(t) == /\ pc[t] = "test"
           /\ IF low[t][1] # low[t][2] /\ high[t][1] # high[t][2]
              THEN pc' = [pc EXCEPT ![t] = "dual"] /\ UNCHANGED <<rfirst, rlast>>
              ELSE /\ pc' = [pc EXCEPT ![t] = "done"]
                   /\ LET rf1 == IF low[t][1] # low[t][2] THEN Min2(rfirst, low[t][1]) ELSE rfirst
                          rl1 == IF low[t][1] # low[t][2] THEN Max2(rlast, low[t][2]) ELSE rlast
                      IN /\ rfirst' = (IF high[t][1] # high[t][2] THEN Min2(rf1, high[t][1]) ELSE rf1)
                         /\ rlast' = (IF high[t][1] # high[t][2] THEN Max2(rl1, high[t][2]) ELSE rl1)
           /\ UNCHANGED <<arr, first, last, low, high, res, oob, arr0>>
\* "orig": the pinned test.  "ge": only the inverted test repaired (rfirst >= rlast) -- still wrong, because
\* completed blocks between a leftover block and the meeting point are not covered.  "fixed": the serial pass
\* covers the leftover blocks *and* everything between them and the meeting point first = last.
Perfect == IF PerfectTest = "orig" THEN rfirst = 0 /\ rlast = N ELSE IF PerfectTest = "ge" THEN rfirst >= rlast ELSE FALSE
SerialLo == IF PerfectTest = "fixed" THEN Min2(rfirst, first) ELSE rfirst
SerialHi == IF PerfectTest = "fixed" THEN Max2(rlast, first) ELSE rlast
Final == /\ \A t \in Thr : pc[t] = "done" /\ res = -1 /\ ~oob
         /\ IF Perfect THEN res' = first /\ UNCHANGED <<arr, oob>>
            ELSE IF SerialLo > SerialHi THEN oob' = TRUE /\ UNCHANGED <<arr, res>>   \* std::partition(last, first): out of bounds
            ELSE LET p == StdPartition(arr, SerialLo, SerialHi) IN arr' = p[1] /\ res' = p[2] /\ UNCHANGED oob
         /\ UNCHANGED <<first, last, rfirst, rlast, low, high, pc, arr0>>
Next == (\E t \in Thr : Dual(t) \/ TakeLow(t) \/ TakeHigh(t) \/ Test(t)) \/ Final
Spec == Init /\ [][Next]_vars /\ WF_vars(Next)

\* ---- properties (C16 for partition) ----
NoOutOfBounds == ~oob
ValidResult == res # -1 => /\ \A i \in Idx : (i < res) = arr[i]
                           /\ CountTrue(arr, 0, N) = CountTrue(arr0, 0, N)
\* blocks are owned exclusively and stay inside the unclaimed window's complement
Disjoint == \A s, t \in Thr : s # t => /\ (low[s][2] <= low[t][1] \/ low[t][2] <= low[s][1] \/ low[s][1] = low[s][2] \/ low[t][1] = low[t][2])
                                       /\ (high[s][2] <= high[t][1] \/ high[t][2] <= high[s][1] \/ high[s][1] = high[s][2] \/ high[t][1] = high[t][2])
Window == first <= last
\* elements are only moved, never created: the multiset is preserved at every step
Preserved == CountTrue(arr, 0, N) = CountTrue(arr0, 0, N)
Terminates == <>(res # -1 \/ oob)
=============================================================================
