SPECIFICATION Spec
CONSTANTS N = 9 BS = 2 T = 3 PerfectTest = "fixed"
INVARIANTS NoOutOfBounds ValidResult Disjoint Window Preserved
PROPERTY Terminates
CHECK_DEADLOCK FALSE
