---------------------------------- MODULE TracePSTL ----------------------------------
EXTENDS PSTLAbs, Json, IOUtils, TLC
Tr == ndJsonDeserialize(IOEnv.TRACE)
VARIABLE l
RecOK(r) ==
  IF r.k = "crash" THEN FALSE
  ELSE IF r.k = "destroy" THEN r.once = r.n /\ r.other = 0
  ELSE IF r.k = "find_unique" THEN r.res = r.pos          \* the only matching element must be found wherever it is
  ELSE IF r.rand = 1 THEN
    \* random inputs are not shipped: the harness compared with the std:: algorithm / checked the defining predicate
    CASE r.k = "sort" -> r.eqstd = 1
      [] r.k = "partition" -> r.valid = 1 /\ r.perm = 1
      [] r.k = "count_if" -> r.eqstd = 1
      [] r.k = "find_if" -> (r.exists = 1 => r.found = 1) /\ (r.exists = 0 => r.res = r.n)
      [] r.k = "accumulate" -> r.sum = r.refsum /\ r.mapred = 2 * r.refsum + r.n
      [] r.k = "partial_sum" -> r.eqstd = 1 /\ r.ret = r.n
      [] OTHER -> FALSE
  ELSE
    CASE r.k = "sort" -> SortOK(r.in, r.out, r.desc)
      [] r.k = "partition" -> PartitionOK(r.in, r.out, r.kk, r.p)
      [] r.k = "count_if" -> CountOK(r.in, r.kk, r.res)
      [] r.k = "find_if" -> FindOK(r.in, r.kk, r.res)
      [] r.k = "accumulate" -> AccumOK(r.in, r)
      [] r.k = "partial_sum" -> PartialSumOK(r.in, r.pos, r.val, r.ret)
      [] OTHER -> FALSE
Init == l = 1
Next == /\ l <= Len(Tr) /\ l' = l + 1 /\ IF RecOK(Tr[l]) THEN TRUE ELSE PrintT(<<"REJECT", l, Tr[l].k>>)
Spec == Init /\ [][Next]_l
Consumed == TLCGet("stats").diameter = Len(Tr) + 1
=============================================================================
