SPECIFICATION Spec
CONSTANTS N = 7 BS = 2 T = 2 PerfectTest = "ge"
INVARIANTS NoOutOfBounds ValidResult Disjoint Window Preserved
PROPERTY Terminates
CHECK_DEADLOCK FALSE
