-------------------------- MODULE BlockRangeProof --------------------------
(* Unbounded statement of C13 for galois::block_range (gstl.h): for ALL      *)
(* natural sizes d, part counts n >= 1 and ids, the pieces                   *)
(* [A(d,n,i), B(d,n,i)) start at 0, are adjacent, ordered, and end at d.     *)
(* Link to the code: identical arithmetic in uint64/size_t provided nothing  *)
(* overflows, i.e. d + n - 1 < 2^64 and Numper(d,n) * n < 2^64 (the harness  *)
(* exercises the real routine up to that threshold).                         *)
EXTENDS Naturals, TLAPS

Min(a, b) == IF a < b THEN a ELSE b
Max(a, b) == IF a > b THEN a ELSE b
Numper(d, n) == Max((d + n - 1) \div n, 1)
A(d, n, i) == Min(Numper(d, n) * i, d)
B(d, n, i) == Min(Numper(d, n) * (i + 1), d)

THEOREM Adj == \A d \in Nat, n \in Nat \ {0}, i \in Nat : A(d, n, i + 1) = B(d, n, i)
  BY DEF A, B

THEOREM Start == \A d \in Nat, n \in Nat \ {0} : A(d, n, 0) = 0
  BY DEF A, Min, Numper, Max

LEMMA NumperNat == \A d \in Nat, n \in Nat \ {0} : Numper(d, n) \in Nat /\ Numper(d, n) >= 1
  BY DEF Numper, Max

THEOREM Ordered == \A d \in Nat, n \in Nat \ {0}, i \in Nat : A(d, n, i) <= B(d, n, i)
  <1> SUFFICES ASSUME NEW d \in Nat, NEW n \in Nat \ {0}, NEW i \in Nat
               PROVE A(d, n, i) <= B(d, n, i)
    OBVIOUS
  <1> DEFINE k == Numper(d, n)
  <1>1. k \in Nat /\ k >= 1 BY NumperNat
  <1>2. k * i <= k * (i + 1) BY <1>1
  <1> HIDE DEF k
  <1> QED BY <1>1, <1>2 DEF A, B, Min, k

LEMMA DivLe == \A x \in Nat, n \in Nat \ {0} : n * ((x + n - 1) \div n) >= x
  OBVIOUS

THEOREM Cover == \A d \in Nat, n \in Nat \ {0} : B(d, n, n - 1) = d
  <1> SUFFICES ASSUME NEW d \in Nat, NEW n \in Nat \ {0}
               PROVE B(d, n, n - 1) = d
    OBVIOUS
  <1>1. n * ((d + n - 1) \div n) >= d BY DivLe
  <1>2. (d + n - 1) \div n \in Nat OBVIOUS
  <1>3. Numper(d, n) >= (d + n - 1) \div n BY <1>2 DEF Numper, Max
  <1>4. Numper(d, n) \in Nat BY NumperNat
  <1>5. Numper(d, n) * n >= d BY <1>1, <1>2, <1>3, <1>4
  <1>6. n - 1 + 1 = n OBVIOUS
  <1> QED BY <1>5, <1>6, <1>4 DEF B, Min
=============================================================================
