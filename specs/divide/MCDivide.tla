------------------------------ MODULE MCDivide ------------------------------
(* Exhaustive design-level check: for ALL inputs within the bounds the       *)
(* transcribed routines return a Partition.  One TLC state per input case.   *)
EXTENDS Divide, TLC

CONSTANTS MaxD, MaxN,        \* block_range: sizes 0..MaxD, parts 1..MaxN
          MaxNodes, MaxDeg,  \* graph divisions: node counts, degrees
          MaxParts, Weights, ScaleVals

VARIABLE c   \* the case under consideration (a record), or "init"

DegSeqs == UNION {[1..k -> 0..MaxDeg] : k \in 0..MaxNodes}
ScaleSeqs(t) == {<<>>} \cup [1..t -> ScaleVals]

WeightPairs == {x \in Weights \X Weights : x # <<0, 0>>}
TBs == {s \in [1..4 -> 0..4] : s[1] = 0 /\ \A i \in 1..3 : s[i] <= s[i+1]}

Init ==
  \/ \E d \in 0..MaxD, n \in 1..MaxN, b \in {0, 3} :
        c = [k |-> "block", d |-> d, n |-> n, b |-> b]
  \/ \E deg \in DegSeqs, w \in WeightPairs, t \in 1..MaxParts :
        c = [k |-> "divide", deg |-> deg, nw |-> w[1], ew |-> w[2], t |-> t, sc |-> <<>>]
  \/ \E deg \in DegSeqs, t \in 1..MaxParts : \E sc \in [1..t -> ScaleVals] :
        c = [k |-> "divide", deg |-> deg, nw |-> 1, ew |-> 1, t |-> t, sc |-> sc]
  \/ \E deg \in DegSeqs, bn \in 0..MaxNodes, en \in 0..MaxNodes, t \in 1..MaxParts, a \in {0, 1, 2} :
        c = [k |-> "suboff", deg |-> deg, bn |-> bn, en |-> en, t |-> t, alpha |-> a]
  \/ \E tb \in TBs, gb \in 0..4, ge \in 0..4 :
        c = [k |-> "specific", tb |-> tb, gb |-> gb, ge |-> ge]
  \/ \E deg \in DegSeqs, t \in 1..MaxParts :
        c = [k |-> "byedge", deg |-> deg, t |-> t]
Next == UNCHANGED c

ValidSub(x) == x.bn <= x.en /\ x.en <= Len(x.deg)

CaseOK(x) ==
  CASE x.k = "init" -> TRUE
    [] x.k = "block" ->
         IsPartition(BlockPieces(x.b, x.b + x.d, x.n), x.b, x.b + x.d)
    [] x.k = "divide" ->
         LET nn == Len(x.deg)
             ps == PrefixSum(x.deg)
             ne == IF nn = 0 THEN 0 ELSE ps[nn]
             r  == DivideNodesAll(nn, ne, x.nw, x.ew, x.t, ps, x.sc, 0, 0)
         IN /\ IsPartition(NodePieces(r), 0, nn)
            /\ IsPartition(EdgePieces(r), 0, ne)
    [] x.k = "suboff" ->
         ValidSub(x) =>
           LET ps == PrefixSum(x.deg)
               r  == UnitRangesPrefixSum(x.t, ps, x.bn, x.en, x.alpha)
           IN OffsetsArePartition(r, x.bn, x.en)
    [] x.k = "specific" ->
         (x.gb <= x.ge /\ x.ge <= x.tb[4]) =>
           IsPartition(SpecificPieces(x.tb, 3, x.gb, x.ge), x.gb, x.ge)
    [] x.k = "byedge" ->
         LET nn == Len(x.deg)
             ps == PrefixSum(x.deg)
             ne == IF nn = 0 THEN 0 ELSE ps[nn]
             r  == [i \in 1..x.t |-> DivideByEdge(nn, ne, i - 1, x.t, ps)]
         IN IsPartition(EdgePieces(r), 0, ne)

AllPartition == CaseOK(c)
=============================================================================
