CONSTANTS
  MaxD = 24
  MaxN = 7
  MaxNodes = 4
  MaxDeg = 2
  MaxParts = 4
  Weights = {0, 1, 2}
  ScaleVals = {1, 2}
INIT Init
NEXT Next
INVARIANT AllPartition
CHECK_DEADLOCK FALSE
