CONSTANTS
  MaxD = 60
  MaxN = 11
  MaxNodes = 5
  MaxDeg = 2
  MaxParts = 5
  Weights = {0, 1, 2}
  ScaleVals = {1, 2}
INIT Init
NEXT Next
INVARIANT AllPartition
CHECK_DEADLOCK FALSE
