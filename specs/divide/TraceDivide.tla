----------------------------- MODULE TraceDivide -----------------------------
(* Trace validation for C13: every record is one call group of a real        *)
(* work-division routine (inputs + returned pieces) logged by                *)
(* harness/src/divide.cpp.  Property level: the returned pieces must be a    *)
(* Partition (Divide!IsPartition).  Implementation level (drift, never an    *)
(* alarm): the pieces equal what the transcription in Divide.tla computes.   *)
EXTENDS Divide, Json, IOUtils, TLC, Integers

Trace == ndJsonDeserialize(IOEnv.TRACE)

VARIABLES l, nbad, ndrift
vars == <<l, nbad, ndrift>>

BigLt(a, b) == \E k \in 1..4 : (\A j \in 1..(k-1) : a[j] = b[j]) /\ a[k] < b[k]
BigLe(a, b) == a = b \/ BigLt(a, b)
BigZero == <<0, 0, 0, 0>>

PS(r) == PrefixSum(r.deg)
SubNE(r) == LET ps == PS(r) IN
  (IF r.en = 0 THEN 0 ELSE ps[r.en]) - (IF r.bn = 0 THEN 0 ELSE ps[r.bn])

RecOK(r) ==
  CASE r.k = "block" -> IsPartition(r.p, r.b, r.b + r.d)
    [] r.k = "blockbig" ->
         LET m == Len(r.ids) IN
         /\ \A i \in 1..m : BigLe(r.lo[i], r.hi[i]) /\ BigLe(r.hi[i], r.d)
         /\ \A i \in 1..m : r.ids[i] = 0 => r.lo[i] = BigZero
         /\ \A i \in 1..m : r.ids[i] = r.n - 1 => r.hi[i] = r.d
         /\ \A i \in 1..(m-1) : r.ids[i+1] = r.ids[i] + 1 => r.hi[i] = r.lo[i+1]
         /\ \A i \in 1..(m-1) : BigLe(r.hi[i], r.lo[i+1])
    [] r.k = "divide" ->
         /\ IsPartition(NodePieces(r.r), 0, r.en - r.bn)
         /\ IsPartition(EdgePieces(r.r), 0, SubNE(r))
    [] r.k = "unit" -> OffsetsArePartition(r.r, r.bn, r.en)
    [] r.k = "byedge" ->
         /\ IsPartition(EdgePieces(r.r), 0, SubNE([deg |-> r.deg, bn |-> 0, en |-> Len(r.deg)]))
         /\ \A k \in 1..Len(r.r) : r.r[k][1] <= r.r[k][2] /\ r.r[k][2] <= Len(r.deg)
    [] r.k = "specific" ->
         (r.ge <= r.tb[r.threads + 1]) => IsPartition(r.p, r.gb, r.ge)
    [] OTHER -> FALSE

\* what the transcription computes (implementation-level conformance; drift only)
RecExpected(r) ==
  CASE r.k = "block" -> r.p = BlockPieces(r.b, r.b + r.d, r.n)
    [] r.k = "divide" ->
         LET ps == PS(r)
             eoff == IF r.bn = 0 THEN 0 ELSE ps[r.bn]
         IN r.r = DivideNodesAll(r.en - r.bn, SubNE(r), r.nw, r.ew, r.t, ps, r.sc, eoff, r.bn)
    [] r.k = "unit" ->
         IF r.v = "ps" THEN r.r = UnitRangesPrefixSumWhole(r.t, PS(r), r.alpha)
         ELSE r.r = UnitRangesPrefixSum(r.t, PS(r), r.bn, r.en, r.alpha)
    [] r.k = "byedge" ->
         LET nn == Len(r.deg)
             ps == PS(r)
             ne == IF nn = 0 THEN 0 ELSE ps[nn]
         IN r.r = [i \in 1..r.t |-> DivideByEdge(nn, ne, i - 1, r.t, ps)]
    [] r.k = "specific" -> r.p = SpecificPieces(r.tb, r.threads, r.gb, r.ge)
    [] OTHER -> TRUE

Init == l = 1 /\ nbad = 0 /\ ndrift = 0

Judge(r) ==
  LET ok == RecOK(r) IN
  IF ~ok THEN <<1, 0>>
  ELSE IF RecExpected(r) THEN <<0, 0>> ELSE <<0, 1>>

Next ==
  /\ l <= Len(Trace)
  /\ LET j == Judge(Trace[l]) IN
     /\ IF j[1] = 1 THEN PrintT(<<"REJECT", l, Trace[l].k>>)
        ELSE IF j[2] = 1 THEN PrintT(<<"DRIFT", l, Trace[l].k>>) ELSE TRUE
     /\ nbad' = nbad + j[1]
     /\ ndrift' = ndrift + j[2]
  /\ l' = l + 1

Spec == Init /\ [][Next]_vars

\* every record was consumed (guards against a stuck trace specification)
Consumed == TLCGet("stats").diameter = Len(Trace) + 1
=============================================================================
