------------------------------- MODULE Divide -------------------------------
(***************************************************************************)
(* Functional transcriptions of Galois' work-division routines, written    *)
(* the way the code computes them, and the property-level predicate        *)
(* Partition that C13 demands of their results.                            *)
(*                                                                         *)
(*   block_range                 libgalois/include/galois/gstl.h           *)
(*   findIndexPrefixSum,                                                   *)
(*   divideNodesBinarySearch     libgalois/include/galois/graphs/GraphHelpers.h *)
(*   determine_block_division,                                             *)
(*   unitRangeCornerCaseHandle   libgalois/src/GraphHelpers.cpp            *)
(*   determineUnitRanges*        GraphHelpers.h                            *)
(*   SpecificRange::block_pair   libgalois/include/galois/runtime/Range.h  *)
(*   FileGraph::divideByEdge     libgalois/src/FileGraph.cpp               *)
(*                                                                         *)
(* Prefix sums are 1-based sequences here: ps[k] = number of edges of      *)
(* nodes 0..k-1 (the code's edgePrefixSum[k-1]).                           *)
(***************************************************************************)
EXTENDS Naturals, Sequences, FiniteSets

Min(a, b) == IF a < b THEN a ELSE b
Max(a, b) == IF a > b THEN a ELSE b
CeilDiv(a, b) == (a + b - 1) \div b

(***************************** property level *******************************)
(* A sequence of half-open pieces <<lo,hi>> partitions [from, to): the      *)
(* non-empty pieces appear in order, are contiguous (hence disjoint) and    *)
(* together cover exactly [from,to); empty pieces may sit anywhere (several *)
(* routines return a conventional empty range for a part that got nothing). *)
NonEmptyIdx(p) == {k \in 1..Len(p) : p[k][1] # p[k][2]}

IsPartition(p, from, to) ==
  LET ne == NonEmptyIdx(p) IN
  /\ \A k \in 1..Len(p) : p[k][1] <= p[k][2]
  /\ IF ne = {} THEN from = to
     ELSE LET first == CHOOSE k \in ne : \A j \in ne : k <= j
              last  == CHOOSE k \in ne : \A j \in ne : k >= j
          IN /\ p[first][1] = from
             /\ p[last][2] = to
             /\ \A k \in ne : k # last =>
                   LET nxt == CHOOSE j \in ne : j > k /\ \A i \in ne : i > k => j <= i
                   IN p[k][2] = p[nxt][1]

(* offsets vector r[1..n+1] (returnRanges of the unit-range routines) *)
OffsetsArePartition(r, from, to) ==
  /\ r[1] = from /\ r[Len(r)] = to
  /\ \A k \in 1..Len(r)-1 : r[k] <= r[k+1]

(****************************** block_range *********************************)
BRNumper(d, n) == Max(CeilDiv(d, n), 1)
BRA(d, n, i) == Min(BRNumper(d, n) * i, d)
BRB(d, n, i) == Min(BRNumper(d, n) * (i + 1), d)
BlockRange(b, e, i, n) == <<b + BRA(e - b, n, i), b + BRB(e - b, n, i)>>
BlockPieces(b, e, n) == [i \in 1..n |-> BlockRange(b, e, i - 1, n)]

(*************************** findIndexPrefixSum *****************************)
RECURSIVE FindIdx(_, _, _, _, _, _, _, _)
FindIdx(nw, ew, target, lb, ub, ps, eoff, noff) ==
  IF lb >= ub THEN lb
  ELSE LET mid == lb + (ub - lb) \div 2
           ne  == IF mid + noff # 0 THEN ps[mid + noff] - eoff ELSE 0
           w   == ne * ew + mid * nw
       IN IF w < target THEN FindIdx(nw, ew, target, mid + 1, ub, ps, eoff, noff)
          ELSE FindIdx(nw, ew, target, lb, mid, ps, eoff, noff)

(************************* determine_block_division *************************)
RECURSIVE SumTo(_, _)
SumTo(s, k) == IF k = 0 THEN 0 ELSE s[k] + SumTo(s, k - 1)
ScalePrefix(total, scale) ==
  IF scale = <<>> THEN [i \in 1..total |-> i]
  ELSE [i \in 1..total |-> SumTo(scale, i)]
NumBlocks(total, scale) == ScalePrefix(total, scale)[total]

(************************* divideNodesBinarySearch **************************)
(* returns <<nodesLower, nodesUpper, edgesLower, edgesUpper>> *)
DivideNodes(numNodes, numEdges, nw, ew, id, total, ps, scale, eoff, noff) ==
  IF numNodes = 0 THEN <<0, 0, 0, 0>>
  ELSE
  LET weight == numNodes * nw + (numEdges + 1) * ew
      sp     == ScalePrefix(total, scale)
      nb     == sp[total]
      bw     == CeilDiv(weight, nb)
      bl     == IF id # 0 THEN sp[id] ELSE 0
      bu     == sp[id + 1]
      nl     == IF bl = 0 THEN 0
                ELSE FindIdx(nw, ew, bw * bl, 0, numNodes, ps, eoff, noff)
      nu     == FindIdx(nw, ew, bw * bu, nl, numNodes, ps, eoff, noff)
      el     == IF nl # nu
                THEN (IF nl + noff # 0 THEN ps[nl + noff] - eoff ELSE 0)
                ELSE numEdges
      eu     == IF nl # nu THEN ps[nu + noff] - eoff ELSE numEdges
  IN <<nl, nu, el, eu>>

DivideNodesAll(numNodes, numEdges, nw, ew, total, ps, scale, eoff, noff) ==
  [i \in 1..total |-> DivideNodes(numNodes, numEdges, nw, ew, i - 1, total, ps, scale, eoff, noff)]

NodePieces(r) == [k \in 1..Len(r) |-> <<r[k][1], r[k][2]>>]
EdgePieces(r) == [k \in 1..Len(r) |-> <<r[k][3], r[k][4]>>]

(**************************** unit ranges ***********************************)
(* unitRangeCornerCaseHandle: returns <<handled, ranges>> *)
CornerCase(units, bn, en) ==
  LET tn == en - bn IN
  IF bn = en THEN <<TRUE, [i \in 1..units + 1 |-> bn]>>
  ELSE IF units = 1 THEN <<TRUE, <<bn, en>>>>
  ELSE IF units > tn
       THEN <<TRUE, [i \in 1..units + 1 |->
                       IF i <= tn + 1 THEN bn + (i - 1) ELSE en]>>
       ELSE <<FALSE, <<>>>>

(* determineUnitRangesLoopPrefixSum *)
RECURSIVE UnitLoop(_, _, _, _, _, _, _, _, _)
UnitLoop(i, units, acc, nn, ne, alpha, ps, eoff, bn) ==
  IF i = units THEN acc
  ELSE LET s == DivideNodes(nn, ne, alpha, 1, i, units, ps, <<>>, eoff, bn)
           nxt == IF s[1] # s[2] THEN s[2] + bn ELSE acc[Len(acc)]
       IN UnitLoop(i + 1, units, Append(acc, nxt), nn, ne, alpha, ps, eoff, bn)

UnitRangesPrefixSum(units, ps, bn, en, alpha) ==
  LET cc == CornerCase(units, bn, en) IN
  IF cc[1] THEN cc[2]
  ELSE LET nn == en - bn
           eo == IF bn # 0 THEN ps[bn] ELSE 0
           ne == ps[en] - eo
       IN UnitLoop(0, units, <<bn>>, nn, ne, alpha, ps, eo, bn)

(* determineUnitRangesFromPrefixSum(units, ps, alpha): no corner-case handler *)
UnitRangesPrefixSumWhole(units, ps, alpha) ==
  LET nn == Len(ps) IN
  IF nn = 0 THEN [i \in 1..units + 1 |-> 0]
  ELSE UnitLoop(0, units, <<0>>, nn, ps[nn], alpha, ps, 0, 0)

(*************************** SpecificRange **********************************)
(* tb = thread_beginnings (1-based, Len = threads+1); global range [gb, ge) *)
SpecificPair(tb, threads, tid, gb, ge) ==
  LET lb == tb[tid + 1]
      le == tb[tid + 2]
  IN IF tb[threads + 1] = ge /\ gb = 0 THEN <<lb, le>>
     ELSE LET left  == IF lb < gb THEN gb ELSE lb
              right == IF le > ge THEN ge ELSE le
          IN IF left >= right THEN <<ge, ge>> ELSE <<left, right>>

SpecificPieces(tb, threads, gb, ge) ==
  [t \in 1..threads |-> SpecificPair(tb, threads, t - 1, gb, ge)]

(*************************** divideByEdge ***********************************)
DivideByEdge(numNodes, numEdges, id, total, ps) ==
  LET block == CeilDiv(numEdges, total)
      aa == Min(block * id, numEdges)
      ea == Min(block * (id + 1), numEdges)
      bb == FindIdx(0, 1, aa, 0, numNodes, ps, 0, 0)
      eb == FindIdx(0, 1, ea, bb, numNodes, ps, 0, 0)
  IN <<bb, eb, aa, ea>>

(************************ helpers for enumeration ***************************)
RECURSIVE PrefixOf(_, _)
PrefixOf(deg, k) == IF k = 0 THEN 0 ELSE deg[k] + PrefixOf(deg, k - 1)
PrefixSum(deg) == [k \in 1..Len(deg) |-> PrefixOf(deg, k)]
=============================================================================
