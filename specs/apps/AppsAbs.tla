---------------------------------- MODULE AppsAbs ----------------------------------
(***************************************************************************)
(* What the Lonestar analytics applications must compute (C20), as plain   *)
(* mathematical definitions over a small graph: n nodes 0..n-1 and a       *)
(* sequence E of directed edges <<src, dst, weight>> (symmetric inputs     *)
(* contain both directions).  Unreachable = -1.                            *)
(***************************************************************************)
EXTENDS Integers, Sequences, FiniteSets, TLC
\* (TLCEval forces TLC to evaluate a function value once instead of re-evaluating its definition at every application)
Nodes(n) == 0..(n - 1)
Min2(a, b) == IF a < b THEN a ELSE b
MinSet(S) == CHOOSE x \in S : \A y \in S : x <= y
MaxSet(S) == CHOOSE x \in S : \A y \in S : x >= y
\* ---- shortest paths (Bellman-Ford, n rounds); unit = TRUE counts hops (BFS)
Better(a, b) == IF a = -1 THEN b ELSE IF b = -1 THEN a ELSE Min2(a, b)
Relax(n, E, unit, D) == [v \in Nodes(n) |->
   LET cands == {IF D[E[i][1]] = -1 THEN -1 ELSE D[E[i][1]] + (IF unit THEN 1 ELSE E[i][3]) : i \in {j \in 1..Len(E) : E[j][2] = v}} \ {-1}
   IN IF cands = {} THEN D[v] ELSE Better(D[v], MinSet(cands))]
RECURSIVE Iter(_, _, _, _, _)
Iter(n, E, unit, D, k) == IF k = 0 THEN D ELSE Iter(n, E, unit, TLCEval(Relax(n, E, unit, D)), k - 1)
Dist(n, E, unit, src) == Iter(n, E, unit, [v \in Nodes(n) |-> IF v = src THEN 0 ELSE -1], n)
\* the same distances with the incoming edges of every node indexed once (inE) and iteration up to the fixpoint: for graphs
\* with a thousand nodes
InIndex(n, E) == TLCEval([v \in Nodes(n) |-> {j \in 1..Len(E) : E[j][2] = v}])
RelaxI(n, E, inE, unit, D) == [v \in Nodes(n) |->
   LET cands == {IF D[E[i][1]] = -1 THEN -1 ELSE D[E[i][1]] + (IF unit THEN 1 ELSE E[i][3]) : i \in inE[v]} \ {-1}
   IN IF cands = {} THEN D[v] ELSE Better(D[v], MinSet(cands))]
RECURSIVE IterI(_, _, _, _, _, _)
IterI(n, E, inE, unit, D, k) == LET D2 == TLCEval(RelaxI(n, E, inE, unit, D)) IN IF k = 0 \/ D2 = D THEN D ELSE IterI(n, E, inE, unit, D2, k - 1)
DistI(n, E, inE, unit, src) == IterI(n, E, inE, unit, TLCEval([v \in Nodes(n) |-> IF v = src THEN 0 ELSE -1]), n)
\* ---- PageRank as the applications define it (not normalised): PR(v) = (1 - a) + a * SUM over edges u -> v of PR(u) / outdeg(u),
\* a = 0.85, in fixed point with six decimals (TLC has integers only); iterated until no rank moves by more than 10^-5
PRScale == 1000000
OutDeg(E, u) == Cardinality({j \in 1..Len(E) : E[j][1] = u})
RECURSIVE SumContrib(_, _, _, _)
SumContrib(E, deg, P, I) == IF I = {} THEN 0 ELSE LET i == CHOOSE x \in I : TRUE IN (85 * P[E[i][1]]) \div (100 * deg[E[i][1]]) + SumContrib(E, deg, P, I \ {i})
PRStep(n, E, inE, deg, base, P) == [v \in Nodes(n) |-> base + SumContrib(E, deg, P, inE[v])]
Abs(x) == IF x < 0 THEN -x ELSE x
RECURSIVE PRIter(_, _, _, _, _, _, _)
PRIter(n, E, inE, deg, base, P, k) == LET P2 == TLCEval(PRStep(n, E, inE, deg, base, P)) IN
   IF k = 0 \/ \A v \in Nodes(n) : Abs(P2[v] - P[v]) <= 10 THEN P2 ELSE PRIter(n, E, inE, deg, base, P2, k - 1)
\* normalised = TRUE: the "topological" variants use the base score (1 - a) / n (ranks sum to at most 1)
PageRank(n, E, inE, normalised) == LET base == IF normalised THEN 150000 \div n ELSE 150000 IN
   PRIter(n, E, inE, TLCEval([u \in Nodes(n) |-> OutDeg(E, u)]), base, TLCEval([v \in Nodes(n) |-> base]), 300)
\* ---- connected components of a symmetric graph: label = smallest reachable node
Label(n, E) == TLCEval([v \in Nodes(n) |-> LET D == TLCEval(Dist(n, E, TRUE, v)) IN MinSet({u \in Nodes(n) : D[u] # -1})])
Components(n, E) == LET L == Label(n, E) IN {{v \in Nodes(n) : L[v] = c} : c \in {L[v] : v \in Nodes(n)}}
\* ---- minimum spanning forest weight (Kruskal over the undirected edges)
RECURSIVE Kruskal(_, _, _, _)
Kruskal(rem, comp, weight, count) ==
  IF rem = {} THEN <<weight, count>>
  ELSE LET e == CHOOSE x \in rem : \A y \in rem : x[1] < y[1] \/ (x[1] = y[1] /\ x[4] <= y[4]) IN
       IF comp[e[2]] = comp[e[3]] THEN Kruskal(rem \ {e}, comp, weight, count)
       ELSE Kruskal(rem \ {e}, TLCEval([v \in DOMAIN comp |-> IF comp[v] = comp[e[3]] THEN comp[e[2]] ELSE comp[v]]), weight + e[1], count + 1)
MSF(n, E) == Kruskal({<<E[i][3], E[i][1], E[i][2], i>> : i \in 1..Len(E)}, [v \in Nodes(n) |-> v], 0, 0)
\* ---- simple symmetric graphs
Adj(n, E, u) == {E[i][2] : i \in {j \in 1..Len(E) : E[j][1] = u}} \ {u}
Triangles(n, E) == Cardinality({t \in Nodes(n) \X Nodes(n) \X Nodes(n) :
                        t[1] < t[2] /\ t[2] < t[3] /\ t[2] \in Adj(n, E, t[1]) /\ t[3] \in Adj(n, E, t[2]) /\ t[3] \in Adj(n, E, t[1])})
RECURSIVE Peel(_, _, _, _)
Peel(n, E, k, S) == LET bad == {v \in S : Cardinality(Adj(n, E, v) \cap S) < k} IN IF bad = {} THEN S ELSE Peel(n, E, k, S \ bad)
KCore(n, E, k) == Cardinality(Peel(n, E, k, Nodes(n)))
Independent(n, E, S) == \A u \in S : Adj(n, E, u) \cap S = {}
MaximalIndependent(n, E, S) == Independent(n, E, S) /\ \A v \in Nodes(n) \ S : Adj(n, E, v) \cap S # {}
\* the application reports only the cardinality: some maximal independent set must have it
IndSetCardOK(n, E, c) == \E S \in SUBSET Nodes(n) : Cardinality(S) = c /\ MaximalIndependent(n, E, S)
\* ---- maximum flow = minimum cut
RECURSIVE SumCap(_, _)
SumCap(E, I) == IF I = {} THEN 0 ELSE LET i == CHOOSE x \in I : TRUE IN E[i][3] + SumCap(E, I \ {i})
Cut(n, E, S) == SumCap(E, {i \in 1..Len(E) : E[i][1] \in S /\ E[i][2] \notin S})
MaxFlow(n, E, s, t) == MinSet({Cut(n, E, S \cup {s}) : S \in SUBSET (Nodes(n) \ {s, t})})
\* ---- maximum bipartite matching = minimum vertex cover (Koenig)
Covers(E, C) == \A i \in 1..Len(E) : E[i][1] \in C \/ E[i][2] \in C
MaxMatching(n, E) == MinSet({Cardinality(C) : C \in {X \in SUBSET Nodes(n) : Covers(E, X)}})
=============================================================================
