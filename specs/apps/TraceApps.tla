---------------------------------- MODULE TraceApps ----------------------------------
(* One "graph" record, then the results the applications printed for it (driver: tools/checks/c20.py). *)
EXTENDS AppsAbs, Json, IOUtils, TLC
Tr == ndJsonDeserialize(IOEnv.TRACE)
VARIABLES l, n, E, inE, ckey, cD     \* inE: incoming-edge index of the current graph; (ckey, cD): the last distance vector computed
IsDist(r) == r.failed = 0 /\ (r.k \in {"bfs", "sssp"} \/ (r.k = "dist" /\ r.kind \in {"bfs", "sssp"}))
KeyOf(r) == <<IF r.k = "dist" THEN r.kind ELSE r.k, r.src>>
\* D: the distance vector for KeyOf(r) (from the cache or freshly computed by Next)
ResOK(r, D) ==
  IF r.failed = 1 THEN FALSE
  ELSE CASE r.k \in {"bfs", "sssp"} ->
              LET reached == {v \in Nodes(n) : D[v] # -1} IN
              /\ D[r.node] = r.dist
              /\ r.unvisited = n - Cardinality(reached)
              /\ r.maxdist = MaxSet({D[v] : v \in reached})
         [] r.k = "cc" -> LET C == Components(n, E) IN
              /\ r.total = Cardinality(C)
              /\ r.nontrivial = Cardinality({c \in C : Cardinality(c) > 1})
              /\ r.nontrivial > 0 => r.largest = MaxSet({Cardinality(c) : c \in C})
         [] r.k = "mst" -> LET m == MSF(n, E) IN r.weight = m[1] /\ r.edges = m[2] /\ r.trees = n - m[2]
         [] r.k = "tri" -> r.count = Triangles(n, E)
         [] r.k = "kcore" -> r.count = KCore(n, E, r.kk)
         [] r.k = "indset" -> IndSetCardOK(n, E, r.card)
         [] r.k = "flow" -> r.flow = MaxFlow(n, E, r.src, r.sink)
         [] r.k = "mcm" -> r.card = MaxMatching(n, E)
         \* PageRank: every node's printed rank (x 10^6) within 0.07 + 2% of the fixed-point iteration: the residual variants stop
         \* when every node's residual is below 10^-3, which leaves at most n * 10^-3 / (1 - a) = 0.06 (n <= 9) of rank undistributed
         [] r.k = "pr" -> LET P == PageRank(n, E, inE, r.norm = 1) IN Len(r.vals) = n /\ \A v \in Nodes(n) : Abs(r.vals[v + 1] - P[v]) <= 70000 + P[v] \div 50
         \* distributed applications: the complete per-node output of all hosts, in global id order
         [] r.k = "dist" ->
              /\ Len(r.vals) = n
              /\ CASE r.kind \in {"bfs", "sssp"} -> \A v \in Nodes(n) : r.vals[v + 1] = D[v]
                   [] r.kind = "cc" -> LET L == Label(n, E) IN \A u, v \in Nodes(n) : (r.vals[u + 1] = r.vals[v + 1]) = (L[u] = L[v])
                   [] r.kind = "kcore" -> {v \in Nodes(n) : r.vals[v + 1] = 1} = Peel(n, E, r.kk, Nodes(n))
                   [] OTHER -> FALSE
         [] OTHER -> FALSE
Init == l = 1 /\ n = 0 /\ E = <<>> /\ inE = <<>> /\ ckey = <<>> /\ cD = <<>>
Next == /\ l <= Len(Tr) /\ l' = l + 1
        /\ IF Tr[l].k = "graph" THEN /\ n' = Tr[l].n /\ E' = Tr[l].edges /\ inE' = InIndex(Tr[l].n, Tr[l].edges) /\ ckey' = <<>> /\ cD' = <<>>
           ELSE /\ UNCHANGED <<n, E, inE>>
                /\ IF IsDist(Tr[l]) /\ KeyOf(Tr[l]) # ckey
                   THEN /\ ckey' = KeyOf(Tr[l]) /\ cD' = DistI(n, E, inE, KeyOf(Tr[l])[1] = "bfs", Tr[l].src)
                   ELSE UNCHANGED <<ckey, cD>>
                /\ IF ResOK(Tr[l], cD') THEN TRUE ELSE PrintT(<<"REJECT", l, Tr[l].k>>)
Spec == Init /\ [][Next]_<<l, n, E, inE, ckey, cD>>
Consumed == TLCGet("stats").diameter = Len(Tr) + 1
=============================================================================
