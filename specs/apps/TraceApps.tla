---------------------------------- MODULE TraceApps ----------------------------------
(* One "graph" record, then the results the applications printed for it (driver: tools/checks/c20.py). *)
EXTENDS AppsAbs, Json, IOUtils, TLC
Tr == ndJsonDeserialize(IOEnv.TRACE)
VARIABLES l, n, E
ResOK(r) ==
  IF r.failed = 1 THEN FALSE
  ELSE CASE r.k \in {"bfs", "sssp"} ->
              LET D == TLCEval(Dist(n, E, r.k = "bfs", r.src))
                  reached == {v \in Nodes(n) : D[v] # -1} IN
              /\ D[r.node] = r.dist
              /\ r.unvisited = n - Cardinality(reached)
              /\ r.maxdist = MaxSet({D[v] : v \in reached})
         [] r.k = "cc" -> LET C == Components(n, E) IN
              /\ r.total = Cardinality(C)
              /\ r.nontrivial = Cardinality({c \in C : Cardinality(c) > 1})
              /\ r.nontrivial > 0 => r.largest = MaxSet({Cardinality(c) : c \in C})
         [] r.k = "mst" -> LET m == MSF(n, E) IN r.weight = m[1] /\ r.edges = m[2] /\ r.trees = n - m[2]
         [] r.k = "tri" -> r.count = Triangles(n, E)
         [] r.k = "kcore" -> r.count = KCore(n, E, r.kk)
         [] r.k = "indset" -> IndSetCardOK(n, E, r.card)
         [] r.k = "flow" -> r.flow = MaxFlow(n, E, r.src, r.sink)
         [] r.k = "mcm" -> r.card = MaxMatching(n, E)
         \* distributed applications: the complete per-node output of all hosts, in global id order
         [] r.k = "dist" ->
              /\ Len(r.vals) = n
              /\ CASE r.kind \in {"bfs", "sssp"} -> LET D == TLCEval(Dist(n, E, r.kind = "bfs", r.src)) IN \A v \in Nodes(n) : r.vals[v + 1] = D[v]
                   [] r.kind = "cc" -> LET L == Label(n, E) IN \A u, v \in Nodes(n) : (r.vals[u + 1] = r.vals[v + 1]) = (L[u] = L[v])
                   [] r.kind = "kcore" -> {v \in Nodes(n) : r.vals[v + 1] = 1} = Peel(n, E, r.kk, Nodes(n))
                   [] OTHER -> FALSE
         [] OTHER -> FALSE
Init == l = 1 /\ n = 0 /\ E = <<>>
Next == /\ l <= Len(Tr) /\ l' = l + 1
        /\ IF Tr[l].k = "graph" THEN n' = Tr[l].n /\ E' = Tr[l].edges
           ELSE /\ UNCHANGED <<n, E>> /\ IF ResOK(Tr[l]) THEN TRUE ELSE PrintT(<<"REJECT", l, Tr[l].k>>)
Spec == Init /\ [][Next]_<<l, n, E>>
Consumed == TLCGet("stats").diameter = Len(Tr) + 1
=============================================================================
