--------------------------- MODULE ContainersAbs ---------------------------
(***************************************************************************)
(* Property-level (abstract) specification of Galois' sequential           *)
(* containers (C14): each container is the standard abstract data type it  *)
(* stands for.                                                             *)
(*   seq   gdeque, FixedSizeRing (bounded), gslist      ~ std::deque/list  *)
(*   vec   PODResizeableArray                           ~ std::vector      *)
(*   bag   FixedSizeBag, ConcurrentFixedSizeBag (1 thr) ~ bounded multiset *)
(*   ibag  InsertBag (push/pop/iterate)                 ~ multiset         *)
(*   heap  MinHeap, ThreadSafeMinHeap                   ~ priority queue   *)
(*   oset  ThreadSafeOrderedSet                         ~ std::set         *)
(*   map   flat_map                                     ~ std::map         *)
(*   lazy  LazyArray / LazyObject / optional            ~ optional slots   *)
(* Apply(meta, st, op, a, b) is the SET of allowed <<result, next state>>  *)
(* pairs (a set because a bag may hand out any element).  Element          *)
(* life-cycle: the number of live element instances equals the number of   *)
(* stored elements and no instance is constructed or destroyed twice.      *)
(***************************************************************************)
EXTENDS Integers, Sequences, FiniteSets

Rev(s) == [i \in 1..Len(s) |-> s[Len(s) + 1 - i]]
InsAt(s, p, v) == SubSeq(s, 1, p) \o <<v>> \o SubSeq(s, p + 1, Len(s))   \* before 0-based position p
RemAt(s, i) == SubSeq(s, 1, i - 1) \o SubSeq(s, i + 1, Len(s))            \* 1-based index i
Flag(x) == IF x THEN 1 ELSE 0
Occurs(s, v) == \E i \in 1..Len(s) : s[i] = v
CountOf(s, v) == Cardinality({i \in 1..Len(s) : s[i] = v})
\* sorted multiset as a non-decreasing sequence
SortedIns(s, v) ==
  LET p == Cardinality({i \in 1..Len(s) : s[i] <= v}) IN InsAt(s, p, v)
FirstIdx(s, v) == CHOOSE i \in 1..Len(s) : s[i] = v /\ \A j \in 1..(i-1) : s[j] # v

Full(meta, s) == meta.cap > 0 /\ Len(s) = meta.cap

SizeRes(meta, s, n) ==
  IF n = 1 THEN <<Flag(s = <<>>)>>
  ELSE IF n = 2 THEN <<Len(s), Flag(s = <<>>)>>
  ELSE <<Len(s), Flag(s = <<>>), Flag(Full(meta, s))>>

(******************************* seq / vec ********************************)
ApplySeq(meta, s, op, a, b, nres) ==
  CASE op = "pushb" -> IF Full(meta, s) THEN {<< <<0>>, s >>} ELSE {<< <<1>>, Append(s, a) >>}
    [] op = "pushf" -> IF Full(meta, s) THEN {<< <<0>>, s >>} ELSE {<< <<1>>, <<a>> \o s >>}
    [] op = "emplace" -> IF Full(meta, s) THEN {<< <<0>>, s >>}
                         ELSE IF b <= Len(s) THEN {<< <<a>>, InsAt(s, b, a) >>} ELSE {}
    \* emplace whose returned iterator is then walked forwards to the end and from there backwards to the beginning
    [] op = "emplacew" -> IF b <= Len(s) THEN LET t == InsAt(s, b, a) IN {<< <<a>> \o SubSeq(t, b + 1, Len(t)) \o Rev(t), t >>} ELSE {}
    [] op = "popb" -> IF s = <<>> THEN {<< <<0>>, s >>} ELSE {<< <<1>>, SubSeq(s, 1, Len(s) - 1) >>}
    [] op = "popf" -> IF s = <<>> THEN {<< <<0>>, s >>} ELSE {<< <<1>>, Tail(s) >>}
    [] op = "front" -> IF s = <<>> THEN {} ELSE {<< <<s[1]>>, s >>}
    [] op = "back" -> IF s = <<>> THEN {} ELSE {<< <<s[Len(s)]>>, s >>}
    [] op = "getat" -> IF b < Len(s) THEN {<< <<s[b + 1]>>, s >>} ELSE {}
    [] op = "extractf" -> IF s = <<>> THEN {<< <<>>, s >>} ELSE {<< <<s[1]>>, Tail(s) >>}
    [] op = "extractb" -> IF s = <<>> THEN {<< <<>>, s >>} ELSE {<< <<s[Len(s)]>>, SubSeq(s, 1, Len(s) - 1) >>}
    [] op = "clear" -> {<< <<>>, <<>> >>}
    [] op = "size" -> {<< SizeRes(meta, s, nres), s >>}
    [] op = "empty" -> {<< <<Flag(s = <<>>)>>, s >>}
    [] op = "move" -> {<< <<>>, s >>}
    \* vector-only operations
    [] op = "set" -> IF b < Len(s) THEN {<< <<>>, [s EXCEPT ![b + 1] = a] >>} ELSE {}
    [] op = "shrinkto" -> IF b <= Len(s) THEN {<< <<>>, SubSeq(s, 1, b) >>} ELSE {}
    [] op = "reserve" -> {<< <<>>, s >>}
    [] op = "at" -> IF b < Len(s) THEN {<< <<s[b + 1]>>, s >>} ELSE {<< <<>>, s >>}
    [] op = "append2" -> {<< <<>>, s \o <<a, a + 100>> >>}
    [] op = "assignself" -> {<< <<>>, s >>}
    [] OTHER -> {}

(***************************** bag / ibag *********************************)
ApplyBag(meta, s, op, a, b, nres) ==
  CASE op = "push" -> IF meta.adt = "ibag" THEN {<< <<a>>, SortedIns(s, a) >>}
                      ELSE IF Full(meta, s) THEN {<< <<0>>, s >>} ELSE {<< <<1>>, SortedIns(s, a) >>}
    [] op = "pop" -> IF meta.adt = "ibag"
                     THEN {<< <<>>, s >>} \cup {<< <<1>>, RemAt(s, i) >> : i \in 1..Len(s)}
                     ELSE IF s = <<>> THEN {<< <<0>>, s >>}
                          ELSE {<< <<1>>, RemAt(s, i) >> : i \in 1..Len(s)}
    [] op = "front" -> {<< <<s[i]>>, s >> : i \in 1..Len(s)}
    [] op = "extract" -> IF s = <<>> THEN {<< <<>>, s >>}
                         ELSE {<< <<s[i]>>, RemAt(s, i) >> : i \in 1..Len(s)}
    [] op = "clear" -> {<< <<>>, <<>> >>}
    [] op = "size" -> {<< SizeRes(meta, s, nres), s >>}
    [] op = "empty" -> {<< <<Flag(s = <<>>)>>, s >>}
    [] op = "move" -> {<< <<>>, s >>}
    [] OTHER -> {}

(***************************** heap / oset ********************************)
ApplyHeap(meta, s, op, a, b, nres) ==
  CASE op = "push" -> IF meta.adt = "oset" /\ Occurs(s, a) THEN {<< <<0>>, s >>}
                      ELSE {<< <<1>>, SortedIns(s, a) >>}
    [] op = "find" -> {<< <<Flag(Occurs(s, a))>>, s >>}
    [] op = "pop" -> IF s = <<>> THEN {} ELSE {<< <<s[1]>>, Tail(s) >>}
    [] op = "top" -> IF s = <<>> THEN {} ELSE {<< <<s[1]>>, s >>}
    [] op = "remove" -> IF CountOf(s, a) > 1 THEN {<< <<-1>>, s >>}
                        ELSE IF Occurs(s, a) THEN {<< <<1>>, RemAt(s, FirstIdx(s, a)) >>}
                        ELSE {<< <<0>>, s >>}
    [] op = "clear" -> {<< <<>>, <<>> >>}
    [] op = "size" -> {<< SizeRes(meta, s, nres), s >>}
    [] op = "fromrange" -> {<< <<>>, s >>}
    [] OTHER -> {}

(********************************* map ************************************)
\* state: sequence of <<key, value>> with strictly increasing keys
HasKey(m, k) == \E i \in 1..Len(m) : m[i][1] = k
IdxOf(m, k) == CHOOSE i \in 1..Len(m) : m[i][1] = k
MapIns(m, k, v) == LET p == Cardinality({i \in 1..Len(m) : m[i][1] < k}) IN InsAt(m, p, <<k, v>>)
MapSet(m, k, v) == IF HasKey(m, k) THEN [m EXCEPT ![IdxOf(m, k)] = <<k, v>>] ELSE MapIns(m, k, v)
RECURSIVE InsRange(_, _, _, _)
InsRange(m, k, n, v) == IF k > n THEN m ELSE InsRange(IF HasKey(m, k) THEN m ELSE MapIns(m, k, v), k + 1, n, v)
ApplyMap(meta, m, op, a, b, nres) ==
  CASE op = "insert" -> IF HasKey(m, a) THEN {<< <<0, a, m[IdxOf(m, a)][2]>>, m >>}
                        ELSE {<< <<1, a, b>>, MapIns(m, a, b) >>}
    [] op = "erase" -> IF HasKey(m, a) THEN {<< <<1>>, RemAt(m, IdxOf(m, a)) >>} ELSE {<< <<0>>, m >>}
    [] op = "find" -> IF HasKey(m, a) THEN {<< <<m[IdxOf(m, a)][2]>>, m >>} ELSE {<< <<>>, m >>}
    [] op = "index" -> IF HasKey(m, a) THEN {<< <<m[IdxOf(m, a)][2]>>, m >>} ELSE {<< <<0>>, MapIns(m, a, 0) >>}
    [] op = "setidx" -> {<< <<>>, MapSet(m, a, b) >>}
    [] op = "at" -> IF HasKey(m, a) THEN {<< <<m[IdxOf(m, a)][2]>>, m >>} ELSE {<< <<>>, m >>}
    [] op = "lower" -> LET ge == {i \in 1..Len(m) : m[i][1] >= a} IN
                       IF ge = {} THEN {<< <<>>, m >>}
                       ELSE {<< <<m[CHOOSE i \in ge : \A j \in ge : i <= j][1]>>, m >>}
    [] op = "erasepos" -> IF b < Len(m) THEN {<< <<>>, RemAt(m, b + 1) >>} ELSE {}
    \* range insertion of the keys 1..a with value b: keys already present keep their value
    [] op = "insrange" -> {<< <<>>, InsRange(m, 1, a, b) >>}
    [] op = "clear" -> {<< <<>>, <<>> >>}
    [] op = "size" -> {<< SizeRes(meta, m, nres), m >>}
    [] op = "copy" -> {<< <<>>, m >>}
    [] op = "move" -> {<< <<>>, m >>}
    [] OTHER -> {}

(********************************* lazy ***********************************)
\* state: 5 slots (3 LazyArray cells, LazyObject, optional); 0 = not constructed
ApplyLazy(meta, s, op, a, b, nres) ==
  CASE op \in {"construct", "emplace"} -> IF s[b + 1] = 0 THEN {<< <<>>, [s EXCEPT ![b + 1] = a] >>} ELSE {}
    [] op = "destroy" -> IF s[b + 1] # 0 THEN {<< <<>>, [s EXCEPT ![b + 1] = 0] >>} ELSE {}
    [] op = "get" -> IF s[b + 1] # 0 THEN {<< <<s[b + 1]>>, s >>} ELSE {}
    [] op = "oconstruct" -> IF s[4] = 0 THEN {<< <<>>, [s EXCEPT ![4] = a] >>} ELSE {}
    [] op = "odestroy" -> IF s[4] # 0 THEN {<< <<>>, [s EXCEPT ![4] = 0] >>} ELSE {}
    [] op = "oget" -> IF s[4] # 0 THEN {<< <<s[4]>>, s >>} ELSE {}
    [] op = "optset" -> {<< <<>>, [s EXCEPT ![5] = a] >>}
    [] op = "optreset" -> {<< <<>>, [s EXCEPT ![5] = 0] >>}
    [] op \in {"optget", "optcopy"} -> IF s[5] = 0 THEN {<< <<>>, s >>} ELSE {<< <<s[5]>>, s >>}
    [] OTHER -> {}

Apply(meta, st, op, a, b, nres) ==
  CASE meta.adt \in {"seq", "vec"} -> ApplySeq(meta, st, op, a, b, nres)
    [] meta.adt \in {"bag", "ibag"} -> ApplyBag(meta, st, op, a, b, nres)
    [] meta.adt \in {"heap", "oset"} -> ApplyHeap(meta, st, op, a, b, nres)
    [] meta.adt = "map" -> ApplyMap(meta, st, op, a, b, nres)
    [] meta.adt = "lazy" -> ApplyLazy(meta, st, op, a, b, nres)
    [] OTHER -> {}

EmptyState(adt) == IF adt = "lazy" THEN <<0, 0, 0, 0, 0>> ELSE <<>>

\* number of live element instances the abstract state accounts for
LiveOf(meta, st) ==
  CASE meta.adt \in {"seq", "bag", "ibag"} -> Len(st)
    [] meta.adt = "lazy" -> Cardinality({i \in 1..5 : st[i] # 0})
    [] OTHER -> 0   \* plain int elements are not instrumented

(*************************** design-level sanity **************************)
\* Used by MCContainers: sorted-multiset and map states stay ordered.
IsSorted(s) == \A i \in 1..(Len(s) - 1) : s[i] <= s[i + 1]
KeysStrict(m) == \A i \in 1..(Len(m) - 1) : m[i][1] < m[i + 1][1]
=============================================================================
