CONSTANTS
  Vals = {1, 2, 3}
  MaxLen = 4
  Cap = 4
INIT Init
NEXT Next
INVARIANT Inv
CONSTRAINT Bounded
CHECK_DEADLOCK FALSE
