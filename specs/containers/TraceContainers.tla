-------------------------- MODULE TraceContainers --------------------------
(* Trace validation for C14.  The "trace" is a TREE of histories of the real *)
(* containers (prefix-shared; record id = line number; "kids" = children).   *)
(* TLC walks the tree carrying the abstract state of ContainersAbs; every    *)
(* edge is one real operation whose result, resulting contents (forward and  *)
(* backward traversal) and element life-cycle counters must be allowed by    *)
(* the abstract data type.                                                   *)
EXTENDS ContainersAbs, Json, IOUtils, TLC

Tr == ndJsonDeserialize(IOEnv.TRACE)

VARIABLES n, st, meta, dead
vars == <<n, st, meta, dead>>

NoMeta == [adt |-> "none", cap |-> 0, bidir |-> FALSE]

Has(r, f) == f \in DOMAIN r

ObsOK(m, s, r) ==
  CASE m.adt \in {"seq", "vec"} ->
         /\ r.fwd = s
         /\ (m.bidir => r.bwd = Rev(s))
    [] m.adt = "bag" -> r.items = s
    [] m.adt = "ibag" -> r.items = s /\ Len(r.fwd) = Len(s)
    [] m.adt \in {"heap", "oset"} -> r.items = s
    [] m.adt = "map" ->
         /\ r.keys = [i \in 1..Len(s) |-> s[i][1]]
         /\ r.vals = [i \in 1..Len(s) |-> s[i][2]]
         /\ r.rkeys = Rev([i \in 1..Len(s) |-> s[i][1]])
    [] m.adt = "lazy" -> r.slots = s
    [] OTHER -> FALSE

RECURSIVE Sum(_, _)
Sum(s, k) == IF k = 0 THEN 0 ELSE s[k] + Sum(s, k - 1)

OneShotOK(r) ==
  CASE r.op = "twolevel" ->
         LET t == Sum(r.shape, Len(r.shape))
             flat == [i \in 1..t |-> i]
         IN /\ r.fwd = flat /\ r.bwd = Rev(flat) /\ r.fwd2 = flat /\ r.bwd2 = Rev(flat)
            /\ r.res = <<t, IF t > 0 THEN flat[(t \div 2) + 1] ELSE 0>>
            \* random-access jumps from position i to position j (row-major over 0..t): land on element j (0 = the end), distance j - i
            /\ r.jv = [x \in 1..((t + 1) * (t + 1)) |-> LET j == (x - 1) % (t + 1) IN IF j = t THEN 0 ELSE j + 1]
            /\ r.jd = [x \in 1..((t + 1) * (t + 1)) |-> ((x - 1) % (t + 1)) - ((x - 1) \div (t + 1))]
    [] r.op = "largearray" -> r.res = <<r.b, r.b, 1, 1, 0>>
    [] OTHER -> FALSE

Matches(m, s, r) ==
  {e \in Apply(m, s, r.op, r.a, r.b, Len(r.res)) :
      /\ e[1] = r.res
      /\ ObsOK(m, e[2], r)
      /\ r.bad = 0
      /\ r.live = LiveOf(m, e[2])}

Init == n = 1 /\ st = <<>> /\ meta = NoMeta /\ dead = FALSE

Reject(k, r) == PrintT(<<"REJECT", k, r.op>>)

Step(k) ==
  LET r == Tr[k] IN
  /\ n' = k
  /\ CASE r.op = "reset" ->
            LET m == [adt |-> r.adt, cap |-> r.cap, bidir |-> r.bidir]
                ok == ObsOK(m, EmptyState(r.adt), r) /\ r.bad = 0 /\ r.live = 0
            IN /\ meta' = m /\ st' = EmptyState(r.adt)
               /\ dead' = ~ok
               /\ (ok \/ Reject(k, r))
       [] r.op \in {"twolevel", "largearray"} ->
            /\ UNCHANGED <<st, meta>>
            /\ dead' = TRUE
            /\ (OneShotOK(r) \/ Reject(k, r))
       [] r.op = "CRASH" ->
            /\ UNCHANGED <<st, meta>> /\ dead' = TRUE /\ Reject(k, r)
       [] OTHER ->
            LET ms == Matches(meta, st, r) IN
            IF ms = {} THEN /\ UNCHANGED <<st, meta>> /\ dead' = TRUE /\ Reject(k, r)
            ELSE /\ st' = (CHOOSE e \in ms : TRUE)[2] /\ UNCHANGED meta /\ dead' = FALSE

Next == ~dead /\ \E i \in 1..Len(Tr[n].kids) : Step(Tr[n].kids[i])

Spec == Init /\ [][Next]_vars
=============================================================================
