---------------------------- MODULE MCContainers ----------------------------
(* Design-level exploration of ContainersAbs: all operation sequences over a   *)
(* small value domain; checks the representation invariants the trace walker   *)
(* relies on (sorted multisets, strictly increasing map keys, capacity bound)  *)
(* and that Apply is total on the operations the harness issues.               *)
EXTENDS ContainersAbs, TLC

CONSTANTS Vals, MaxLen, Cap

VARIABLES adt, st
Adts == {"seq", "bag", "heap", "oset", "map"}
Ops(a) ==
  CASE a = "seq" -> {"pushb", "pushf", "emplace", "popb", "popf", "extractf", "extractb", "clear"}
    [] a = "bag" -> {"push", "pop", "extract", "clear"}
    [] a \in {"heap", "oset"} -> {"push", "pop", "remove", "clear"}
    [] a = "map" -> {"insert", "erase", "index", "setidx", "erasepos", "clear"}

Meta(a) == [adt |-> a, cap |-> IF a \in {"seq", "bag"} THEN Cap ELSE 0, bidir |-> TRUE]

Init == adt \in Adts /\ st = <<>>
Next ==
  /\ UNCHANGED adt
  /\ \E op \in Ops(adt), a \in Vals, b \in 0..MaxLen :
       \E e \in Apply(Meta(adt), st, op, a, b, 2) : st' = e[2]

Bounded == Len(st) <= MaxLen
Inv ==
  /\ adt \in {"bag", "heap", "oset"} => IsSorted(st)
  /\ adt = "oset" => \A i \in 1..(Len(st) - 1) : st[i] < st[i + 1]
  /\ adt = "map" => KeysStrict(st)
  /\ adt \in {"seq", "bag"} => Len(st) <= Cap
=============================================================================
