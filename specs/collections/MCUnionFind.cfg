SPECIFICATION Spec
CONSTANTS N = 3 Ops <- OpsA NoOrder = FALSE PlainStore = FALSE defaultInitValue = 0
INVARIANTS Mono AtEnd NoSpurious
PROPERTY Done
CHECK_DEADLOCK FALSE
