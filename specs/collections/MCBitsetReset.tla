---------------------------- MODULE MCBitsetReset ----------------------------
(* Design level: the word/mask arithmetic of DynamicBitSet::reset(begin,end)    *)
(* clears exactly the bits begin..end, for ALL begin <= end < n and the sizes   *)
(* listed (1 bit, one word minus one, exactly one word, one word plus one, ...) *)
EXTENDS Collections, TLC
CONSTANT Sizes
VARIABLE c
Init == \E n \in Sizes : \E b \in 0..(n - 1) : \E e \in b..(n - 1) : c = <<n, b, e>>
Next == UNCHANGED c
ClearsExactlyRange ==
  LET n == c[1] b == c[2] e == c[3] all == 0..(n - 1)
  IN ResetRangeImpl(all, n, b, e) = ResetRangeAbs(all, b, e)
=============================================================================
