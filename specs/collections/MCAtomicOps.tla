----------------------------- MODULE MCAtomicOps -----------------------------
(***************************************************************************)
(* Implementation-level model of the CAS loops of AtomicHelpers.h          *)
(* (atomicMax/atomicMin/atomicAdd) and DynamicBitSet::set: one action per  *)
(* shared access (relaxed load, compare_exchange_weak incl. spurious       *)
(* failure).  All interleavings of N threads with one operation each over  *)
(* all argument choices; at quiescence the cell holds the sequential fold  *)
(* and the returned old values are consistent (NoLostUpdate).              *)
(***************************************************************************)
EXTENDS Integers, FiniteSets, Sequences, FiniteSetsExt
CONSTANTS N, Vals, Init0
VARIABLES kind, arg, cell, pc, old, ret
vars == <<kind, arg, cell, pc, old, ret>>
T == 1..N
Kinds == {"max", "min", "add", "setbit"}

Cond(k, o, v) == CASE k = "max" -> o < v [] k = "min" -> o > v [] k = "add" -> TRUE
                   [] k = "setbit" -> (o \div v) % 2 = 0           \* v is a power of two
New(k, o, v) == CASE k = "max" -> v [] k = "min" -> v [] k = "add" -> o + v [] k = "setbit" -> o + v

Init == /\ kind \in Kinds
        /\ arg \in [T -> Vals]
        /\ (kind = "setbit" => \A t \in T : arg[t] \in {1, 2, 4})
        /\ cell = (IF kind = "setbit" THEN 0 ELSE Init0)
        /\ pc = [t \in T |-> "load"] /\ old = [t \in T |-> 0] /\ ret = [t \in T |-> 0]

Load(t) == /\ pc[t] = "load"
           /\ old' = [old EXCEPT ![t] = cell]
           /\ pc' = [pc EXCEPT ![t] = "test"]
           /\ UNCHANGED <<kind, arg, cell, ret>>
Test(t) == /\ pc[t] = "test"
           /\ IF Cond(kind, old[t], arg[t]) THEN pc' = [pc EXCEPT ![t] = "cas"] /\ ret' = ret
              ELSE pc' = [pc EXCEPT ![t] = "done"] /\ ret' = [ret EXCEPT ![t] = old[t]]
           /\ UNCHANGED <<kind, arg, cell, old>>
CasOK(t) == /\ pc[t] = "cas" /\ cell = old[t]
            /\ cell' = New(kind, old[t], arg[t])
            /\ ret' = [ret EXCEPT ![t] = old[t]]
            /\ pc' = [pc EXCEPT ![t] = "done"]
            /\ UNCHANGED <<kind, arg, old>>
\* failed CAS (value changed, or spurious failure of the weak form): expected := current
CasFail(t) == /\ pc[t] = "cas"
              /\ old' = [old EXCEPT ![t] = cell]
              /\ pc' = [pc EXCEPT ![t] = "test"]
              /\ UNCHANGED <<kind, arg, cell, ret>>
Next == \E t \in T : Load(t) \/ Test(t) \/ CasOK(t) \/ CasFail(t)

AllDone == \A t \in T : pc[t] = "done"
Args == {arg[t] : t \in T}
Expected ==
  CASE kind = "max" -> Max(Args \cup {Init0})
    [] kind = "min" -> Min(Args \cup {Init0})
    [] kind = "add" -> Init0 + SumSet({<<t, arg[t]>> : t \in T}) - SumSet({<<t, 0>> : t \in T})
    [] kind = "setbit" -> SumSet(Args)
SumArgs == LET RECURSIVE S(_) S(k) == IF k = 0 THEN 0 ELSE arg[k] + S(k - 1) IN S(N)
NoLostUpdate ==
  AllDone =>
    /\ kind \in {"max", "min", "setbit"} => cell = Expected
    /\ kind = "add" => cell = Init0 + SumArgs
    \* for setbit exactly one of the threads that set the same bit saw it clear
    /\ kind = "setbit" => \A b \in Args : Cardinality({t \in T : arg[t] = b /\ (ret[t] \div b) % 2 = 0}) = 1
    /\ kind = "add" => {ret[t] + arg[t] : t \in T} \cup {Init0} = {ret[t] : t \in T} \cup {cell}
\* bound the spurious-failure loop for exhaustive search
Spin == TRUE
=============================================================================
