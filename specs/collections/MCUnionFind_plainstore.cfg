SPECIFICATION Spec
CONSTANTS N = 3 Ops <- OpsC NoOrder = FALSE PlainStore = TRUE defaultInitValue = 0
INVARIANTS Mono AtEnd NoSpurious
PROPERTY Done
CHECK_DEADLOCK FALSE
