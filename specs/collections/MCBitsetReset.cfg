CONSTANT Sizes = {1, 2, 63, 64, 65, 127, 128, 130, 192}
INIT Init
NEXT Next
INVARIANT ClearsExactlyRange
CHECK_DEADLOCK FALSE
