SPECIFICATION Spec
CONSTANTS N = 2 Ops <- OpsB NoOrder = FALSE PlainStore = FALSE defaultInitValue = 0
INVARIANTS Mono AtEnd NoSpurious
PROPERTY Done
CHECK_DEADLOCK FALSE
