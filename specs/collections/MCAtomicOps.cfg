CONSTANTS
  N = 3
  Vals = {1, 2, 4}
  Init0 = 2
INIT Init
NEXT Next
INVARIANT NoLostUpdate
CHECK_DEADLOCK FALSE
