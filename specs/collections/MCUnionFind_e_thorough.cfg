SPECIFICATION Spec
CONSTANTS N = 4 Ops <- OpsE NoOrder = FALSE PlainStore = FALSE defaultInitValue = 0
INVARIANTS Mono AtEnd NoSpurious
PROPERTY Done
CHECK_DEADLOCK FALSE
