-------------------------- MODULE TraceCollections --------------------------
(* Trace validation for C15: every record is one scenario run on the real      *)
(* library with real pool threads; the specification recomputes the sequential *)
(* answer and judges the record.                                               *)
EXTENDS Collections, Json, IOUtils, TLC

Tr == ndJsonDeserialize(IOEnv.TRACE)
VARIABLES l
vars == <<l>>

SeqToBag(s) == [x \in Range(s) |-> Cardinality({i \in 1..Len(s) : s[i] = x})]
PairsOf(flat) == {<<flat[2 * i - 1], flat[2 * i]>> : i \in 1..(Len(flat) \div 2)}

ReduceOK(r) ==
  LET e == ReduceResult(r.kind, r.upd, r.sign) IN
  /\ (e[1] => r.res = e[2] /\ r.res2 = e[2])
  /\ r.res3 = AfterReset(r.kind, r.arv)

MonotoneOlds(kind, upd, olds, init, res) ==
  \A t \in 1..Len(upd) :
    /\ Len(olds[t]) = Len(upd[t])
    /\ \A i \in 1..Len(upd[t]) :
         /\ (kind = "min" => olds[t][i] <= init /\ olds[t][i] >= res)
         /\ (kind = "max" => olds[t][i] >= init /\ olds[t][i] <= res)
         /\ (i > 1 /\ kind = "min" => olds[t][i] <= olds[t][i-1] /\ olds[t][i] <= upd[t][i-1])
         /\ (i > 1 /\ kind = "max" => olds[t][i] >= olds[t][i-1] /\ olds[t][i] >= upd[t][i-1])

AtomicOK(r) ==
  LET vals == Flat(r.upd)
      olds == Flat(r.olds)
  IN CASE r.kind = "min" -> r.res = SeqMin(<<r.init>> \o vals) /\ MonotoneOlds("min", r.upd, r.olds, r.init, r.res)
       [] r.kind = "max" -> r.res = SeqMax(<<r.init>> \o vals) /\ MonotoneOlds("max", r.upd, r.olds, r.init, r.res)
       [] r.kind = "add" ->
            /\ r.res = r.init + SeqSum(vals)
            \* the returned old values chain: {old_i} + {res} = {old_i + v_i} + {init} as multisets
            /\ SeqToBag(olds \o <<r.res>>) = SeqToBag([i \in 1..Len(vals) |-> olds[i] + vals[i]] \o <<r.init>>)
       [] r.kind = "sub" ->
            /\ r.res = r.init - SeqSum(vals)
            /\ SeqToBag(olds \o <<r.res>>) = SeqToBag([i \in 1..Len(vals) |-> olds[i] - vals[i]] \o <<r.init>>)

BitsetOK(r) ==
  LET U == Range(Flat(r.sets))
      O == Range(r.other)
      R == Range(Flat(r.resets))
      firsts == Flat(r.firsts)
      rfirst == Flat(r.rfirst)
  IN /\ r.after = SetToSorted(U)
     /\ r.count = Cardinality(U)
     /\ r.offsets = SetToSorted(U)
     /\ Range(firsts) = U /\ Len(firsts) = Cardinality(U)      \* exactly one setter saw the bit clear
     /\ r.or = SetToSorted(U \cup O)
     /\ r.and = SetToSorted(U \cap O)
     /\ r.xor = SetToSorted((U \ O) \cup (O \ U))
     /\ r.after2 = SetToSorted(U \ R)
     /\ Range(rfirst) = U \cap R /\ Len(rfirst) = Cardinality(U \cap R)

UnionFindOK(r) ==
  LET comp == Components(r.n, PairsOf(Flat(r.pairs)))
      ncomp == Cardinality({comp[v] : v \in 0..(r.n - 1)})
  IN /\ \A i, j \in 0..(r.n - 1) : (r.rep[i + 1] = r.rep[j + 1]) <=> (comp[i] = comp[j])
     /\ \A i \in 0..(r.n - 1) : comp[r.rep[i + 1]] = comp[i]       \* the representative is a member
     /\ r.rep2 = r.rep
     /\ r.merged = r.n - ncomp

PerThreadOK(r) ==
  LET all == SortSeq(Flat(r.vals), <)
      sets == Flat([t \in 1..Len(r.vals) |-> SetToSeq({v % 17 : v \in Range(r.vals[t])})])
  IN /\ r.vec = all /\ r.rvec = all /\ r.deq = all /\ r.bag = all /\ r.bag64 = all
     /\ r.set = SortSeq(sets, <)
     /\ r.size_all = Len(all)
     /\ r.empty_all = (all = <<>>)
     /\ \A t \in 1..Len(r.vals) : r.local[t] = SortSeq(r.vals[t], <)

RecOK(r) ==
  CASE r.k = "reduce" -> ReduceOK(r)
    [] r.k = "reducevec" -> r.res = SortSeq(Flat(r.upd), <)
    [] r.k = "bitreset" -> r.zero = << <<r.begin, r.end>> >>
    [] r.k = "bitset" -> BitsetOK(r)
    [] r.k = "atomic" -> AtomicOK(r)
    [] r.k = "unionfind" -> UnionFindOK(r)
    [] r.k = "perthread" -> PerThreadOK(r)
    [] OTHER -> FALSE

Init == l = 1
Next ==
  /\ l <= Len(Tr)
  /\ IF RecOK(Tr[l]) THEN TRUE ELSE PrintT(<<"REJECT", l, Tr[l].k>>)
  /\ l' = l + 1
Spec == Init /\ [][Next]_vars
Consumed == TLCGet("stats").diameter = Len(Tr) + 1
=============================================================================
