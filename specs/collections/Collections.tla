----------------------------- MODULE Collections -----------------------------
(***************************************************************************)
(* Property-level meaning of Galois' reductions and concurrently filled    *)
(* collections (C15): whatever the distribution of the operations over     *)
(* threads, the answer is that of the sequential abstract data type.       *)
(* Also the implementation-level transcription of                          *)
(* DynamicBitSet::reset(begin,end) (word/mask arithmetic) so that TLC can  *)
(* compare it with the abstract "clear the bits begin..end".               *)
(***************************************************************************)
EXTENDS Integers, Sequences, FiniteSets, SequencesExt, Functions, FiniteSetsExt

RECURSIVE Flat(_)
Flat(ss) == IF ss = <<>> THEN <<>> ELSE Head(ss) \o Flat(Tail(ss))
RECURSIVE SeqSum(_)
SeqSum(s) == IF s = <<>> THEN 0 ELSE Head(s) + SeqSum(Tail(s))
SeqMax(s) == CHOOSE x \in Range(s) : \A y \in Range(s) : y <= x
SeqMin(s) == CHOOSE x \in Range(s) : \A y \in Range(s) : y >= x
Sorted(s) == SortSeq(s, <)
SortedLE(s) == SortSeq(s, LAMBDA a, b : a < b)
SetToSorted(S) == SortSeq(SetToSeq(S), <)
PtMul(a, b) == [i \in 1..Len(a) |-> a[i] * b[i]]

(******************************* reductions ********************************)
\* upd, sign: per-thread sequences; result of reduce() per kind.  <<FALSE, _>> = not determined
\* by the updates alone (max/min over no update at all).
ReduceResult(kind, upd, sign) ==
  LET vals == Flat(upd)
      sg   == Flat(sign)
  IN CASE kind = "sum" -> <<TRUE, SeqSum(PtMul(vals, sg))>>
       [] kind = "max" -> IF vals = <<>> THEN <<FALSE, 0>> ELSE <<TRUE, SeqMax(vals)>>
       [] kind = "min" -> IF vals = <<>> THEN <<FALSE, 0>> ELSE <<TRUE, SeqMin(vals)>>
       [] kind = "and" -> <<TRUE, IF \A i \in 1..Len(vals) : vals[i] = 1 THEN 1 ELSE 0>>
       [] kind = "or" -> <<TRUE, IF \E i \in 1..Len(vals) : vals[i] = 1 THEN 1 ELSE 0>>
       [] kind = "bitor" -> <<TRUE, SumSet(Range(vals))>>      \* every update is a single bit
\* after reset() exactly one update v: the reducible must answer v merged with the identity
AfterReset(kind, v) == v

(***************************** bitset (abstract) ***************************)
ResetRangeAbs(bits, begin, end) == bits \ (begin..end)

(******************* DynamicBitSet::reset(begin,end) as coded ***************)
W == 64
WordBits(w) == (w * W)..(w * W + W - 1)
\* mask with the low k bits set, as bit positions of word w
Low(w, k) == (w * W)..(w * W + k - 1)
ResetRangeImpl(bits, n, begin, end) ==
  IF n = 0 THEN bits ELSE
  LET nwords == (n + W - 1) \div W
      vb == (begin + W - 1) \div W
      ve == IF end = n - 1 THEN nwords ELSE (end + 1) \div W
      afterFill == IF vb < ve THEN bits \ ((vb * W)..(ve * W - 1)) ELSE bits
      vbb == vb * W
      vee == ve * W
  IN IF vbb > vee
     THEN IF begin < vbb
          THEN LET diff == vbb - begin
                   w == begin \div W
                   keepLow == Low(w, W - diff)
                   keepHigh == WordBits(w) \ Low(w, end - vee + 1)
               IN (afterFill \ WordBits(w)) \cup (afterFill \cap (keepLow \cup keepHigh))
          ELSE afterFill
     ELSE LET s1 == IF begin < vbb
                    THEN LET diff == vbb - begin
                             w == begin \div W
                         IN (afterFill \ WordBits(w)) \cup (afterFill \cap Low(w, W - diff))
                    ELSE afterFill
          IN IF end >= vee
             THEN LET diff == end - vee + 1
                      w == end \div W
                  IN (s1 \ WordBits(w)) \cup (s1 \cap (WordBits(w) \ Low(w, diff)))
             ELSE s1

(******************************* union-find ********************************)
\* connected components by label propagation; pairs is a set of <<a,b>> over 0..n-1
RECURSIVE Propagate(_, _, _)
Propagate(lab, pairs, k) ==
  IF k = 0 THEN lab
  ELSE LET nl == [v \in DOMAIN lab |->
                   LET nb == {lab[p[2]] : p \in {q \in pairs : q[1] = v}} \cup
                             {lab[p[1]] : p \in {q \in pairs : q[2] = v}} \cup {lab[v]}
                   IN CHOOSE m \in nb : \A x \in nb : m <= x]
       IN IF nl = lab THEN lab ELSE Propagate(nl, pairs, k - 1)
Components(n, pairs) == Propagate([v \in 0..(n - 1) |-> v], pairs, n)
=============================================================================
