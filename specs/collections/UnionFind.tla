--------------------------------- MODULE UnionFind ---------------------------------
(***************************************************************************)
(* Implementation-level model of galois::UnionFindNode (UnionFind.h): the  *)
(* lock-free merge with incremental path compression.  Every atomic load,  *)
(* store and compare-exchange of m_component is one step.  Nodes are       *)
(* 1..N (the address order the code uses to direct links); 0 is null.      *)
(*                                                                         *)
(*   findAndCompress(n): if n is its own component return a *second* load  *)
(*     of it; otherwise walk up; while walking, if prev still points to    *)
(*     rep, make it point to rep's parent (one level of compression).      *)
(*   merge(x, y): a := load(x); loop { a := fac(a); b := fac(b);           *)
(*     a = b -> not merged; direct the link from the larger to the smaller *)
(*     address; CAS(a.m_component: a -> b) -> merged, else a := the value  *)
(*     seen and retry }.                                                   *)
(*                                                                         *)
(*   Mono    : a link never points upwards (parent[n] <= n): no cycles,    *)
(*             every find terminates                                       *)
(*   AtEnd   : when all merges have returned, the components are exactly   *)
(*             those of the requested pairs, and the number of merges that *)
(*             reported success is N - #components (C15: same answer as    *)
(*             the sequential execution)                                   *)
(*   Done    : every merge returns (lock-free + bounded work)              *)
(*                                                                         *)
(* Mutants: NoOrder = TRUE drops the address ordering of links (two        *)
(* opposite merges create a cycle); PlainStore = TRUE replaces the         *)
(* compare-exchange by a store (a root linked twice loses one merge).      *)
(***************************************************************************)
EXTENDS Integers, Sequences, FiniteSets, TLC
CONSTANTS N, Ops, NoOrder, PlainStore
\* Ops : sequence (one entry per process) of sequences of pairs <<x, y>> of nodes
Nodes == 1..N
Procs == 1..Len(Ops)
(* --algorithm uf {
  variables parent = [n \in Nodes |-> n], ret = [p \in Procs |-> 0], merged = 0;
  procedure fac(nd) variables rep = 0, prev = 0, nxt = 0, t = 0; {
    f0: t := parent[nd];
        if (t = nd) { f0b: ret[self] := parent[nd]; f0r: return; };
    f1: rep := parent[nd]; prev := 0;
    f2: while (TRUE) {
          t := parent[rep];
          if (t = rep) { f2r: ret[self] := rep; return; };
    f3:   nxt := parent[rep];
    f4:   if (prev # 0) { t := parent[prev]; } else { t := 0; };
    f5:   if (prev # 0 /\ t = rep) { parent[prev] := nxt; };
    f6:   prev := rep; rep := nxt;
        }
  }
  fair process (P \in Procs) variables todo = Ops[self], a = 0, b = 0, fin = FALSE; {
    p0: while (todo # <<>>) {
          a := parent[Head(todo)[1]]; b := Head(todo)[2]; fin := FALSE;
    p1:   while (~fin) {
            call fac(a);
    p2:     a := ret[self];
            call fac(b);
    p3:     b := ret[self];
            if (a = b) { fin := TRUE; }
            else {
    p3b:      if (a < b /\ ~NoOrder) { a := b || b := a; };
    p4:       if (PlainStore \/ parent[a] = a) { parent[a] := b; merged := merged + 1; fin := TRUE; }
              else { a := parent[a]; };
            };
          };
    p5:   todo := Tail(todo);
        }
  }
} *)
\* BEGIN TRANSLATION
CONSTANT defaultInitValue
VARIABLES pc, parent, ret, merged, stack, nd, rep, prev, nxt, t, todo, a, b, 
          fin

vars == << pc, parent, ret, merged, stack, nd, rep, prev, nxt, t, todo, a, b, 
           fin >>

ProcSet == (Procs)

Init == (* Global variables *)
        /\ parent = [n \in Nodes |-> n]
        /\ ret = [p \in Procs |-> 0]
        /\ merged = 0
        (* Procedure fac *)
        /\ nd = [ self \in ProcSet |-> defaultInitValue]
        /\ rep = [ self \in ProcSet |-> 0]
        /\ prev = [ self \in ProcSet |-> 0]
        /\ nxt = [ self \in ProcSet |-> 0]
        /\ t = [ self \in ProcSet |-> 0]
        (* Process P *)
        /\ todo = [self \in Procs |-> Ops[self]]
        /\ a = [self \in Procs |-> 0]
        /\ b = [self \in Procs |-> 0]
        /\ fin = [self \in Procs |-> FALSE]
        /\ stack = [self \in ProcSet |-> << >>]
        /\ pc = [self \in ProcSet |-> "p0"]

f0(self) == /\ pc[self] = "f0"
            /\ t' = [t EXCEPT ![self] = parent[nd[self]]]
            /\ IF t'[self] = nd[self]
                  THEN /\ pc' = [pc EXCEPT ![self] = "f0b"]
                  ELSE /\ pc' = [pc EXCEPT ![self] = "f1"]
            /\ UNCHANGED << parent, ret, merged, stack, nd, rep, prev, nxt, 
                            todo, a, b, fin >>

f0b(self) == /\ pc[self] = "f0b"
             /\ ret' = [ret EXCEPT ![self] = parent[nd[self]]]
             /\ pc' = [pc EXCEPT ![self] = "f0r"]
             /\ UNCHANGED << parent, merged, stack, nd, rep, prev, nxt, t, 
                             todo, a, b, fin >>

f0r(self) == /\ pc[self] = "f0r"
             /\ pc' = [pc EXCEPT ![self] = Head(stack[self]).pc]
             /\ rep' = [rep EXCEPT ![self] = Head(stack[self]).rep]
             /\ prev' = [prev EXCEPT ![self] = Head(stack[self]).prev]
             /\ nxt' = [nxt EXCEPT ![self] = Head(stack[self]).nxt]
             /\ t' = [t EXCEPT ![self] = Head(stack[self]).t]
             /\ nd' = [nd EXCEPT ![self] = Head(stack[self]).nd]
             /\ stack' = [stack EXCEPT ![self] = Tail(stack[self])]
             /\ UNCHANGED << parent, ret, merged, todo, a, b, fin >>

f1(self) == /\ pc[self] = "f1"
            /\ rep' = [rep EXCEPT ![self] = parent[nd[self]]]
            /\ prev' = [prev EXCEPT ![self] = 0]
            /\ pc' = [pc EXCEPT ![self] = "f2"]
            /\ UNCHANGED << parent, ret, merged, stack, nd, nxt, t, todo, a, b, 
                            fin >>

f2(self) == /\ pc[self] = "f2"
            /\ t' = [t EXCEPT ![self] = parent[rep[self]]]
            /\ IF t'[self] = rep[self]
                  THEN /\ pc' = [pc EXCEPT ![self] = "f2r"]
                  ELSE /\ pc' = [pc EXCEPT ![self] = "f3"]
            /\ UNCHANGED << parent, ret, merged, stack, nd, rep, prev, nxt, 
                            todo, a, b, fin >>

f3(self) == /\ pc[self] = "f3"
            /\ nxt' = [nxt EXCEPT ![self] = parent[rep[self]]]
            /\ pc' = [pc EXCEPT ![self] = "f4"]
            /\ UNCHANGED << parent, ret, merged, stack, nd, rep, prev, t, todo, 
                            a, b, fin >>

f4(self) == /\ pc[self] = "f4"
            /\ IF prev[self] # 0
                  THEN /\ t' = [t EXCEPT ![self] = parent[prev[self]]]
                  ELSE /\ t' = [t EXCEPT ![self] = 0]
            /\ pc' = [pc EXCEPT ![self] = "f5"]
            /\ UNCHANGED << parent, ret, merged, stack, nd, rep, prev, nxt, 
                            todo, a, b, fin >>

f5(self) == /\ pc[self] = "f5"
            /\ IF prev[self] # 0 /\ t[self] = rep[self]
                  THEN /\ parent' = [parent EXCEPT ![prev[self]] = nxt[self]]
                  ELSE /\ TRUE
                       /\ UNCHANGED parent
            /\ pc' = [pc EXCEPT ![self] = "f6"]
            /\ UNCHANGED << ret, merged, stack, nd, rep, prev, nxt, t, todo, a, 
                            b, fin >>

f6(self) == /\ pc[self] = "f6"
            /\ prev' = [prev EXCEPT ![self] = rep[self]]
            /\ rep' = [rep EXCEPT ![self] = nxt[self]]
            /\ pc' = [pc EXCEPT ![self] = "f2"]
            /\ UNCHANGED << parent, ret, merged, stack, nd, nxt, t, todo, a, b, 
                            fin >>

f2r(self) == /\ pc[self] = "f2r"
             /\ ret' = [ret EXCEPT ![self] = rep[self]]
             /\ pc' = [pc EXCEPT ![self] = Head(stack[self]).pc]
             /\ rep' = [rep EXCEPT ![self] = Head(stack[self]).rep]
             /\ prev' = [prev EXCEPT ![self] = Head(stack[self]).prev]
             /\ nxt' = [nxt EXCEPT ![self] = Head(stack[self]).nxt]
             /\ t' = [t EXCEPT ![self] = Head(stack[self]).t]
             /\ nd' = [nd EXCEPT ![self] = Head(stack[self]).nd]
             /\ stack' = [stack EXCEPT ![self] = Tail(stack[self])]
             /\ UNCHANGED << parent, merged, todo, a, b, fin >>

fac(self) == f0(self) \/ f0b(self) \/ f0r(self) \/ f1(self) \/ f2(self)
                \/ f3(self) \/ f4(self) \/ f5(self) \/ f6(self)
                \/ f2r(self)

p0(self) == /\ pc[self] = "p0"
            /\ IF todo[self] # <<>>
                  THEN /\ a' = [a EXCEPT ![self] = parent[Head(todo[self])[1]]]
                       /\ b' = [b EXCEPT ![self] = Head(todo[self])[2]]
                       /\ fin' = [fin EXCEPT ![self] = FALSE]
                       /\ pc' = [pc EXCEPT ![self] = "p1"]
                  ELSE /\ pc' = [pc EXCEPT ![self] = "Done"]
                       /\ UNCHANGED << a, b, fin >>
            /\ UNCHANGED << parent, ret, merged, stack, nd, rep, prev, nxt, t, 
                            todo >>

p1(self) == /\ pc[self] = "p1"
            /\ IF ~fin[self]
                  THEN /\ /\ nd' = [nd EXCEPT ![self] = a[self]]
                          /\ stack' = [stack EXCEPT ![self] = << [ procedure |->  "fac",
                                                                   pc        |->  "p2",
                                                                   rep       |->  rep[self],
                                                                   prev      |->  prev[self],
                                                                   nxt       |->  nxt[self],
                                                                   t         |->  t[self],
                                                                   nd        |->  nd[self] ] >>
                                                               \o stack[self]]
                       /\ rep' = [rep EXCEPT ![self] = 0]
                       /\ prev' = [prev EXCEPT ![self] = 0]
                       /\ nxt' = [nxt EXCEPT ![self] = 0]
                       /\ t' = [t EXCEPT ![self] = 0]
                       /\ pc' = [pc EXCEPT ![self] = "f0"]
                  ELSE /\ pc' = [pc EXCEPT ![self] = "p5"]
                       /\ UNCHANGED << stack, nd, rep, prev, nxt, t >>
            /\ UNCHANGED << parent, ret, merged, todo, a, b, fin >>

p2(self) == /\ pc[self] = "p2"
            /\ a' = [a EXCEPT ![self] = ret[self]]
            /\ /\ nd' = [nd EXCEPT ![self] = b[self]]
               /\ stack' = [stack EXCEPT ![self] = << [ procedure |->  "fac",
                                                        pc        |->  "p3",
                                                        rep       |->  rep[self],
                                                        prev      |->  prev[self],
                                                        nxt       |->  nxt[self],
                                                        t         |->  t[self],
                                                        nd        |->  nd[self] ] >>
                                                    \o stack[self]]
            /\ rep' = [rep EXCEPT ![self] = 0]
            /\ prev' = [prev EXCEPT ![self] = 0]
            /\ nxt' = [nxt EXCEPT ![self] = 0]
            /\ t' = [t EXCEPT ![self] = 0]
            /\ pc' = [pc EXCEPT ![self] = "f0"]
            /\ UNCHANGED << parent, ret, merged, todo, b, fin >>

p3(self) == /\ pc[self] = "p3"
            /\ b' = [b EXCEPT ![self] = ret[self]]
            /\ IF a[self] = b'[self]
                  THEN /\ fin' = [fin EXCEPT ![self] = TRUE]
                       /\ pc' = [pc EXCEPT ![self] = "p1"]
                  ELSE /\ pc' = [pc EXCEPT ![self] = "p3b"]
                       /\ fin' = fin
            /\ UNCHANGED << parent, ret, merged, stack, nd, rep, prev, nxt, t, 
                            todo, a >>

p3b(self) == /\ pc[self] = "p3b"
             /\ IF a[self] < b[self] /\ ~NoOrder
                   THEN /\ /\ a' = [a EXCEPT ![self] = b[self]]
                           /\ b' = [b EXCEPT ![self] = a[self]]
                   ELSE /\ TRUE
                        /\ UNCHANGED << a, b >>
             /\ pc' = [pc EXCEPT ![self] = "p4"]
             /\ UNCHANGED << parent, ret, merged, stack, nd, rep, prev, nxt, t, 
                             todo, fin >>

p4(self) == /\ pc[self] = "p4"
            /\ IF PlainStore \/ parent[a[self]] = a[self]
                  THEN /\ parent' = [parent EXCEPT ![a[self]] = b[self]]
                       /\ merged' = merged + 1
                       /\ fin' = [fin EXCEPT ![self] = TRUE]
                       /\ a' = a
                  ELSE /\ a' = [a EXCEPT ![self] = parent[a[self]]]
                       /\ UNCHANGED << parent, merged, fin >>
            /\ pc' = [pc EXCEPT ![self] = "p1"]
            /\ UNCHANGED << ret, stack, nd, rep, prev, nxt, t, todo, b >>

p5(self) == /\ pc[self] = "p5"
            /\ todo' = [todo EXCEPT ![self] = Tail(todo[self])]
            /\ pc' = [pc EXCEPT ![self] = "p0"]
            /\ UNCHANGED << parent, ret, merged, stack, nd, rep, prev, nxt, t, 
                            a, b, fin >>

P(self) == p0(self) \/ p1(self) \/ p2(self) \/ p3(self) \/ p3b(self)
              \/ p4(self) \/ p5(self)

(* Allow infinite stuttering to prevent deadlock on termination. *)
Terminating == /\ \A self \in ProcSet: pc[self] = "Done"
               /\ UNCHANGED vars

Next == (\E self \in ProcSet: fac(self))
           \/ (\E self \in Procs: P(self))
           \/ Terminating

Spec == /\ Init /\ [][Next]_vars
        /\ \A self \in Procs : WF_vars(P(self)) /\ WF_vars(fac(self))

Termination == <>(\A self \in ProcSet: pc[self] = "Done")

\* END TRANSLATION
RECURSIVE RootOf(_, _)
RootOf(n, fuel) == IF parent[n] = n \/ fuel = 0 THEN n ELSE RootOf(parent[n], fuel - 1)
Root(n) == RootOf(n, N)
Mono == \A n \in Nodes : parent[n] \in 1..n
\* the components the requested pairs induce (sequential answer), as a representative function: smallest reachable node
AllPairs == UNION {{Ops[p][i] : i \in 1..Len(Ops[p])} : p \in Procs}
RECURSIVE Close(_, _)
Close(r, k) == IF k = 0 THEN r
               ELSE Close([n \in Nodes |-> LET adj == {r[m] : m \in {m \in Nodes : <<n, m>> \in AllPairs \/ <<m, n>> \in AllPairs}} \cup {r[n]}
                                           IN CHOOSE x \in adj : \A y \in adj : x <= y], k - 1)
SeqRep == Close([n \in Nodes |-> n], N)
NComp == Cardinality({SeqRep[n] : n \in Nodes})
AllDone == \A p \in Procs : pc[p] = "Done"
AtEnd == AllDone => /\ \A n, m \in Nodes : (Root(n) = Root(m)) <=> (SeqRep[n] = SeqRep[m])
                    /\ merged = N - NComp
\* at any time: nodes in one tree were requested to be together (no spurious unions)
NoSpurious == \A n \in Nodes : SeqRep[Root(n)] = SeqRep[n]
Done == <>AllDone
=============================================================================
