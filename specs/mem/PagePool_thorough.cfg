SPECIFICATION Spec
CONSTANTS Threads = {1, 2, 3} MaxPages = 3 LinkBeforeLock = FALSE
INVARIANTS Disjoint ListsSound NoLeak
CHECK_DEADLOCK FALSE
