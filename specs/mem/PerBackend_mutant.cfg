SPECIFICATION Spec
CONSTANTS MaxClass = 3 WrongCursor = TRUE
INVARIANT Disjoint
CHECK_DEADLOCK FALSE
