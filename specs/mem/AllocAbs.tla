---------------------------------- MODULE AllocAbs ----------------------------------
(***************************************************************************)
(* Property-level specification of an allocator (C09): the map of live     *)
(* blocks.  An address is a pair <<hi, lo>> with 0 <= lo < 2^20 (TLC's     *)
(* integers are 32 bit wide).                                              *)
(*   NonNull, LargeEnough (usable >= requested), Aligned(g),               *)
(*   (sizes are pairs <<megabytes, bytes>> for the same reason),           *)
(*   Disjoint   a new block overlaps no live block of any allocator        *)
(*              (hence a block is reused only after it was freed),         *)
(*   FreeOfLive only live blocks are freed; Clear(h) ends the life of all  *)
(*              blocks of a bump-style heap.                               *)
(***************************************************************************)
EXTENDS Integers, FiniteSets
M == 1048576
VARIABLE live                       \* set of <<heap, hi, lo, size, sizeM>>: the block is sizeM * 2^20 + size bytes long (size < 2^20)
End(b) == <<b[2] + b[5] + (b[3] + b[4]) \div M, (b[3] + b[4]) % M>>
Leq(x, y) == x[1] < y[1] \/ (x[1] = y[1] /\ x[2] <= y[2])
Disjoint(a, b) == Leq(End(a), <<b[2], b[3]>>) \/ Leq(End(b), <<a[2], a[3]>>)
Aligned(hi, lo, g) == IF g <= M THEN lo % g = 0 ELSE lo = 0 /\ hi % (g \div M) = 0
\* req and usable are sizes <<megabytes, bytes>> (arrays of several gigabytes do not fit TLC's integers otherwise)
Alloc(h, hi, lo, req, usable, g, isnull) ==
  /\ isnull = 0 /\ Leq(req, usable) /\ usable # <<0, 0>> /\ usable[2] < M /\ req[2] < M
  /\ Aligned(hi, lo, g)
  /\ \A b \in live : Disjoint(<<h, hi, lo, usable[2], usable[1]>>, b)
  /\ live' = live \cup {<<h, hi, lo, usable[2], usable[1]>>}
Free(h, hi, lo) ==
  /\ \E b \in live : b[1] = h /\ b[2] = hi /\ b[3] = lo
  /\ live' = {b \in live : ~(b[1] = h /\ b[2] = hi /\ b[3] = lo)}
Clear(h) == live' = {b \in live : b[1] # h}
=============================================================================
