SPECIFICATION Spec
CONSTANTS Threads = {1, 2} MaxPages = 3 LinkBeforeLock = FALSE
INVARIANTS Disjoint ListsSound NoLeak
CHECK_DEADLOCK FALSE
