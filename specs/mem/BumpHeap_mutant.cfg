SPECIFICATION Spec
CONSTANTS Page = 8 Hdr = 1 Sizes = {1, 2, 3, 7, 8, 12} MaxAllocs = 6 RewindOnFallback = TRUE
INVARIANTS Disjoint InBounds
CHECK_DEADLOCK FALSE
