---------------------------------- MODULE BumpHeap ----------------------------------
(***************************************************************************)
(* Implementation-level model of runtime::BumpWithMallocHeap (Mem.h), the  *)
(* per-iteration allocator: requests are carved out of the current page by *)
(* bumping an offset; a request that does not fit a page at all is served  *)
(* from a malloc'ed fallback block linked into a second list; clear()      *)
(* gives everything back.  Sizes are in units of 8 bytes (the alignment),  *)
(* Hdr is the block header at the start of every page / fallback block.    *)
(*                                                                         *)
(*   Disjoint : no two live blocks overlap                                 *)
(*   InBounds : a page block ends inside its page, after its header        *)
(*                                                                         *)
(* RewindOnFallback = TRUE is the mutant in which linking a fallback block *)
(* also resets the bump offset (one refill() for both lists): the next     *)
(* ordinary request is carved from the start of the current page, on top   *)
(* of live blocks -- small, oversize, small.                               *)
(***************************************************************************)
EXTENDS Integers, FiniteSets
CONSTANTS Page, Hdr, Sizes, MaxAllocs, RewindOnFallback
VARIABLES pages, offset, fbs, live, n
vars == <<pages, offset, fbs, live, n>>
Init == pages = 0 /\ offset = 0 /\ fbs = 0 /\ live = {} /\ n = 0
\* a block is <<list ("pg" / "fb"), index of the page or fallback block, first unit, one past its last unit>>
Allocate(s) ==
  /\ n < MaxAllocs /\ n' = n + 1
  /\ IF Hdr + s > Page
     THEN /\ fbs' = fbs + 1 /\ live' = live \cup {<<"fb", fbs + 1, Hdr, Hdr + s>>}
          /\ pages' = pages
          /\ offset' = IF RewindOnFallback THEN Hdr ELSE offset
     ELSE LET fresh == pages = 0 \/ offset + s > Page
              pg == IF fresh THEN pages + 1 ELSE pages
              off == IF fresh THEN Hdr ELSE offset
          IN /\ pages' = pg /\ offset' = off + s /\ fbs' = fbs
             /\ live' = live \cup {<<"pg", pg, off, off + s>>}
Clear == /\ pages' = 0 /\ offset' = 0 /\ fbs' = 0 /\ live' = {} /\ n' = n
Next == (\E s \in Sizes : Allocate(s)) \/ Clear
Spec == Init /\ [][Next]_vars
Disjoint == \A a, b \in live : a # b /\ a[1] = b[1] /\ a[2] = b[2] => a[4] <= b[3] \/ b[4] <= a[3]
InBounds == \A a \in live : a[3] >= Hdr /\ (a[1] = "pg" => a[4] <= Page)
=============================================================================
