---------------------------------- MODULE PagePool ----------------------------------
(***************************************************************************)
(* Implementation-level model of the page pool (libgalois/include/galois/  *)
(* runtime/PagePool.h, PageAllocState): every thread owns a free list of   *)
(* pages (a stack behind a pointer lock); a page belongs for ever to the   *)
(* thread that first obtained it from the operating system; pageAlloc pops *)
(* the caller's own list (or asks the OS), pageFree pushes the page onto   *)
(* its OWNER's list - from whichever thread - under that list's lock.      *)
(* LinkBeforeLock = TRUE is the change the lock protects against: the page *)
(* is linked to the head it read before taking the lock.                   *)
(***************************************************************************)
EXTENDS Integers, Sequences, FiniteSets
CONSTANTS Threads, MaxPages, LinkBeforeLock
Pages == 1..MaxPages
VARIABLES owner,     \* page -> owning thread (0 = not yet obtained from the OS)
          head,      \* thread -> top page of its free list (0 = empty)
          nxt,       \* page -> next page in a free list (0 = end)
          lock,      \* thread -> holder of that list's lock (0 = free)
          held,      \* thread -> set of pages it currently has (live)
          pc, reg, arg
vars == <<owner, head, nxt, lock, held, pc, reg, arg>>
Init == /\ owner = [p \in Pages |-> 0] /\ head = [t \in Threads |-> 0] /\ nxt = [p \in Pages |-> 0] /\ lock = [t \in Threads |-> 0]
        /\ held = [t \in Threads |-> {}] /\ pc = [t \in Threads |-> "idle"] /\ reg = [t \in Threads |-> 0] /\ arg = [t \in Threads |-> 0]
\* ---- pageAlloc by thread t
AllocStart(t) == /\ pc[t] = "idle" /\ pc' = [pc EXCEPT ![t] = IF head[t] # 0 THEN "a_lock" ELSE "a_os"]
                 /\ UNCHANGED <<owner, head, nxt, lock, held, reg, arg>>
AllocLock(t) == /\ pc[t] = "a_lock" /\ lock[t] = 0 /\ lock' = [lock EXCEPT ![t] = t] /\ pc' = [pc EXCEPT ![t] = "a_pop"]
                /\ UNCHANGED <<owner, head, nxt, held, reg, arg>>
AllocPop(t) == /\ pc[t] = "a_pop"
               /\ IF head[t] # 0
                  THEN /\ held' = [held EXCEPT ![t] = @ \cup {head[t]}] /\ head' = [head EXCEPT ![t] = nxt[head[t]]] /\ pc' = [pc EXCEPT ![t] = "idle"]
                  ELSE /\ pc' = [pc EXCEPT ![t] = "a_os"] /\ UNCHANGED <<held, head>>
               /\ lock' = [lock EXCEPT ![t] = 0] /\ UNCHANGED <<owner, nxt, reg, arg>>
AllocOS(t) == /\ pc[t] = "a_os" /\ \E p \in Pages : owner[p] = 0
              /\ LET p == CHOOSE q \in Pages : owner[q] = 0 IN owner' = [owner EXCEPT ![p] = t] /\ held' = [held EXCEPT ![t] = @ \cup {p}]
              /\ pc' = [pc EXCEPT ![t] = "idle"] /\ UNCHANGED <<head, nxt, lock, reg, arg>>
\* ---- pageFree(p) by thread t (p may belong to another thread: cross-thread free)
FreeStart(t, p) == /\ pc[t] = "idle" /\ p \in held[t] /\ held' = [held EXCEPT ![t] = @ \ {p}] /\ arg' = [arg EXCEPT ![t] = p]
                   /\ IF LinkBeforeLock THEN reg' = [reg EXCEPT ![t] = head[owner[p]]] ELSE UNCHANGED reg       \* (mutant: head read here)
                   /\ pc' = [pc EXCEPT ![t] = "f_lock"] /\ UNCHANGED <<owner, head, nxt, lock>>
FreeLock(t) == /\ pc[t] = "f_lock" /\ lock[owner[arg[t]]] = 0 /\ lock' = [lock EXCEPT ![owner[arg[t]]] = t] /\ pc' = [pc EXCEPT ![t] = "f_push"]
               /\ UNCHANGED <<owner, head, nxt, held, reg, arg>>
FreePush(t) == /\ pc[t] = "f_push"
               /\ LET p == arg[t] o == owner[p] IN
                    /\ nxt' = [nxt EXCEPT ![p] = IF LinkBeforeLock THEN reg[t] ELSE head[o]]
                    /\ head' = [head EXCEPT ![o] = p] /\ lock' = [lock EXCEPT ![o] = 0]
               /\ pc' = [pc EXCEPT ![t] = "idle"] /\ UNCHANGED <<owner, held, reg, arg>>
\* hand a live page to another thread (which will free it)
Hand(t, u, p) == /\ pc[t] = "idle" /\ t # u /\ p \in held[t] /\ held' = [held EXCEPT ![t] = @ \ {p}, ![u] = @ \cup {p}]
                 /\ UNCHANGED <<owner, head, nxt, lock, pc, reg, arg>>
Next == \E t \in Threads : AllocStart(t) \/ AllocLock(t) \/ AllocPop(t) \/ AllocOS(t) \/ FreeLock(t) \/ FreePush(t)
                           \/ (\E p \in Pages : FreeStart(t, p)) \/ (\E u \in Threads, p \in Pages : Hand(t, u, p))
Spec == Init /\ [][Next]_vars
\* ---- properties (C09 for pages)
RECURSIVE Chain(_, _)
Chain(p, fuel) == IF p = 0 \/ fuel = 0 THEN {} ELSE {p} \cup Chain(nxt[p], fuel - 1)
InLists == UNION {Chain(head[t], MaxPages + 1) : t \in Threads}
Live == UNION {held[t] : t \in Threads}
\* a page is never live in two hands, and never live while it can be handed out again
Disjoint == /\ \A t, u \in Threads : t # u => held[t] \cap held[u] = {}
            /\ Live \cap InLists = {}
\* free lists are acyclic and do not share pages
ListsSound == /\ \A t \in Threads : Cardinality(Chain(head[t], MaxPages + 1)) <= MaxPages
              /\ \A t, u \in Threads : t # u => Chain(head[t], MaxPages + 1) \cap Chain(head[u], MaxPages + 1) = {}
\* no page is lost: every page obtained from the OS is live, in a list, or in transit inside pageFree
NoLeak == \A p \in Pages : owner[p] # 0 => p \in Live \cup InLists \cup {arg[t] : t \in {x \in Threads : pc[x] \in {"f_lock", "f_push"}}}
=============================================================================
