SPECIFICATION Spec
CONSTANTS MaxClass = 3 WrongCursor = FALSE
INVARIANT Disjoint
CHECK_DEADLOCK FALSE
