--------------------------------- MODULE TraceAlloc ---------------------------------
(* Trace validation for C09: allocation histories of the real allocators (sequential *)
(* and from several threads with cross-thread frees; "alloc" is logged after the     *)
(* call returned, "free" before the call, so the logged lifetime is inside the real  *)
(* one) are replayed on AllocAbs.                                                    *)
EXTENDS AllocAbs, Sequences, Json, IOUtils, TLC
Tr == ndJsonDeserialize(IOEnv.TRACE)
VARIABLES l, dead
tvars == <<l, dead, live>>
Init == l = 1 /\ dead = TRUE /\ live = {}
Act(r) == CASE r.ev = "alloc" -> Alloc(r.h, r.hi, r.lo, <<r.rm, r.req>>, <<r.um, r.usable>>, r.g, r.null)
            [] r.ev = "free" -> Free(r.h, r.hi, r.lo)
            [] r.ev = "clear" -> Clear(r.h)
            [] r.ev = "end" -> live = {} /\ UNCHANGED live        \* everything was given back
            [] OTHER -> FALSE                                       \* corrupted canary, crash
Next ==
  /\ l <= Len(Tr) /\ l' = l + 1
  /\ LET r == Tr[l] IN
     IF r.ev = "reset" THEN dead' = FALSE /\ live' = {}
     ELSE IF dead THEN UNCHANGED <<dead, live>>
     ELSE IF ENABLED Act(r) THEN Act(r) /\ UNCHANGED dead
     ELSE PrintT(<<"REJECT", l, r.ev>>) /\ dead' = TRUE /\ UNCHANGED live
Spec == Init /\ [][Next]_tvars
Consumed == TLCGet("stats").diameter = Len(Tr) + 1
=============================================================================
