SPECIFICATION Spec
CONSTANTS MaxClass = 4 WrongCursor = FALSE
INVARIANT Disjoint
CHECK_DEADLOCK FALSE
