---------------------------------- MODULE PerBackend ----------------------------------
(***************************************************************************)
(* Implementation-level model of the per-thread / per-socket storage offset*)
(* allocator (libgalois/src/PerThreadStorage.cpp, PerBackend::allocOffset /*)
(* deallocOffset): sizes are rounded up to a power of two; a bump pointer  *)
(* serves requests while the page lasts (a block freed at the very end is  *)
(* given back by moving the pointer); afterwards free lists per size class *)
(* serve them, a larger free block being split: the request takes its      *)
(* front and the rest is returned as one block of every class between the  *)
(* request's and the split block's.  WrongCursor = TRUE is the slip in     *)
(* which the splitting loop advances by the request size instead of the    *)
(* size of the piece it just returned.                                     *)
(***************************************************************************)
EXTENDS Integers, FiniteSets, Sequences
CONSTANTS MaxClass, WrongCursor          \* classes 0..MaxClass, block of class c has 2^c units; the page has 2^MaxClass units
Pow(c) == IF c = 0 THEN 1 ELSE IF c = 1 THEN 2 ELSE IF c = 2 THEN 4 ELSE IF c = 3 THEN 8 ELSE 16
PageSize == Pow(MaxClass)
Classes == 0..MaxClass
VARIABLES nextLoc, free, live            \* free: class -> set of offsets; live: set of <<offset, class>>
vars == <<nextLoc, free, live>>
Init == nextLoc = 0 /\ free = [c \in Classes |-> {}] /\ live = {}
Bump(c) == /\ nextLoc + Pow(c) <= PageSize /\ live' = live \cup {<<nextLoc, c>>} /\ nextLoc' = nextLoc + Pow(c) /\ UNCHANGED free
FromList(c) == /\ nextLoc + Pow(c) > PageSize /\ free[c] # {}
               /\ LET o == CHOOSE x \in free[c] : TRUE IN live' = live \cup {<<o, c>>} /\ free' = [free EXCEPT ![c] = @ \ {o}]
               /\ UNCHANGED nextLoc
\* split the smallest larger free block: pieces of class idx-1 down to c behind the request
RECURSIVE Pieces(_, _, _, _)
Pieces(start, end, i, c) == IF start >= end \/ i < 0 THEN {} ELSE {<<start, i>>} \cup Pieces(start + (IF WrongCursor THEN Pow(c) ELSE Pow(i)), end, i - 1, c)
Split(c) == /\ nextLoc + Pow(c) > PageSize /\ free[c] = {}
            /\ \E idx \in Classes : /\ idx > c /\ free[idx] # {} /\ \A j \in Classes : (j > c /\ j < idx) => free[j] = {}
                 /\ LET o == CHOOSE x \in free[idx] : TRUE
                        ps == Pieces(o + Pow(c), o + Pow(idx), idx - 1, c) IN
                    /\ live' = live \cup {<<o, c>>}
                    /\ free' = [k \in Classes |-> (IF k = idx THEN free[k] \ {o} ELSE free[k]) \cup {p[1] : p \in {q \in ps : q[2] = k}}]
            /\ UNCHANGED nextLoc
Dealloc(b) == /\ b \in live /\ live' = live \ {b}
              /\ IF b[1] + Pow(b[2]) = nextLoc THEN nextLoc' = b[1] /\ UNCHANGED free
                 ELSE free' = [free EXCEPT ![b[2]] = @ \cup {b[1]}] /\ UNCHANGED nextLoc
Next == (\E c \in Classes : Bump(c) \/ FromList(c) \/ Split(c)) \/ (\E b \in live : Dealloc(b))
Spec == Init /\ [][Next]_vars
\* ---- properties (C09 for per-thread storage offsets)
Span(o, c) == o..(o + Pow(c) - 1)
FreeBlocks == UNION {{<<o, c>> : o \in free[c]} : c \in Classes}
\* live blocks are disjoint, inside the page, and disjoint from everything that can be handed out again
Disjoint == /\ \A a, b \in live \cup FreeBlocks : a # b => Span(a[1], a[2]) \cap Span(b[1], b[2]) = {}
            /\ \A a \in live \cup FreeBlocks : a[1] >= 0 /\ a[1] + Pow(a[2]) <= PageSize
            /\ \A a \in live \cup FreeBlocks : a[1] + Pow(a[2]) <= nextLoc
=============================================================================
