#!/bin/bash
# usage: confirm_seed.sh <id e.g. c13> <k> <PROPERTY e.g. C13>
# Confirms a sub-agent's seeded change in ITS scratch worktree (/tmp/wt/<id>): demo fails with the patch, passes without,
# a fixed set of the repository's unit tests passes with the patch; then stores it as /verif/seeded/<PROPERTY>-m<k>/.
id=$1; k=$2; prop=$3; sk=${4:-$k}
D=/tmp/wt/${id}_out/m$k; WT=/tmp/wt/$id; S=/verif/seeded/$prop-m$sk
[ -f $D/patch.diff ] || { echo "no patch $D"; exit 2; }
mkdir -p $S; cp $D/patch.diff $D/demo.cpp $D/build.sh $D/notes.txt $S/ 2>/dev/null
cd $WT && git checkout -q -- . 
run_demo() {  # prints rc
  out=$(bash $D/build.sh 2>&1 | tail -3); bin=$(echo "$out" | grep -o "built [^ ]*" | tail -1 | cut -d' ' -f2)
  [ -x "$bin" ] || bin=$(ls -t /tmp/wt/${id}_build/*demo* /tmp/wt/${id}_build/*/demo* 2>/dev/null | head -1)
  GALOIS_DO_NOT_BIND_THREADS=1 timeout 300 $bin > /tmp/wt/${id}_build/demo_run.log 2>&1; echo $?
}
git apply $D/patch.diff || { echo "patch does not apply"; exit 3; }
rc_with=$(run_demo)
# unit tests with the patch
GEN=/tmp/wt/${id}_gen; TB=/tmp/wt/${id}_build/confirm_tests; mkdir -p $TB
FLAGS="-O2 -std=c++17 -march=native -w -pthread -DGALOIS_USE_NUMA -DGALOIS_USE_SCHED_SETAFFINITY -DNDEBUG -I$WT/libgalois/include -I$GEN"
# own library build from the patched worktree (independent of the agent's build layout)
mkdir -p $TB/obj $GEN/galois; cp $WT/libgalois/include/galois/config.h.in $GEN/galois/config.h
sed -e 's/@GALOIS_VERSION@/6.0.0/;s/@GALOIS_VERSION_MAJOR@/6/;s/@GALOIS_VERSION_MINOR@/0/;s/@GALOIS_VERSION_PATCH@/0/;s/@GALOIS_COPYRIGHT_YEAR@/2018/' $WT/libgalois/src/Version.cpp.in > $TB/Version.cpp
(ls $WT/libgalois/src/*.cpp | grep -v HWTopoDarwin; echo $TB/Version.cpp) | xargs -P6 -I{} sh -c "g++ $FLAGS -c {} -o $TB/obj/\$(basename {} .cpp).o"
LIB=$TB/libgalois.a; rm -f $LIB; ar rcs $LIB $TB/obj/*.o
tests="barriers foreach oneach reduction sort gcollections gslist flatmap mem lock acquire twoleveliteratora move"
echo $tests | tr ' ' '\n' | xargs -P6 -I{} sh -c "g++ $FLAGS $WT/libgalois/test/{}.cpp -o $TB/{} $LIB -lnuma -lrt -ldl -lm -lpthread 2>/dev/null"
tfail=""
for t in $tests; do for n in 1 2 4; do GALOIS_DO_NOT_BIND_THREADS=1 timeout 120 $TB/$t $n >/dev/null 2>&1 || tfail="$tfail $t($n)"; done; done
git checkout -q -- .
rc_without=$(run_demo)
python3 - <<P
import json
json.dump(dict(property="$prop", source="independent sub-agent in scratch worktree /tmp/wt/$id (saw only the property text)",
  demo_rc_with_patch=int("$rc_with" or -1), demo_rc_without_patch=int("$rc_without" or -1),
  unit_tests_run="$tests (1,2,4 threads)", unit_tests_failing_with_patch="$tfail".strip(),
  confirmed=(int("$rc_with" or 0)!=0 and int("$rc_without" or 1)==0 and "$tfail".strip()==""),
  needs=open("$D/notes.txt").read()[:1500]), open("$S/meta.json","w"), indent=1)
P
echo "CONFIRM $prop-m$sk demo_with=$rc_with demo_without=$rc_without tests_failing='$tfail'"
