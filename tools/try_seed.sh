#!/bin/bash
# usage: try_seed.sh <patch.diff> <CHECK-ID> [tier]   -- applies a seeded change to /repo, runs the check, reverts
set -u
patch=$1; id=$2; tier=${3:-quick}
cd /repo || exit 2
if ! git apply --check "$patch" 2>/dev/null; then echo "SEED $patch: does not apply"; exit 3; fi
git apply "$patch"
cd /verif && timeout 3000 ./check "$id" --tier "$tier" > /tmp/seed_out.$$ 2>&1; rc=$?
git -C /repo checkout -- . 
nviol=$(grep -c "^VIOLATION" /tmp/seed_out.$$)
echo "SEED $patch check=$id rc=$rc violations=$nviol"
grep -m3 "what:" /tmp/seed_out.$$ | cut -c1-300
[ $rc -ne 0 ] && [ $rc -ne 1 ] && tail -5 /tmp/seed_out.$$
rm -f /tmp/seed_out.$$
