#!/bin/bash
# usage: try_seed.sh <patch.diff> <CHECK-ID> [tier]
# Applies a seeded change to a dedicated scratch worktree of /repo (so that /repo itself stays clean for
# development), runs the check against it with its own build directory, and reverts.
patch=$1; id=$2; tier=${3:-quick}
SLOT=${SLOT:-}
SR=/tmp/wt/seedrepo$SLOT
if [ ! -d $SR/.git ] && [ ! -f $SR/.git ]; then git -C /repo worktree add --detach $SR HEAD >/dev/null 2>&1 || { echo "cannot create $SR"; exit 4; }; fi
cd $SR || { echo "no $SR"; exit 4; }
[ "$(pwd)" = "$SR" ] || exit 4
git checkout -q --detach "$(git -C /repo rev-parse HEAD)" && git checkout -q -- . || exit 4
if ! git apply --check "$patch" 2>/dev/null; then echo "SEED $patch: does not apply"; exit 3; fi
git apply "$patch" || exit 3
cp /verif/evidence/$id.json /tmp/seed_ev.$$ 2>/dev/null
( cd /verif && VERIF_REPO=$SR VERIF_BUILD=/tmp/wt/seedbuild$SLOT timeout 3000 ./check "$id" --tier "$tier" > /tmp/seed_out.$$ 2>&1 ); rc=$?
git -C $SR checkout -q -- .
# the evidence file written by this run describes the mutated tree: put the previous one back
[ -f /tmp/seed_ev.$$ ] && mv /tmp/seed_ev.$$ /verif/evidence/$id.json
nviol=$(grep -c "^VIOLATION" /tmp/seed_out.$$)
echo "SEED $patch check=$id rc=$rc violations=$nviol"
grep -m3 "what:" /tmp/seed_out.$$ | cut -c1-300
[ $rc -ne 0 ] && [ $rc -ne 1 ] && tail -5 /tmp/seed_out.$$
rm -f /tmp/seed_out.$$
