#!/usr/bin/env python3
"""Regenerates /verif/MANIFEST.json from the table below (single source of truth) and
validates it against the schema when jsonschema is available."""
import json, os, subprocess, sys
V = os.path.dirname(os.path.dirname(os.path.abspath(__file__)))

HOOK_COMMITS = ["78aed6a", "56754b2", "ddb4534"]

# id -> dict(level, text, note, technique, engine, design_ref)  (only built checks)
CLAIMED = {
 "C13": dict(
   category="model_checking",
   text="Divide.tla transcribes every division routine; TLC checks Partition for ALL inputs in the small scope "
        "(design level), TLAPS proves block_range's partition theorems for all naturals (30 obligations), and the "
        "real routines (block_range on 7 iterator/integer kinds, divideNodesBinarySearch with weights/scale factors/"
        "offsets, the four unit-range entry points, FileGraph/OfflineGraph division, SpecificRange on pool threads) "
        "are called on the exhaustive small scope + seeded random + 64-bit extremes and every returned call group "
        "is judged by TLC against the Partition predicate (trace validation).",
   note="Trusted: TLC/TLAPS, the NDJSON logging in harness/src/divide.cpp, g++. block_range beyond the 64-bit "
        "overflow threshold is outside the claim. Exact agreement with the transcription is reported as drift, "
        "not as a violation.",
   technique="TLA+ functional specification + TLC exhaustive small-scope + TLAPS proof + TLC trace validation of real calls",
   engine="mc+tlaps+seqreplay+tv", design_ref="6/C13"),
 "C14": dict(
   category="model_checking",
   text="ContainersAbs.tla gives every container its abstract data type (sequence, bounded multiset, priority queue, set, "
        "map, optional slots) as the set of allowed (result, next state) pairs; the real containers (gdeque, FixedSizeRing/"
        "Bag incl. the concurrent bag, gslist, flat_map, PODResizeableArray, MinHeap family, InsertBag, LazyArray/Object/"
        "optional, two-level iterators, LargeArray) are driven through ALL operation sequences to a depth bound at chunk "
        "sizes 1-4 plus seeded random walks, with an instance-tracking element type; TLC walks the recorded history tree "
        "(one state per real operation) and judges result, forward and backward traversal and life-cycle counters.",
   note="Trusted: TLC, the adapters in harness/src/containers.cpp (they only forward calls and traverse through the public "
        "API). Depth/width bounds as listed in the evidence; histories beyond them are sampled, not enumerated.",
   technique="TLA+ abstract data types + TLC trace validation over an exhaustively enumerated history tree of the real containers",
   engine="mc+seqreplay+tv", design_ref="6/C14"),
 "C15": dict(
   category="model_checking",
   text="Collections.tla defines the sequential meaning (fold, set algebra, partition) and transcribes the bitset range-reset "
        "mask arithmetic, which TLC proves equal to 'clear begin..end' for all ranges of 9 sizes; MCAtomicOps model-checks the "
        "CAS loops (incl. spurious failure) for 3 threads; the real reducers (all kinds x int/long/unsigned/float/double, +=/-=, "
        "reset), bitset, atomic helpers, union-find, per-thread containers and insert bags run on 1-8 real pool threads "
        "(exhaustive small multisets x thread assignments + seeded random with perturbation) and TLC judges every scenario.",
   note="Trusted: TLC, harness logging. Schedules of the real runs are sampled; exhaustive interleaving coverage is at the "
        "model level. Dyadic floating-point values only.",
   technique="TLA+ functional/abstract specification + TLC model checking of CAS loops + TLC trace validation of real multi-threaded runs",
   engine="mc+free+tv", design_ref="6/C15"),
 "C16": dict(
   category="model_checking",
   text="PSTLAbs.tla gives the std:: meaning of sort/partition/count_if/find_if/accumulate/map_reduce/partial_sum/destroy over "
        "run-length encoded sequences; PPartition.tla model-checks partition's block-claiming protocol (all boolean inputs of "
        "length 7-9, block size 2, 2-3 threads, all interleavings, termination) and distinguishes the pinned and a partially "
        "repaired final step from the repaired one; the real algorithms run on 1-16 pool threads on boundary shapes (empty, "
        "1023/1024/1025, all-equal, all-pass/all-fail blocks), random run words and random arrays, partition also under "
        "controlled schedules, and TLC judges every call record from its input and output.",
   note="Trusted: TLC, harness logging and the harness-side std:: comparison for random inputs. Schedules other than "
        "partition's are sampled. Identity arguments only for accumulate/map_reduce.",
   technique="TLA+ abstract specification + TLC model checking of the partition protocol + TLC trace validation of real runs (free and controlled schedules)",
   engine="mc+free+ctl+tv", design_ref="6/C16"),
 "C11": dict(
   category="model_checking",
   text="StaticAbs.tla defines what a static graph must present (exact out-edges in file order for the CSR/linear/inline layouts, "
        "bags for morph-LC, in-edge and transpose bags, sorted views as sorted permutations, exact lookup answers, degrees, local "
        "ranges that partition the nodes); CSRTranspose.tla model-checks the count / prefix / fetch-and-add transpose for all graphs "
        "with 3-4 nodes and 4-5 edges and all interleavings (and rejects a non-atomic claim); every layout and option (LC_CSR +numa/"
        "no-lockable/out-of-line, CSR_CSC shared/by-value, InOut, Linear, InlineEdge, Morph-LC; void/int/uint64 edge data; "
        "readGraph, readGraphFromGRFile, user arrays) is built on 1-8 threads from independently written files and TLC judges "
        "every view, lookup table, degree vector and range list.",
   note="Trusted: TLC, the harness's independent .gr writer and logging, the in-harness rule copy for the few large graphs. "
        "Builder schedules are sampled.",
   technique="TLA+ abstract graph specification + TLC model checking of the concurrent transpose + TLC trace validation of real constructions",
   engine="mc+free+tv", design_ref="6/C11"),
 "C12": dict(
   category="model_checking",
   text="FileFormat.tla fixes the .gr layout (header, index, 32/64-bit destinations, version 1 padding, edge data offsets, sub-range "
        "slices) and ConvertAbs.tla the meaning of 17 graph-convert conversions over abstract graphs (edge-list/CSV/DIMACS parsing with "
        "skipped lines and inferred node count, list output, transpose, symmetrise, clean, sort by destination/weight, random weights in "
        "range, endian swap). FileGraphWriter and toFile are byte-compared with an independent writer for both versions, void/4/8-byte "
        "data, odd and even edge counts; fromFile, fromFileInterleaved, partFromFile at every split, OCFileGraph segments, OfflineGraph "
        "and BufferedGraph (whole/partial) are dumped; graph-convert, built from the working tree, runs on generated inputs and its "
        "outputs are parsed by an independent Python reader. TLC judges every record.",
   note="Trusted: TLC, the two independent layout implementations (C++ and Python), logging. Ids/weights below 2^31. Other "
        "graph-convert modes and the huge/dist converters are out of scope.",
   technique="TLA+ layout and conversion specification + TLC trace validation of real writer/reader/converter runs against independent codecs",
   engine="free+tv", design_ref="6/C12"),
 "C17": dict(
   category="model_checking",
   text="SerializeAbs.tla gives the wire size of a value from its shape and the round-trip condition (equal value, exactly the "
        "produced bytes consumed, following data intact); NetAbs.tla is the channel semantics (FIFO per source/destination/tag, "
        "exactly once, drained at the host barrier); NetBuffered.tla model-checks aggregation by tag prefix, non-atomic assemble, "
        "MPI FIFO, head-of-line blocked receive and message splitting for 2-3 concurrent senders (safety + delivery liveness, and "
        "rejects an assemble that ignores tag boundaries). The real gSerialize/gDeserialize run on every compilable type at all 8 "
        "buffer alignments with fresh and used targets; the real NetworkInterfaceBuffered runs under mpirun with 1-4 hosts, 1-4 "
        "sender threads, 1 B - 3 MB messages, several tags and phases; TLC judges every record and replays the merged logs.",
   note="Trusted: TLC, harness logging, payload pattern check in the harness, Open MPI. Send order on one channel is fixed by a "
        "harness lock. Schedules are sampled on the real code, exhaustive on the model.",
   technique="TLA+ wire-format and channel specification + TLC model checking of the aggregation protocol + TLC trace validation of real MPI runs",
   engine="mc+free+tv", design_ref="6/C17"),
 "C18": dict(
   category="model_checking",
   text="GluonAbs.tla defines the outcome of a sync (readable proxies hold Reduce(master's previous value, all contributions since the last "
        "sync); untouched nodes keep their values); Gluon.tla model-checks reduce + broadcast with unordered message arrival over two "
        "consecutive syncs for min and add fields and arbitrary eligible/readable proxy sets (and rejects a sync that does not reset "
        "mirrors). The real GluonSubstrate runs under mpirun on 1-4 hosts for all 16 CuSP policy variants: rounds over all nine "
        "write/read location pairs, min/add/max, bitset on/off, all five enforced encodings, update densities 0-100%, add fields also "
        "across two syncs; values before the operator, contributions and values after the sync are logged and TLC replays them.",
   note="Trusted: TLC, harness logging, Open MPI. Bulk-synchronous only; message orders sampled on the real code, exhaustive on the model.",
   technique="TLA+ specification of sync outcomes + TLC model checking of the reduce/broadcast protocol + TLC trace validation of real multi-host MPI runs",
   engine="mc+free+tv", design_ref="6/C18"),
 "C19": dict(
   category="model_checking",
   text="PartitionAbs.tla states the joint promises of a partitioning (edges with data exactly once, one consistently named master per "
        "node, unique in-range local ids with inverse maps, masters before mirrors, mirror lists = proxies mastered at the peer, "
        "edge-cut placement). The real CuSP partitioner runs under mpirun on 1-4 hosts for 16 policy/orientation variants on random "
        "graphs (isolated nodes, skew, self loops, parallel edges, fewer nodes than hosts, symmetric inputs); every host dumps its local "
        "graph through the public DistGraph API and TLC judges the merged dumps.",
   note="Trusted: TLC, harness dumping, the Python .gr writer. Small graphs (<= 13 nodes). Vertex-cut specific placement is not constrained.",
   technique="TLA+ partition specification + TLC model checking of the edge-exchange protocol + TLC trace validation of real multi-host partitioner runs",
   engine="mc+free+tv", design_ref="6/C19"),
 "C20": dict(
   category="model_checking",
   text="AppsAbs.tla defines the correct answers mathematically over small graphs (Bellman-Ford hop / weighted distances, connected "
        "components, Kruskal forest weight and size, triangle and k-core counts, existence of a maximal independent set of the reported "
        "size, max-flow = min-cut, maximum bipartite matching = minimum vertex cover). bfs, sssp, connected-components, Boruvka, "
        "triangles, k-core, independent set, preflow-push and bipartite matching are built from the working tree and run on generated "
        "graphs (disconnected, self loops, parallel edges, skew, weights 0-1000) with every algorithm variant, serial/parallel and 1-8 "
        "threads; what they print is parsed and TLC judges every result; crashes, hangs and failed self-verification are violations.",
   note="Trusted: TLC, output parsing. Graphs have at most 9 nodes (plus hub graphs with a thousand nodes for bfs/sssp). Distributed bfs/sssp/cc/"
        "k-core run under mpirun on 1-4 hosts (Sync and Async) and their complete output is judged; PageRank is compared with an integer "
        "fixed-point iteration within 0.07 + 2% per node; results of the CPU applications are observed through printed summaries only.",
   technique="TLA+ functional specification of the answers + TLC trace validation of real application runs over all algorithm variants",
   engine="free+tv", design_ref="6/C20"),
 "C05": dict(
   category="model_checking",
   text="Each barrier (counting, MCS tree, dissemination, topology-aware for 6 socket layouts, the condition-variable "
        "'simple' barrier) is an implementation-level PlusCal model with one label per shared access; TLC checks "
        "PhaseSeparation and termination of all threads for every interleaving of 3-6 threads x 2-3 phases. The real "
        "barriers (all six + the system barrier) run on pool threads under the controlled scheduler (every atomic/mutex/"
        "condvar operation and spin iteration is a scheduling point; seeded random and PCT schedules; synthetic topologies "
        "1x16, 2x2, 3+1, 4x1; proven-deadlock detection), with jitter and free-running up to 8 threads, through reinit "
        "sequences with changing counts; every arrive/depart log is validated by TLC against BarrierAbs.",
   note="Trusted: TLC, the controlled runtime (harness/runtime), POSIX barrier contract for the pthread barrier. "
        "Real-code schedules are sampled (not exhaustive); exhaustiveness is at the model level.",
   technique="PlusCal/TLA+ implementation models checked by TLC + controlled-schedule execution of the real barriers + TLC trace validation",
   engine="mc+ctl+free+tv", design_ref="6/C05"),
 "C01": dict(
   category="model_checking",
   text="ForEachAbs.tla states work conservation over operator-level events (Start only of a pending, not running, not committed "
        "item; only Commit adds an attempt's pushes; Return only when nothing is pending or running); conflict aborts, which "
        "leave no event, are inferred by the specification. The real galois::for_each runs generated operator programs (fan-out "
        "trees, overlapping neighbourhoods, pushes before/after the last acquire, voluntary aborts) with every shipped worklist "
        "type (31 parameterisations), with and without conflict detection, 1-4 threads under the controlled scheduler on four "
        "socket topologies (proven-deadlock / step-limit detection for 'always returns'), and 1-8 threads with jitter and free-"
        "running; TLC validates every log against ForEachAbs. A sanity model of ForEachAbs is model-checked.",
   note="Trusted: TLC, controlled runtime, the harness operator (harness/include/vh/foreach_harness.h). Real schedules are "
        "sampled; operators are cautious. Known findings: BulkSynchronous+conflict detection loses work (D9-lost), ctx.abort() with "
        "one thread crashes (D11).",
   technique="TLA+ abstract specification + controlled-schedule / free execution of the real for_each + TLC trace validation with inferred aborts",
   engine="mc+ctl+free+tv", design_ref="6/C01"),
 "C02": dict(
   category="model_checking",
   text="LockMgr.tla models try_lock/fetch_or/setValue/getOwner/unlock_and_clear, the neighbourhood list and commit/cancel with one "
        "label per shared access; TLC checks AtMostOneOwner, AbortReleasesAll, NoneOwnedAtEnd and Serialisable for all interleavings "
        "of 3 iterations x 2 objects (2.5M states). On the real code the for_each logs (as C01, executions with conflict detection) "
        "are validated against ForEachAbs: an attempt can lose an object only if it aborts, per-object non-commutative update logs "
        "equal the commit order, foreign ownership stamps and corrupted per-iteration blocks are rejected, and every lockable is "
        "probed free after the loop.",
   note="Trusted: TLC, controlled runtime, harness operator. Release points are not observable from the operator; the "
        "specification releases at the commit event (sound, slightly weaker).",
   technique="PlusCal/TLA+ model of the lock manager checked by TLC + TLC trace validation of real for_each executions",
   engine="mc+ctl+free+tv", design_ref="6/C02"),
 "C04": dict(
   category="model_checking",
   text="TermRing and TermTree model LocalTerminationDetection / TreeTerminationDetection with one label per shared access, composed "
        "with a work-ledger environment (work handed to threads that already reported idle, threads becoming busy after passing the "
        "token); TLC checks NoEarlyAnnounce, BoundedAnnounce (<= 4n-2 token hops after quiescence, tight for n = 2, 3) and termination "
        "under fairness, plus a vacuity guard (the mutant that ignores workHappened must violate NoEarlyAnnounce). The real detectors "
        "(system ring detector, tree detector instantiated directly) run the ledger program on pool threads: controlled schedules, "
        "jitter, free; two consecutive loops with re-arming to another thread count; logs validated against TerminationAbs.",
   note="Trusted: TLC, controlled runtime, the ledger program's adherence to the executor's reporting contract. The hop bound is a model-level "
        "result; on the real code liveness is 'every loop returns'.",
   technique="PlusCal/TLA+ models checked by TLC + controlled-schedule execution of the real detectors + TLC trace validation",
   engine="mc+ctl+free+tv", design_ref="6/C04"),
 "C08": dict(
   category="model_checking",
   text="ForEachAbs carries RoundSeparation (bulk-synchronous: nothing of an earlier round uncommitted at a start) and "
        "NoPriorityInversion (OBIM with the barrier option, ascending and descending, monotone programs) besides conservation; the real "
        "for_each with BulkSynchronous (2 containers) and OBIM/AdaptiveOBIM variants runs under controlled schedules on five topologies "
        "(leader/non-leader asymmetry), jitter and free; logs carry levels and are validated by TLC.",
   note="Trusted as C01. Known finding: BulkSynchronous with conflict detection (aborted item of round r retried after round r+1 started; lost children).",
   technique="TLA+ abstract specification with level rules + TLC trace validation of real level-synchronous for_each executions",
   engine="ctl+free+tv", design_ref="6/C08"),
 "C03": dict(
   category="model_checking",
   text="DoAll.tla models the per-thread shared range under work_mutex, chunk grabbing from the front, half/all stealing under "
        "try_lock, the in-flight window and assignWork, and the exit without termination detection; ThreadPool.tla models the binary "
        "wake-up cascade and done-flag de-cascade over sequences of regions with changing thread counts; TLC checks exactly-once / "
        "join for all interleavings (2-3 threads) plus two mutant vacuity guards. The real do_all (integer, vector, list, forward "
        "iterator, InsertBag local ranges; chunk sizes 1..4096; steal on/off; sizes 0..10^4 incl. non-multiples), on_each and "
        "ThreadPool::run sequences (incl. burnPower fast mode) run under controlled schedules on four topologies, jitter and free; "
        "per-element / per-thread counters and the join counter are judged by TLC against DoAllAbs.",
   note="Trusted: TLC, controlled runtime, the counters in harness/src/doall.cpp. Pool wake-up through mutex/condvar runs outside the "
        "controlled region (free) -- its model is checked exhaustively instead.",
   technique="PlusCal/TLA+ models checked by TLC + controlled-schedule / free execution of the real loops + TLC evaluation of recorded summaries",
   engine="mc+ctl+free+tv", design_ref="6/C03"),
 "C06": dict(
   category="model_checking",
   text="HB.tla specifies C++11 happens-before as vector clocks honouring each operation's requested memory_order (release sequences "
        "through RMWs, relaxed stores ending them, mutex lock/unlock, a global clock over-approximating the seq_cst order). The prelude "
        "interposes std::atomic/mutex/condition_variable at compile time and records, in one total order, every synchronisation "
        "operation of real executions (serialised free-running threads and controlled schedules): lock hand-over for SimpleLock, PtrLock, "
        "PaddedLock, ThreadRWlock (with occupancy counters for exclusion), arrive->depart for six barriers, lockable hand-over and "
        "worklist push->pop inside for_each, entry to and return from on_each/do_all/for_each/pool.run in both pool modes; harness-"
        "declared plain accesses must be ordered by the clocks TLC computes (NoRace). SpinLock.tla (mutual exclusion, NoRace, admission "
        "under fairness, all interleavings of 3 threads) takes its memory orders from the recorded stream of the real lock.",
   note="Trusted: TLC, the prelude/stream recorder. DRF argument: race-freedom of SC interleavings under the declared orders; non-SC executions "
        "are not enumerated; atomic_thread_fence and __sync builtins are not interposed.",
   technique="TLA+ vector-clock happens-before specification + TLC trace validation of recorded operation streams + TLC model of the spin lock with orders extracted from the code",
   engine="mc+ctl+free+tv", design_ref="6/C06"),
 "C07": dict(
   category="model_checking",
   text="Determ.tla models the inspect-phase marking protocol of the deterministic executor (take a free object, steal by CAS a mark "
        "held by a larger id and flag the loser, flag oneself when the mark belongs to a smaller id); for ALL neighbourhood assignments "
        "of 3 items x 2 objects and all interleavings TLC shows that the ready set at the barrier equals Winners(ids, neighbourhoods) "
        "-- a function of the input -- and that ready contexts never share an object (plus a mutant vacuity guard). The real executor "
        "(wl<Deterministic<>>, with and without det_id) runs generated programs with non-commutative per-object logs and dynamic work "
        "creation, each program 4-5 times on 1-8 threads under controlled schedules (2 topologies), jitter and free, with inputs below "
        "and above the minimum window; every run is validated against ForEachAbs (conservation, isolation) and all runs of a program "
        "must report identical per-object commit sequences (TraceDeterm).",
   note="Trusted: TLC, controlled runtime, harness operator. fixed_neighborhood / local_state / det_parallel_break / intent_to_read variants are not "
        "exercised; det_id ids are distinct.",
   technique="PlusCal/TLA+ model of the marking protocol checked by TLC + TLC trace validation of repeated real runs (equality of outcomes across runs)",
   engine="mc+ctl+free+tv", design_ref="6/C07"),
 "C10": dict(
   category="model_checking",
   text="MorphAbs.tla is the serial graph abstract data type (live nodes + one edge multiset; out-, in- and symmetric views are derived "
        "from it, so reverse entries exist together and share data, no edge reaches a removed node, every live node/edge is yielded "
        "once). Sequential histories on five flavours (directed, in/out, undirected, sorted neighbours, no-lockable) are dumped through "
        "the public API after every operation; mutation programs (add/remove node, add edge with duplicate check, multi-edge, remove, "
        "find, data updates over overlapping node sets) run inside the real for_each with default conflict flags under controlled "
        "schedules (2 topologies), jitter and free; the operator logs each mutator while it still owns what it touched; TLC replays "
        "the commit log on MorphAbs and compares every result and the structural dumps (Serialisable).",
   note="Trusted: TLC, the dump code in harness/src/morph.cpp. Parallel edges carry one constant datum; removed nodes are not re-added. Known findings: "
        "self loops on undirected and in/out graphs (D13).",
   technique="TLA+ abstract graph ADT + TLC trace validation (acceptance by reaching the end of each execution) of sequential and concurrent real executions",
   engine="seqreplay+ctl+free+tv", design_ref="6/C10"),
 "C09": dict(
   category="model_checking",
   text="AllocAbs.tla is the map of live blocks with NonNull, LargeEnough, Aligned(g), Disjoint (against every live block of any allocator, hence "
        "reuse only after free), FreeOfLive and Clear. The real fixed-size heaps, power-of-two block heap, variable-size bump heap (both allocate "
        "forms), per-iteration bump+malloc heap, page pool, per-thread storage objects and large arrays are driven by sequential histories "
        "over boundary sizes (1, 7, 8, 9, ..., page-8, page, > page, size-class edges; the first operation on a fresh or cleared heap) and by "
        "concurrent mixes on 1-8 threads with blocks handed to other threads for freeing; canaries are re-checked; TLC replays every history "
        "on AllocAbs (addresses split into two words).",
   note="Trusted: TLC, the address/canary bookkeeping of harness/src/alloc.cpp. NUMA placement not observable (one node). Concurrent schedules sampled.",
   technique="TLA+ live-interval specification + TLC model checking of the page-pool and per-thread-storage allocators + TLC trace validation of real allocation histories",
   engine="mc+seqreplay+free+ctl+tv", design_ref="6/C09"),
}

NOT_YET = "check not built yet in this round (specification and harness planned in DESIGN.md section 6); not claimed"
NOT_APPLICABLE = {}

def main():
    props = [json.loads(l) for l in open(os.path.join(V, "properties.jsonl"))]
    checks, na = [], []
    for p in props:
        pid = p["id"]
        if pid in CLAIMED:
            c = CLAIMED[pid]
            checks.append(dict(
                property_id=pid,
                quick_cmd="./check %s --tier quick" % pid,
                thorough_cmd="./check %s --tier thorough" % pid,
                evidence_file="/verif/evidence/%s.json" % pid,
                replay_cmd_template="./check %s --replay {path}" % pid,
                engine=c["engine"],
                level_claimed=dict(category=c["category"], text=c["text"], design_ref=c["design_ref"]),
                level_note=c["note"], technique=c["technique"]))
        else:
            na.append(dict(property_id=pid, reason=NOT_APPLICABLE.get(pid, NOT_YET)))
    man = dict(
        version=1,
        setup_cmd="./check setup",
        hooks=dict(guard="GALOIS_VERIF",
                   enable="harness/Makefile compiles /repo/libgalois/src/*.cpp and the harness programs with -DGALOIS_VERIF "
                          "(flavour F) and additionally through harness/runtime/verif_prelude.h (flavour C) into /verif/build",
                   baseline_off_cmd="./check baseline",
                   source_commits=HOOK_COMMITS, add_only=True),
        engines=[
            dict(name="mc", path="tools/vlib/common.py:tlc", serves_properties=sorted(CLAIMED), kind_free_text="TLC exhaustive / simulation on specs/*/MC*.tla"),
            dict(name="tv", path="tools/vlib/tv.py", serves_properties=sorted(CLAIMED), kind_free_text="TLC trace validation of NDJSON logs of the real code (specs/*/Trace*.tla)"),
            dict(name="seqreplay", path="harness/src", serves_properties=sorted(CLAIMED), kind_free_text="C++ drivers calling the real routines/containers operation by operation"),
        ],
        checks=checks,
        not_applicable=na,
        notes="Exit codes: 0 held, 1 VIOLATION, 2 internal error of the machinery (never a verdict). Known findings: known_findings.json.")
    with open(os.path.join(V, "MANIFEST.json"), "w") as f:
        json.dump(man, f, indent=1)
    try:
        import jsonschema
        jsonschema.validate(man, json.load(open("/root/.vp/MANIFEST.schema.json")))
        print("MANIFEST.json valid; claimed:", sorted(CLAIMED))
    except ImportError:
        print("jsonschema not available; wrote MANIFEST.json unvalidated")

if __name__ == "__main__":
    main()
