#!/usr/bin/env python3
"""Regenerates /verif/MANIFEST.json from the table below (single source of truth) and
validates it against the schema when jsonschema is available."""
import json, os, subprocess, sys
V = os.path.dirname(os.path.dirname(os.path.abspath(__file__)))

HOOK_COMMITS = ["78aed6a", "56754b2", "ddb4534"]

# id -> dict(level, text, note, technique, engine, design_ref)  (only built checks)
CLAIMED = {
 "C13": dict(
   category="model_checking",
   text="Divide.tla transcribes every division routine; TLC checks Partition for ALL inputs in the small scope "
        "(design level), TLAPS proves block_range's partition theorems for all naturals (30 obligations), and the "
        "real routines (block_range on 7 iterator/integer kinds, divideNodesBinarySearch with weights/scale factors/"
        "offsets, the four unit-range entry points, FileGraph/OfflineGraph division, SpecificRange on pool threads) "
        "are called on the exhaustive small scope + seeded random + 64-bit extremes and every returned call group "
        "is judged by TLC against the Partition predicate (trace validation).",
   note="Trusted: TLC/TLAPS, the NDJSON logging in harness/src/divide.cpp, g++. block_range beyond the 64-bit "
        "overflow threshold is outside the claim. Exact agreement with the transcription is reported as drift, "
        "not as a violation.",
   technique="TLA+ functional specification + TLC exhaustive small-scope + TLAPS proof + TLC trace validation of real calls",
   engine="mc+tlaps+seqreplay+tv", design_ref="6/C13"),
 "C14": dict(
   category="model_checking",
   text="ContainersAbs.tla gives every container its abstract data type (sequence, bounded multiset, priority queue, set, "
        "map, optional slots) as the set of allowed (result, next state) pairs; the real containers (gdeque, FixedSizeRing/"
        "Bag incl. the concurrent bag, gslist, flat_map, PODResizeableArray, MinHeap family, InsertBag, LazyArray/Object/"
        "optional, two-level iterators, LargeArray) are driven through ALL operation sequences to a depth bound at chunk "
        "sizes 1-4 plus seeded random walks, with an instance-tracking element type; TLC walks the recorded history tree "
        "(one state per real operation) and judges result, forward and backward traversal and life-cycle counters.",
   note="Trusted: TLC, the adapters in harness/src/containers.cpp (they only forward calls and traverse through the public "
        "API). Depth/width bounds as listed in the evidence; histories beyond them are sampled, not enumerated.",
   technique="TLA+ abstract data types + TLC trace validation over an exhaustively enumerated history tree of the real containers",
   engine="mc+seqreplay+tv", design_ref="6/C14"),
 "C15": dict(
   category="model_checking",
   text="Collections.tla defines the sequential meaning (fold, set algebra, partition) and transcribes the bitset range-reset "
        "mask arithmetic, which TLC proves equal to 'clear begin..end' for all ranges of 9 sizes; MCAtomicOps model-checks the "
        "CAS loops (incl. spurious failure) for 3 threads; the real reducers (all kinds x int/long/unsigned/float/double, +=/-=, "
        "reset), bitset, atomic helpers, union-find, per-thread containers and insert bags run on 1-8 real pool threads "
        "(exhaustive small multisets x thread assignments + seeded random with perturbation) and TLC judges every scenario.",
   note="Trusted: TLC, harness logging. Schedules of the real runs are sampled; exhaustive interleaving coverage is at the "
        "model level. Dyadic floating-point values only.",
   technique="TLA+ functional/abstract specification + TLC model checking of CAS loops + TLC trace validation of real multi-threaded runs",
   engine="mc+free+tv", design_ref="6/C15"),
 "C05": dict(
   category="model_checking",
   text="Each barrier (counting, MCS tree, dissemination, topology-aware for 6 socket layouts, the condition-variable "
        "'simple' barrier) is an implementation-level PlusCal model with one label per shared access; TLC checks "
        "PhaseSeparation and termination of all threads for every interleaving of 3-6 threads x 2-3 phases. The real "
        "barriers (all six + the system barrier) run on pool threads under the controlled scheduler (every atomic/mutex/"
        "condvar operation and spin iteration is a scheduling point; seeded random and PCT schedules; synthetic topologies "
        "1x16, 2x2, 3+1, 4x1; proven-deadlock detection), with jitter and free-running up to 8 threads, through reinit "
        "sequences with changing counts; every arrive/depart log is validated by TLC against BarrierAbs.",
   note="Trusted: TLC, the controlled runtime (harness/runtime), POSIX barrier contract for the pthread barrier. "
        "Real-code schedules are sampled (not exhaustive); exhaustiveness is at the model level.",
   technique="PlusCal/TLA+ implementation models checked by TLC + controlled-schedule execution of the real barriers + TLC trace validation",
   engine="mc+ctl+free+tv", design_ref="6/C05"),
}

NOT_YET = "check not built yet in this round (specification and harness planned in DESIGN.md section 6); not claimed"
NOT_APPLICABLE = {}

def main():
    props = [json.loads(l) for l in open(os.path.join(V, "properties.jsonl"))]
    checks, na = [], []
    for p in props:
        pid = p["id"]
        if pid in CLAIMED:
            c = CLAIMED[pid]
            checks.append(dict(
                property_id=pid,
                quick_cmd="./check %s --tier quick" % pid,
                thorough_cmd="./check %s --tier thorough" % pid,
                evidence_file="/verif/evidence/%s.json" % pid,
                replay_cmd_template="./check %s --replay {path}" % pid,
                engine=c["engine"],
                level_claimed=dict(category=c["category"], text=c["text"], design_ref=c["design_ref"]),
                level_note=c["note"], technique=c["technique"]))
        else:
            na.append(dict(property_id=pid, reason=NOT_APPLICABLE.get(pid, NOT_YET)))
    man = dict(
        version=1,
        setup_cmd="./check setup",
        hooks=dict(guard="GALOIS_VERIF",
                   enable="harness/Makefile compiles /repo/libgalois/src/*.cpp and the harness programs with -DGALOIS_VERIF "
                          "(flavour F) and additionally through harness/runtime/verif_prelude.h (flavour C) into /verif/build",
                   baseline_off_cmd="./check baseline",
                   source_commits=HOOK_COMMITS, add_only=True),
        engines=[
            dict(name="mc", path="tools/vlib/common.py:tlc", serves_properties=sorted(CLAIMED), kind_free_text="TLC exhaustive / simulation on specs/*/MC*.tla"),
            dict(name="tv", path="tools/vlib/tv.py", serves_properties=sorted(CLAIMED), kind_free_text="TLC trace validation of NDJSON logs of the real code (specs/*/Trace*.tla)"),
            dict(name="seqreplay", path="harness/src", serves_properties=sorted(CLAIMED), kind_free_text="C++ drivers calling the real routines/containers operation by operation"),
        ],
        checks=checks,
        not_applicable=na,
        notes="Exit codes: 0 held, 1 VIOLATION, 2 internal error of the machinery (never a verdict). Known findings: known_findings.json.")
    with open(os.path.join(V, "MANIFEST.json"), "w") as f:
        json.dump(man, f, indent=1)
    try:
        import jsonschema
        jsonschema.validate(man, json.load(open("/root/.vp/MANIFEST.schema.json")))
        print("MANIFEST.json valid; claimed:", sorted(CLAIMED))
    except ImportError:
        print("jsonschema not available; wrote MANIFEST.json unvalidated")

if __name__ == "__main__":
    main()
