"""C12 graph files and conversions: FileFormat.tla is the on-disk layout (section offsets, padding,
sub-range slices), ConvertAbs.tla the meaning of each graph-convert conversion over abstract graphs.
(1) harness/src/gfile.cpp: library writers byte-compared with an independent writer (both versions,
void/4/8-byte data, odd/even edge counts) and every reader (fromFile, fromFileInterleaved, partFromFile at
every split, OCFileGraph, OfflineGraph, BufferedGraph whole/partial) dumped; (2) graph-convert built from the
working tree is run on generated text and binary inputs and its outputs are parsed by an independent Python
reader (tools/vlib/grfile.py).  TLC judges every record (TraceGFile.tla)."""
import os, json, random, shutil, subprocess, concurrent.futures as cf
from vlib.common import *
from vlib import tv, grfile

LEVEL = "model_checking"
SP = os.path.join(SPECS, "graphs")
ET = {"void": 0, "uint32": 4, "uint64": 8}
GR2GR = ["gr2tgr", "gr2sgr", "gr2cgr", "gr2sorteddstgr", "gr2sortedweightgr", "gr2randomweightgr", "gr2biggr"]
NEEDS_DATA = {"gr2sortedweightgr", "gr2randomweightgr", "gr2biggr", "gr2dimacs", "dimacs2gr"}


def is_graph(line):
    return line.startswith('{"k":"graph"') or line.startswith('{"k": "graph"')


def gen_graph(rng):
    n = rng.randrange(1, 9)
    shape = rng.randrange(6)
    m = 0 if shape == 0 else rng.randrange(0, 3 * n + 1)
    adj = [[] for _ in range(n)]
    for _ in range(m):
        s, d = rng.randrange(n), rng.randrange(n)
        if shape == 1: s = rng.randrange(1 + n // 4)
        if shape == 2: d = rng.randrange(1 + n // 4)
        if shape == 3 and rng.random() < .5: d = s
        if shape == 4 and adj[s] and rng.random() < .5: d = adj[s][-1][0]
        adj[s].append([d, rng.randrange(1, 10)])
    if rng.random() < .5 and sum(len(a) for a in adj) % 2 == 0:
        adj[rng.randrange(n)].append([rng.randrange(n), 5])
    return adj


def run_gc(args, timeout=120):
    try:
        p = subprocess.run([fbin("graph-convert")] + args, stdout=subprocess.PIPE, stderr=subprocess.STDOUT, timeout=timeout,
                           env=dict(os.environ, GALOIS_DO_NOT_BIND_THREADS="1"))
        return p.returncode, p.stdout.decode("utf-8", "replace")[-400:]
    except subprocess.TimeoutExpired:
        return 124, "timeout"


def parse_list(path, dimacs=False):
    """edge list / dimacs text -> (list of [s,d,w], n, m)"""
    L, n, m = [], -1, -1
    for line in open(path):
        t = line.split()
        if not t:
            continue
        if dimacs:
            if t[0] == "p":
                n, m = int(t[-2]), int(t[-1]); continue
            if t[0] != "a":
                continue
            t = t[1:]
        L.append([int(t[0]), int(t[1]), int(t[2]) if len(t) > 2 else 0])
    return L, n, m


def text_input(rng, adj, void, csv):
    """an edge-list text for the edges of adj (sources interleaved, file order kept within a source) with decorations;
    returns (text, abstract lines)"""
    sep = "," if csv else " "
    queues = [[(s, d, w) for d, w in a] for s, a in enumerate(adj)]
    lines, text = [], []
    if csv:
        text.append("src,dst,weight\n")
    while any(queues):
        s = rng.choice([i for i, q in enumerate(queues) if q])
        s, d, w = queues[s].pop(0)
        r = rng.random()
        if r < .10:
            text.append(rng.choice(["# comment %d %d\n" % (s, d), "\n", "   \n", "% x\n", "abc 1 2\n"])); lines.append([1, 0, 0, 0])
        if r > .92:   # a line without weight column: an edge only for void edge types
            text.append("%d%s%d\n" % (s, sep, d)); lines.append([2, s, d, 0])
        eol = "\r\n" if rng.random() < .15 else "\n"
        extra = (sep + "77") if rng.random() < .1 else ""
        pad = "  " if (rng.random() < .1 and not csv) else ""
        text.append("%s%d%s%d%s%d%s%s" % (pad, s, sep, d, sep, w, extra, eol)); lines.append([0, s, d, w])
    if rng.random() < .3 and text and not text[-1].endswith("\r\n"):
        text[-1] = text[-1].rstrip("\n")       # no newline at end of file
    return "".join(text), lines


def convert_cases(ev, scratch, ngraphs):
    rng = random.Random(ev.seed * 7919 + 12)
    recs, jobs = [], []
    gid = 100000
    for k in range(ngraphs):
        adj = gen_graph(rng)
        et = ["uint32", "void", "uint64"][k % 3]
        sz = ET[et]
        if sz == 0:
            adj = [[[d, 0] for d, w in a] for a in adj]
        gid += 1
        n, m = len(adj), sum(len(a) for a in adj)
        base = os.path.join(scratch, "g%d" % gid)
        grfile.write_gr(base + ".gr", adj, sz)
        group = [dict(k="graph", g=gid, et=et, n=n, m=m, big=0, adj=adj)]
        cases = []
        for mode in GR2GR:
            if sz == 0 and mode in NEEDS_DATA:
                continue
            extra = ["-minValue=3", "-maxValue=7"] if mode == "gr2randomweightgr" else []
            cases.append((mode, ["-" + mode, "-edgeType=" + et] + extra + [base + ".gr", base + "." + mode], base + "." + mode, None))
        kdeg = rng.randrange(0, 4)
        cases.append(("gr2lowdegreegr", ["-gr2lowdegreegr", "-edgeType=" + et, "-maxDegree=%d" % kdeg, base + ".gr", base + ".low"], base + ".low", None))
        cases.append(("gr2sorteddegreegr", ["-gr2sorteddegreegr", "-edgeType=" + et, "-outputNodePermutation=" + base + ".perm", base + ".gr", base + ".sdeg"], base + ".sdeg", None))
        if sz:
            cases.append(("gr2mtx", ["-gr2mtx", "-edgeType=" + et, base + ".gr", base + ".gr2mtx"], base + ".gr2mtx", None))
            with open(base + ".mtx.txt", "w") as f:
                f.write("%%MatrixMarket matrix coordinate real general\n% generated\n")
                f.write("%d %d %d\n" % (n, n, m))
                qs = [[(s_, d, w) for d, w in a] for s_, a in enumerate(adj)]
                while any(qs):
                    s_ = rng.choice([i for i, q in enumerate(qs) if q]); s_, d, w = qs[s_].pop(0)
                    f.write("%d %d %d\n" % (s_ + 1, d + 1, w))
            cases.append(("mtx2gr", ["-mtx2gr", "-edgeType=" + et, base + ".mtx.txt", base + ".mtx2gr"], base + ".mtx2gr", None))
        for mode in ["gr2edgelist", "gr2edgelist1ind", "gr2dimacs"]:
            if sz == 0 and mode in NEEDS_DATA:
                continue
            cases.append((mode, ["-" + mode, "-edgeType=" + et, base + ".gr", base + "." + mode], base + "." + mode, None))
        for mode in ["edgelist2gr", "csv2gr"]:
            text, lines = text_input(rng, adj, sz == 0, mode == "csv2gr")
            open(base + "." + mode + ".txt", "w", newline="").write(text)
            cases.append((mode, ["-" + mode, "-edgeType=" + et, base + "." + mode + ".txt", base + "." + mode], base + "." + mode, lines))
        if sz:
            with open(base + ".dimacs.txt", "w") as f:
                f.write("c generated\np sp %d %d\n" % (n, m))
                qs = [[(s, d, w) for d, w in a] for s, a in enumerate(adj)]
                while any(qs):
                    s = rng.choice([i for i, q in enumerate(qs) if q]); s, d, w = qs[s].pop(0)
                    if rng.random() < .1: f.write("c note\n")
                    f.write("a %d %d %d\n" % (s + 1, d + 1, w))
            cases.append(("dimacs2gr", ["-dimacs2gr", "-edgeType=" + et, base + ".dimacs.txt", base + ".dimacs2gr"], base + ".dimacs2gr", None))
        jobs.append((group, et, sz, cases))

    def do(job):
        group, et, sz, cases = job
        out = list(group)
        for mode, args, outp, lines in cases:
            rc, msg = run_gc(args)
            r = dict(k="conv", g=group[0]["g"], mode=mode, et=et, void=1 if sz == 0 else 0, failed=0, rc=rc)
            try:
                if rc != 0:
                    raise ValueError("exit code %d: %s" % (rc, msg[-200:]))
                if mode in ("gr2edgelist", "gr2edgelist1ind"):
                    r["list"] = parse_list(outp)[0]
                elif mode == "gr2dimacs":
                    r["list"], r["n"], r["m"] = parse_list(outp, dimacs=True)
                elif mode == "gr2mtx":
                    rows = [l.split() for l in open(outp) if l.strip() and not l.startswith("%")]
                    r["n"], r["m"] = int(rows[0][0]), int(rows[0][2])
                    r["list"] = [[int(t[0]), int(t[1]), int(float(t[2]))] for t in rows[1:]]
                else:
                    g = grfile.read_gr(outp, big_endian_data=(mode == "gr2biggr"))
                    if g["trailing"] != 0:
                        raise ValueError("%d trailing bytes" % g["trailing"])
                    r["adj"], r["n"] = g["adj"], g["n"]
                    if mode == "gr2randomweightgr":
                        r["lo"], r["hi"] = 3, 7
                    if mode == "gr2lowdegreegr":
                        r["maxdeg"] = int([a for a in args if a.startswith("-maxDegree=")][0].split("=")[1])
                    if mode == "gr2sorteddegreegr":
                        pm = {}
                        for l in open([a for a in args if a.startswith("-outputNodePermutation=")][0].split("=", 1)[1]):
                            o, nw = l.strip().split(","); pm[int(o)] = int(nw)
                        r["perm"] = [pm[i] for i in range(len(pm))]
                if lines is not None:
                    r["lines"] = lines
            except Exception as e:
                r["failed"] = 1; r["why"] = str(e)[:300]
            out.append(r)
        return out
    with cf.ThreadPoolExecutor(max_workers=NCPU) as ex:
        for out in ex.map(do, jobs):
            recs += out
    return recs


def run(ev, vd):
    make(fbin("gfile"), fbin("graph-convert"))
    tr = os.path.join(BUILD, "tmp", "gfile.ndjson")
    scratch = os.path.join(BUILD, "tmp", "gfile_files_%d" % os.getpid())
    shutil.rmtree(scratch, ignore_errors=True)
    os.makedirs(scratch, exist_ok=True)
    if os.path.exists(tr + ".crash"):
        os.remove(tr + ".crash")
    rc, out, dt = sh([fbin("gfile"), tr, str(ev.seed), tier(), scratch], timeout=3000, env={"GALOIS_DO_NOT_BIND_THREADS": "1"})
    crash = open(tr + ".crash").read().strip() if os.path.exists(tr + ".crash") else ""
    if rc != 0 or crash:
        rec = {}
        try:
            rec = json.loads(crash.splitlines()[0])
        except Exception:
            pass
        vd.violation(dict(component=rec.get("reader", "gfile"), op="crash", version=rec.get("version", 0)),
                     "graph file harness %s (rc=%d) in %s: %s" % ("did not return from a read within its watchdog" if rec.get("sig") == 14 else "crashed", rc, rec.get("reader", "?"), (crash or out[-300:])[:400]), dict(record=rec, out=out[-1500:]))
    recs = convert_cases(ev, scratch, 120 if tier() == "thorough" else 36)
    shutil.rmtree(scratch, ignore_errors=True)
    with open(tr, "a") as f:
        for r in recs:
            f.write(json.dumps(r, separators=(",", ":")) + "\n")
    res = tv.validate_sharded(os.path.join(SP, "TraceGFile.tla"), tr, timeout=1500, group_start=is_graph)
    ev.cov["traces_validated_against_impl"] += res["records"] - len(res["rejects"])
    ev.cov["states"] += res["states"]
    ev.cov["transitions"] += res["generated"]
    lines = open(tr).read().splitlines()
    kinds = {}
    for i, line in enumerate(lines):
        rec = json.loads(line)
        k = rec["k"] + ":" + str(rec.get("reader", rec.get("via", rec.get("mode", ""))))
        kinds[k] = kinds.get(k, 0) + 1
        ev.distinct(line, nontrivial=rec["k"] in ("read", "conv", "write"))
        if i % 397 == 11:
            ev.sample({k2: v for k2, v in rec.items() if k2 not in ("adj", "lines", "list")})
    ev.cov["records_by_kind"] = kinds
    ev.cov["rule"] = ("one record per (graph, writer | reader x node range | conversion); graphs: random graphs with <= 10 nodes (empty, isolated, "
                      "self loops, parallel edges, skewed, odd and even edge counts) logged completely and judged by TLC, plus a few with "
                      "1500-4000 nodes judged inside the harness; both format versions, void/4/8-byte edge data; text inputs with comments, "
                      "blank and garbage lines, CR-LF, extra and missing weight columns, id gaps, no final newline")
    for g, info in sorted(res["rejects"]):
        rec = json.loads(lines[g])
        j = g
        while j >= 0 and not is_graph(lines[j]):
            j -= 1
        grec = json.loads(lines[j]) if j >= 0 else {}
        if rec["k"] == "conv":
            sig = dict(component="graph-convert", op=rec["mode"], void=rec.get("void", 0))
            what = "graph-convert -%s (-edgeType=%s) does not produce the documented graph: %s" % (rec["mode"], rec.get("et"), lines[g][:300])
        else:
            sig = dict(component=rec.get("reader", rec.get("via", rec["k"])).split(":")[0], op=rec["k"], version=rec.get("version", 0))
            what = "%s (format version %s, %s-byte edge data): file and graph disagree: %s" % (sig["component"], rec.get("version"), rec.get("sz"), lines[g][:300])
        vd.violation(sig, what, dict(record=rec, graph=grec))
    ev.assumptions += [
        "node ids and weights stay below 2^31 (TLC integers); 'very large ids' are not exercised",
        "OCFileGraph is exercised on version 1 files only (it asserts version 1)",
        "conversions covered: edgelist2gr, csv2gr, dimacs2gr, mtx2gr, gr2edgelist, gr2edgelist1ind, gr2dimacs, gr2mtx, gr2tgr, gr2sgr, gr2cgr, gr2sorteddstgr, "
        "gr2sortedweightgr, gr2randomweightgr, gr2biggr, gr2lowdegreegr, gr2sorteddegreegr; the remaining modes (pbbs, rmat, partitioning, other orderings, ring/tree overlays, "
        "graph-convert-huge, graph-remap, dist-graph-convert) are not",
        "FileGraphWriter can only produce version 2 for more than 2^32 nodes; version 2 writing is covered through toFile of a version 2 graph"]
    ev.cov["engines"] = ["free", "tv"]


def replay(path):
    b = json.load(open(path))
    rec, grec = b["bundle"].get("record"), b["bundle"].get("graph")
    if not rec or rec.get("k") == "crash" or not grec:
        log("replay: recorded crash: %s" % json.dumps(b["bundle"])[:1500])
        return 1
    tr = os.path.join(BUILD, "tmp", "gfile_replay.ndjson")
    with open(tr, "w") as f:
        f.write(json.dumps(grec, separators=(",", ":")) + "\n" + json.dumps(rec, separators=(",", ":")) + "\n")
    res = tv.validate_sharded(os.path.join(SP, "TraceGFile.tla"), tr, nshards=1)
    log("replay: recorded %s %s by specification" % (rec["k"], "REJECTED" if res["rejects"] else "accepted"))
    log(json.dumps(rec)[:2000])
    return 1 if res["rejects"] else 0
