"""C01 for_each conserves work: every shipped worklist policy, with and without conflict
detection, under controlled schedules on four socket topologies, jitter and free runs; each
operator-level log is validated by TLC against ForEachAbs (ExactlyOnce, NoWorkFromAborted,
ReturnOnlyWhenDone; non-return = proven deadlock / step limit)."""
import os, json
from vlib.common import *
from vlib import fe, conc, tv

LEVEL = "model_checking"


def probe_single_thread_abort(ev, vd):
    """ctx.abort() with one thread: a separate process because the loop may crash."""
    out = os.path.join(BUILD, "tmp", "fe_probe1.ndjson")
    rc, o, dt = conc.run_harness(cbin("foreach_a"), [out, 1, "quick", "probe1", "ChunkFIFO<1>"], timeout=120)
    ev.cov["probe_single_thread_voluntary_abort_rc"] = rc
    if rc != 0:
        vd.violation(dict(component="for_each", op="crash", mode_class="probe1", wlfamily="ChunkFIFO"),
                     "for_each with 1 thread and conflict detection: an operator calling ctx.abort() crashes the loop (rc=%s)" % rc,
                     dict(cmd=[cbin("foreach_a"), out, 1, "quick", "probe1", "ChunkFIFO<1>"]))
    else:
        res = tv.validate_sharded(os.path.join(fe.SP, "TraceForEach.tla"), out, nshards=1)
        for g, info in res["rejects"]:
            vd.violation(dict(component="for_each", op=(info or "").strip('"'), mode_class="probe1", wlfamily="ChunkFIFO"),
                         "single-thread voluntary abort: %s" % info, dict())


def run(ev, vd):
    r = tlc(os.path.join(fe.SP, "MCForEachAbs.tla"), workers=NCPU, timeout=1500)
    ev.add_tlc("MCForEachAbs", r)
    if not r.ok:
        raise ToolError("ForEachAbs sanity model violates %s\n%s" % (r.violation, brief(r.out)))
    # implementation-shaped models (with mutants): the speculative executor loop (try-lock, abort the requester, discard its pushes,
    # retry from the abort queue, commit), and the two worklist families most executions run on: chunked per-socket
    # worklists (publish / steal / fall back to the unpublished chunk) and OBIM (lazily shared priority bags, back-scan prevention)
    for mod, cfgs, mutant in (("MCForEachExec", ["MCForEachExec.cfg"], "MCForEachExec_mutant.cfg"),
                              ("MCChunkWL", ["MCChunkWL.cfg"], "MCChunkWL_mutant.cfg"),
                              ("Obim", ["Obim.cfg"] + (["Obim_thorough.cfg"] if tier() == "thorough" else []), "Obim_mutant.cfg"),
                              # StableIterator: private range + published steal range under a lock (mutant: the owner skips the lock)
                              ("StableIter", ["StableIter.cfg"], "StableIter_mutant.cfg")):
        for cfg in cfgs:
            r = tlc(os.path.join(fe.SP, mod + ".tla"), cfg=os.path.join(fe.SP, cfg), workers=NCPU, timeout=3000, heap="16g")
            ev.add_tlc(cfg, r)
            if not r.ok:
                raise ToolError("%s (%s) violates %s\n%s" % (mod, cfg, r.violation, brief(r.out)))
        r = tlc(os.path.join(fe.SP, mod + ".tla"), cfg=os.path.join(fe.SP, mutant), workers=NCPU, timeout=900)
        if r.ok:
            raise ToolError("%s does not distinguish its mutant (vacuous model?)" % mod)
    tr, res, hangs = fe.campaign(ev, ["foreach_a", "foreach_b", "foreach_c"], fe.STD_JOBS, "c01")
    execs = fe.summarize(ev, tr)
    rej = fe.report(ev, vd, tr, res, hangs, "C01")
    ev.cov["traces_validated_against_impl"] = execs - rej
    probe_single_thread_abort(ev, vd)
    ev.cov["rule"] = ("one execution = one galois::for_each over a generated operator program (fan-out tree, overlapping "
                      "neighbourhoods, pushes before/after the last acquire, voluntary aborts) with one worklist type, thread count, "
                      "conflict-detection setting and schedule; distinct = (worklist, mode, topology, cd, threads, seed); non-trivial = "
                      ">= 2 threads and >= 2 items")
    ev.assumptions += ["operators are cautious (all acquires before the first write)",
                       "the deterministic executor is covered by C07", "priority order without the barrier option is a hint (not judged)"]
    ev.cov["engines"] = ["mc", "ctl", "free", "tv"]


def replay(path):
    b = json.load(open(path))["bundle"]
    log(json.dumps(b.get("reset"))[:1500])
    for e in b.get("execution", [])[-80:]:
        log("  " + json.dumps(e))
    return 1
