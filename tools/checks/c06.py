"""C06 locks exclude; promised edges are happens-before.  (i) SpinLock.tla: mutual exclusion,
race-freedom of the protected data and admission for all interleavings, with the memory orders
EXTRACTED from the operation stream of the real SimpleLock (a weakened order in the sources
weakens the model).  (ii) The complete synchronisation-operation streams (requested
memory_order of every atomic / mutex operation, one total order) of real executions of the
locks, all barriers, for_each (lockable hand-over, worklist push->pop) and loop entry/exit,
together with harness-declared plain accesses, are replayed on HB.tla (vector clocks computed by
the specification): a plain access not ordered by happens-before is a violation."""
import os, json, collections, concurrent.futures as cf
from vlib.common import *
from vlib import tv, conc

LEVEL = "model_checking"
SP = os.path.join(SPECS, "runtime")


def extract_orders(trace):
    """memory orders used by SimpleLock in the real stream: CAS (RMW), unlock (store), slow-path spin load."""
    cas, unlock, spin = collections.Counter(), collections.Counter(), collections.Counter()
    inscn = False
    with open(trace) as f:
        for line in f:
            if '"ev"' in line:
                r = json.loads(line)
                inscn = r.get("ev") == "reset" and r.get("scn") == "lock:SimpleLock"
                continue
            if not inscn:
                continue
            r = json.loads(line)
            if r["k"] == 2: cas[r["mo"]] += 1
            elif r["k"] == 1: unlock[r["mo"]] += 1
            elif r["k"] == 0 and r["mo"] != 0: spin[r["mo"]] += 1
    def weakest(c, default):
        return min(c) if c else default
    return dict(MoCas=weakest(cas, 4), MoUnlock=weakest(unlock, 3), MoSpinLoad=weakest(spin, 2)), dict(cas=dict(cas), unlock=dict(unlock), spin=dict(spin))


def run(ev, vd):
    make(cbin("hb"))
    jobs = [("ctl", None), ("ctl", "2x2"), ("serial", None), ("serial", "2x2")]

    def job(j):
        k, (mode, topo) = j
        out = os.path.join(BUILD, "tmp", "hb_%d.ndjson" % k)
        rc, o, dt = conc.run_harness(cbin("hb"), [out, ev.seed * 100 + k, tier(), mode], topo=topo, timeout=(900 if tier() == "thorough" else 400))
        return j, out, rc, o
    with cf.ThreadPoolExecutor(max_workers=4) as ex:
        results = list(ex.map(job, list(enumerate(jobs))))
    paths = []
    for (k, (mode, topo)), out, rc, o in results:
        if rc in (124, -9, 137):
            vd.violation(dict(component="hb", op="hang-" + mode), "hb harness (%s) did not finish (a lock never admitted a requester?)" % mode, dict(mode=mode))
        elif rc not in (0, 43, 44):
            raise ToolError("hb harness failed rc=%s (%s):\n%s" % (rc, mode, o[-1500:]))
        paths.append(out)
    # (o) implementation-shaped models of the pointer lock (CAS fast path, spin + fetch_or slow path) and of the per-thread
    # reader/writer lock (writers take all slots in a fixed order), each with the mutant its protocol protects against
    for mod in ("PtrLock", "RWLock"):
        r0 = tlc(os.path.join(SP, mod + ".tla"), cfg=os.path.join(SP, mod + ".cfg"), workers=8, timeout=900)
        ev.add_tlc(mod + ".cfg", r0)
        if not r0.ok:
            raise ToolError("%s violates %s" % (mod, r0.violation))
        r0 = tlc(os.path.join(SP, mod + ".tla"), cfg=os.path.join(SP, mod + "_mutant.cfg"), workers=8, timeout=900)
        if r0.ok:
            raise ToolError("%s does not distinguish its mutant (vacuous model?)" % mod)
    # (i) model with extracted orders
    orders, raw = extract_orders(paths[0])
    ev.cov["memory_orders_extracted_from_code"] = dict(orders=orders, observed=raw)
    cfgp = os.path.join(BUILD, "tmp", "SpinLock_extracted.cfg")
    with open(os.path.join(SP, "SpinLock.cfg")) as f:
        cfg = f.read()
    for k, v in orders.items():
        cfg = __import__("re").sub(r"%s = \d+" % k, "%s = %d" % (k, v), cfg)
    with open(os.path.join(SP, "SpinLock_extracted.cfg"), "w") as f:
        f.write(cfg)
    try:
        r = tlc(os.path.join(SP, "SpinLock.tla"), cfg="SpinLock_extracted.cfg", workers=8, timeout=900)
    finally:
        os.remove(os.path.join(SP, "SpinLock_extracted.cfg"))
    ev.add_tlc("SpinLock(extracted orders)", r)
    model_race = (not r.ok)
    if model_race:
        log("SpinLock model with the orders extracted from the code (%s) violates %s" % (orders, r.violation))
    # (ii) streams
    tr = os.path.join(BUILD, "tmp", "hb_all.ndjson")
    n = conc.cat(paths, tr)
    res = tv.validate_sharded(os.path.join(SP, "TraceHB.tla"), tr, group_start=conc.is_reset, timeout=2400)
    ev.cov["states"] += res["states"]; ev.cov["transitions"] += res["generated"]
    execs, scn = 0, {}
    with open(tr) as f:
        for line in f:
            if conc.is_reset(line):
                execs += 1
                r = json.loads(line)
                key = "%s/%s" % (r["scn"], r["mode"])
                scn[key] = scn.get(key, 0) + 1
                ev.distinct((r["scn"], r["threads"], r["mode"], r["seed"]), nontrivial=r["threads"] >= 2)
                if execs % 97 == 1:
                    ev.sample(r)
    ev.cov["executions"] = execs; ev.cov["operations"] = n; ev.cov["executions_by_scenario_mode"] = scn
    ev.cov["traces_validated_against_impl"] = execs - len(res["rejects"])
    ev.cov["rule"] = ("one execution = one scenario (lock hand-over for 4 lock types, 6 barriers, 5 loop entry/exit forms in both pool "
                      "modes, for_each with 4 worklists) on 2-6 threads under one schedule; its complete operation stream is replayed; "
                      "distinct = (scenario, threads, mode, seed); non-trivial = >= 2 threads")
    lock_race_seen = False
    for g, info in sorted(res["rejects"]):
        rs, exn = conc.context(tr, g)
        reason = (info or "").strip('"')
        if rs["scn"].startswith("lock:"):
            lock_race_seen = True
        sig = dict(component="hb:" + rs["scn"], op=reason)
        vd.violation(sig, "scenario %s (threads %d, mode %s): %s at operation %s -- a promised synchronisation edge is not happens-before "
                     "under the requested memory orders (or mutual exclusion failed)" % (rs["scn"], rs["threads"], rs["mode"], reason, json.dumps(exn[-1])),
                     dict(reset=rs, tail=exn[-120:]))
    if model_race and not lock_race_seen:
        # verdict rule 2: the model's counterexample must reproduce on the real code
        raise ToolError("SpinLock model (orders %s) violates %s but no real lock stream shows it: model/extraction wrong" % (orders, r.violation))
    ev.assumptions += ["race-freedom of the sequentially consistent interleavings under the declared orders (DRF argument); non-SC executions are not enumerated",
                       "seq_cst operations are additionally ordered through one global clock (over-approximation: no false race reports)",
                       "std::atomic_thread_fence (one use, in the pool constructor) and __sync builtins are not interposed",
                       "relaxed hint reads that are meant to race (lock-free empty checks, getValue) are atomics, not plain data"]
    ev.cov["engines"] = ["mc", "ctl", "serial-stream", "tv"]


def replay(path):
    b = json.load(open(path))["bundle"]
    log(json.dumps(b.get("reset")))
    for e in b.get("tail", [])[-60:]:
        log("  " + json.dumps(e))
    return 1
