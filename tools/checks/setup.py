"""Offline setup after a fresh restore: build both harness flavours of libgalois from
/repo's working tree and SANY-parse every specification."""
import os, glob, concurrent.futures as cf
from vlib.common import *


def run():
    os.makedirs(os.path.join(BUILD, "tmp"), exist_ok=True)
    os.makedirs(EVID, exist_ok=True)
    t = make("libF")
    log("flavour F libgalois built in %.0fs" % t)
    if os.path.exists(os.path.join(V, "harness", "runtime", "verif_prelude.h")):
        t = make("libC")
        log("flavour C libgalois built in %.0fs" % t)
    # the distributed libraries, every harness program, graph-convert and the applications: later checks then find everything built
    t = make("libD")
    log("flavour D (libdist + libgluon) built in %.0fs" % t)
    fboth = ["alloc", "barriers", "collections", "doall", "foreach_a", "foreach_b", "foreach_c", "foreach_d", "morph", "pstl", "term"]
    fonly = ["containers", "divide", "gfile", "staticg"]
    conly = ["hb"]
    db = [os.path.splitext(os.path.basename(x))[0] for x in glob.glob(os.path.join(V, "harness", "dist", "*.cpp"))]
    apps = ["bfs", "sssp", "cc", "boruvka", "triangles", "kcore", "indset", "preflowpush", "mcm", "pagerank-pull", "pagerank-push"]
    dapps = ["bfs-push", "bfs-pull", "sssp-push", "sssp-pull", "cc-push", "cc-pull", "kcore-push", "kcore-pull"]
    t = make(*([fbin(b) for b in fboth + fonly] + [cbin(b) for b in fboth + conly] +
               [os.path.join(BUILD, "D", "bin", b) for b in db] + [fbin("graph-convert")] + [fbin("app-" + a) for a in apps] +
               [os.path.join(BUILD, "D", "bin", "dapp-" + a) for a in dapps]))
    log("harness programs, graph-convert and applications built in %.0fs" % t)
    mods = [m for m in sorted(glob.glob(os.path.join(SPECS, "*", "*.tla")))
            if "TLAPS" not in open(m).read()]   # proof modules are checked by tlapm in their check
    bad = []
    with cf.ThreadPoolExecutor(max_workers=NCPU) as ex:
        for m, (ok, out) in zip(mods, ex.map(sany, mods)):
            if not ok:
                bad.append(m); log("SANY failed: %s\n%s" % (m, out[-1500:]))
    log("SANY: %d modules parsed, %d failed" % (len(mods), len(bad)))
    return 2 if bad else 0
