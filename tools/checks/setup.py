"""Offline setup after a fresh restore: build both harness flavours of libgalois from
/repo's working tree and SANY-parse every specification."""
import os, glob, concurrent.futures as cf
from vlib.common import *


def run():
    os.makedirs(os.path.join(BUILD, "tmp"), exist_ok=True)
    os.makedirs(EVID, exist_ok=True)
    t = make("libF")
    log("flavour F libgalois built in %.0fs" % t)
    if os.path.exists(os.path.join(V, "harness", "runtime", "verif_prelude.h")):
        t = make("libC")
        log("flavour C libgalois built in %.0fs" % t)
    mods = [m for m in sorted(glob.glob(os.path.join(SPECS, "*", "*.tla")))
            if "TLAPS" not in open(m).read()]   # proof modules are checked by tlapm in their check
    bad = []
    with cf.ThreadPoolExecutor(max_workers=NCPU) as ex:
        for m, (ok, out) in zip(mods, ex.map(sany, mods)):
            if not ok:
                bad.append(m); log("SANY failed: %s\n%s" % (m, out[-1500:]))
    log("SANY: %d modules parsed, %d failed" % (len(mods), len(bad)))
    return 2 if bad else 0
