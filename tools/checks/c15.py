"""C15 reductions and concurrent collections: Collections.tla is the oracle (sequential fold /
set / partition semantics + transcription of the bitset range-reset mask arithmetic);
AtomicOps.tla model-checks the CAS loops; the real library is run on pool threads with seeded
perturbation (harness/src/collections.cpp) and every scenario record is judged by TLC."""
import os, json
from vlib.common import *
from vlib import tv

LEVEL = "model_checking"
SP = os.path.join(SPECS, "collections")


def component(rec):
    k = rec["k"]
    if k == "reduce":
        return "reduce:%s:%s" % (rec["kind"], rec["ty"])
    if k == "atomic":
        return "atomic:" + rec["kind"]
    return k


def tags(rec):
    t = []
    if rec["k"] == "reduce":
        if any(s < 0 for row in rec["sign"] for s in row):
            t.append("uses-=")
        flat = [v for row in rec["upd"] for v in row]
        if flat and all(v < 0 for v in flat):
            t.append("all-negative")
        if not flat:
            t.append("no-updates")
    return t


def run(ev, vd):
    make(fbin("collections"), cbin("collections"))
    for mod in ("MCBitsetReset", "MCAtomicOps"):
        p = os.path.join(SP, mod + ".tla")
        if not os.path.exists(p):
            continue
        r = tlc(p, workers=NCPU, timeout=900)
        ev.add_tlc(mod, r)
        if not r.ok:
            raise ToolError("design-level model %s violates %s:\n%s" % (mod, r.violation, r.out[-1500:]))
    # lock-free union-find (merge + incremental path compression), every load / store / CAS one step
    uf = os.path.join(SP, "MCUnionFind.tla")
    for cfg in ["MCUnionFind.cfg", "MCUnionFind_b.cfg", "MCUnionFind_c.cfg", "MCUnionFind_d_thorough.cfg", "MCUnionFind_e_thorough.cfg"] + (["MCUnionFind_f_thorough.cfg"] if tier() == "thorough" else []):
        r = tlc(uf, cfg=os.path.join(SP, cfg), workers=NCPU, timeout=1800)
        ev.add_tlc(cfg, r)
        if not r.ok:
            raise ToolError("UnionFind (%s) violates %s:\n%s" % (cfg, r.violation, r.out[-1500:]))
    for cfg, want in (("MCUnionFind_noorder.cfg", "Mono"), ("MCUnionFind_plainstore.cfg", "AtEnd")):
        r = tlc(uf, cfg=os.path.join(SP, cfg), workers=NCPU, timeout=900)
        if r.ok or r.violation != want:
            raise ToolError("UnionFind: %s should be rejected for %s, got %s (vacuous model?)" % (cfg, want, r.violation))
    tr = os.path.join(BUILD, "tmp", "collections.ndjson")
    rc, out, dt = sh([fbin("collections"), tr, str(ev.seed), tier()], timeout=1500)
    if rc != 0:
        vd.violation(dict(component="collections-harness", op="crash"),
                     "collections harness crashed rc=%d: %s" % (rc, out[-300:]), dict(out=out[-2000:]))
        return
    # controlled schedules over the CAS loops / concurrent collections (flavour C): every atomic operation is a scheduling point
    trc = os.path.join(BUILD, "tmp", "collections_ctl.ndjson")
    rc2, out2, dt2 = sh([cbin("collections"), trc, str(ev.seed), tier(), "ctl"], timeout=900, env={"GALOIS_DO_NOT_BIND_THREADS": "1"})
    if rc2 in (43, 44):
        vd.violation(dict(component="collections-ctl", op="hang"), "controlled run of the concurrent collections did not finish: %s" % out2[-300:], dict(out=out2[-1500:]))
    elif rc2 != 0:
        vd.violation(dict(component="collections-ctl", op="crash"), "collections harness (ctl) crashed rc=%d: %s" % (rc2, out2[-300:]), dict(out=out2[-1500:]))
    else:
        with open(tr, "a") as fa, open(trc) as fc:
            for line in fc:
                fa.write(line)
        ev.cov["ctl_records"] = sum(1 for _ in open(trc))
    res = tv.validate_sharded(os.path.join(SP, "TraceCollections.tla"), tr, timeout=1500)
    ev.cov["traces_validated_against_impl"] += res["records"] - len(res["rejects"])
    ev.cov["states"] += res["states"]
    ev.cov["transitions"] += res["generated"]
    kinds = {}
    with open(tr) as f:
        for i, line in enumerate(f):
            rec = json.loads(line)
            c = component(rec)
            kinds[c] = kinds.get(c, 0) + 1
            nt = rec.get("threads", 1) >= 2 or rec["k"] == "bitreset"
            ev.distinct(line, nontrivial=nt)
            if i % 7919 == 3:
                ev.sample(rec)
    ev.cov["records_by_component"] = kinds
    ev.cov["rule"] = ("one record per scenario executed on real pool threads (exhaustive small multisets x thread "
                      "assignments for every reducer kind/type, all (begin,end) of the bit-range table, seeded random larger "
                      "scenarios with perturbation); distinct = distinct records; non-trivial = at least two threads took "
                      "part or a bit-range case")
    bad = tv.read_lines(tr, [g for g, _ in res["rejects"]])
    for g, info in sorted(res["rejects"]):
        rec = json.loads(bad[g])
        sig = dict(component=component(rec), op=rec["k"], tags=tags(rec))
        vd.violation(sig, "%s disagrees with the sequential meaning: %s" % (component(rec), bad[g][:400]), dict(record=rec))
    ev.assumptions += [
        "floating-point updates are dyadic (multiples of 1/8) so folds are exact; order-dependence of inexact sums is out of scope",
        "max/min reduce() over no update at all is not constrained (only 'reset then one update' is)",
        "schedules are sampled (real threads, seeded perturbation), the CAS loops themselves are model-checked exhaustively for 2-3 threads",
        "libdist DReducible is exercised in the distributed checks"]
    ev.cov["engines"] = ["mc", "free", "tv"]


def replay(path):
    b = json.load(open(path))
    rec = b["bundle"]["record"]
    tr = os.path.join(BUILD, "tmp", "collections_replay.ndjson")
    with open(tr, "w") as f:
        f.write(json.dumps(rec) + "\n")
    res = tv.validate_sharded(os.path.join(SP, "TraceCollections.tla"), tr, nshards=1)
    log("replay: recorded scenario %s by specification" % ("REJECTED" if res["rejects"] else "accepted"))
    log(json.dumps(rec)[:2000])
    return 1 if res["rejects"] else 0
