"""C20 Lonestar applications: AppsAbs.tla defines the correct answers mathematically (Bellman-Ford distances, components,
Kruskal forest weight, triangle and k-core counts, existence of a maximal independent set of the reported size, max-flow =
min-cut, maximum bipartite matching = minimum vertex cover); the applications are built from the working tree and run on
generated small graphs with every selectable algorithm variant and 1-8 threads; what they print is parsed and TLC judges every
result (TraceApps.tla).  The distributed bfs / sssp / cc / k-core applications run under mpirun (1-4 hosts x partition policies x Sync/Async)
and their complete per-node output is judged the same way.  PageRank (pull and push variants) is compared with a fixed-point
iteration in TLA+ (six decimals) within 0.07 + 2% per node."""
import os, re, json, random, shutil, subprocess, concurrent.futures as cf
from vlib.common import *
from vlib import tv, grfile

LEVEL = "model_checking"
SP = os.path.join(SPECS, "apps")
APPS = ["bfs", "sssp", "cc", "boruvka", "triangles", "kcore", "indset", "preflowpush", "mcm", "pagerank-pull", "pagerank-push"]
DAPPS = ["bfs-push", "bfs-pull", "sssp-push", "sssp-pull", "cc-push", "cc-pull", "kcore-push", "kcore-pull"]
MPIRUN = ["mpirun", "--allow-run-as-root", "--oversubscribe", "--bind-to", "none"]


def dbin(name):
    return os.path.join(BUILD, "D", "bin", name)


def transpose(adj):
    t = [[] for _ in adj]
    for s_, a in enumerate(adj):
        for d, w in a:
            t[d].append([s_, w])
    return t


def run_dist(i, scratch, adj, app, hosts, policy, exe, threads, extra, bound=180, retry=True):
    """one distributed run; returns (rc, per-node values or None, tail)"""
    d = os.path.join(scratch, "d%d" % i)
    os.makedirs(os.path.join(d, "out"), exist_ok=True)
    grfile.write_gr(os.path.join(d, "g.gr"), adj, 4)
    grfile.write_gr(os.path.join(d, "g.tgr"), transpose(adj), 4)
    args = MPIRUN + ["-n", str(hosts), dbin("dapp-" + app), os.path.join(d, "g.gr"), "--graphTranspose=" + os.path.join(d, "g.tgr"), "--partition=" + policy,
                     "--exec=" + exe, "--output", "--outputLocation=" + os.path.join(d, "out"), "--runs=1", "-t=%d" % threads] + extra
    rc, out = 124, "timeout"
    for attempt in ((1, 3) if retry else (1,)):
        try:
            p = subprocess.run(args, stdout=subprocess.PIPE, stderr=subprocess.STDOUT, timeout=bound * attempt, env=dict(os.environ, GALOIS_DO_NOT_BIND_THREADS="1"))
            rc, out = p.returncode, p.stdout.decode("utf-8", "replace")
            break
        except subprocess.TimeoutExpired:
            for f in os.listdir(os.path.join(d, "out")):
                os.remove(os.path.join(d, "out", f))
    vals = {}
    dup = False
    for f in sorted(os.listdir(os.path.join(d, "out"))):
        for line in open(os.path.join(d, "out", f)):
            t = line.split()
            if len(t) >= 2:
                if int(t[0]) in vals:
                    dup = True
                vals[int(t[0])] = int(float(t[1]))
    shutil.rmtree(d, ignore_errors=True)
    ok = rc == 0 and not dup and sorted(vals) == list(range(len(adj)))
    return rc, ([norm(vals[v]) if app.startswith(("bfs", "sssp")) else vals[v] for v in range(len(adj))] if ok else None), out[-300:]


def dist_jobs(rng, thorough):
    jobs = []
    ng = 6 if thorough else 2
    pols = ["oec", "iec", "hovc", "hivc", "cvc", "cvc-iec", "ginger-o", "fennel-o", "sugar-o"] if thorough else ["oec", "iec", "cvc", "hivc"]
    for g in range(ng):
        adj = gen_directed(rng)
        while len(adj) < 3:
            adj = gen_directed(rng)
        for app in ("bfs-push", "bfs-pull", "sssp-push", "sssp-pull"):
            for hosts in (1, 2, 3, 4):
                for pol in (pols if hosts > 1 else ["oec"]):
                    for exe in ("Sync", "Async"):
                        src = rng.randrange(len(adj))
                        jobs.append((("dd", g), adj, app, hosts, pol, exe, 1 + rng.randrange(3), ["--startNode=%d" % src], dict(kind=app.split("-")[0], src=src)))
        # enforced wire encodings (--metadata) in both execution models; the dense encoding with Async is the recorded finding D17
        for md in ("bitset", "offsets", "gids", "none"):
            for exe in ("Sync", "Async"):
                if md == "none" and exe == "Async":
                    continue
                for app in ("bfs-push", "sssp-pull"):
                    src = rng.randrange(len(adj))
                    jobs.append((("dd", g), adj, app, 3, rng.choice(["oec", "cvc", "hivc"]), exe, 2, ["--startNode=%d" % src, "--metadata=" + md],
                                 dict(kind=app.split("-")[0], src=src, meta=md)))
        if g == 0:
            jobs.append((("dd", g), adj, "bfs-push", 3, "cvc", "Async", 2, ["--startNode=0", "--metadata=none"], dict(kind="bfs", src=0, meta="none", probe="d17")))
        adj = gen_symmetric(rng, simple=True, weighted=False)
        while len(adj) < 3:
            adj = gen_symmetric(rng, simple=True, weighted=False)
        for app in ("cc-push", "cc-pull", "kcore-push", "kcore-pull"):
            for hosts in (1, 2, 3, 4):
                for pol in (pols if hosts > 1 else ["oec"]):
                    for exe in ("Sync", "Async"):
                        kk = 1 + rng.randrange(3)
                        extra = ["--symmetricGraph"] + (["--kcore=%d" % kk] if app.startswith("kcore") else [])
                        jobs.append((("ds", g), adj, app, hosts, pol, exe, 1 + rng.randrange(3), extra, dict(kind=app.split("-")[0], kk=kk, src=0)))
    return jobs


def gen_directed(rng, zero_ok=True):
    n = rng.randrange(2, 9)
    shape = rng.randrange(5)
    m = rng.randrange(0, 3 * n + 1)
    adj = [[] for _ in range(n)]
    for _ in range(m):
        s, d = rng.randrange(n), rng.randrange(n)
        if shape == 1: s = rng.randrange(1 + n // 3)
        if shape == 2 and rng.random() < .3: d = s
        if shape == 3 and adj[s] and rng.random() < .4: d = adj[s][-1][0]
        w = rng.choice([0, 1, 1, 2, 3, 5, 9, 100, 1000]) if zero_ok else rng.randrange(1, 10)
        adj[s].append([d, w])
    return adj


def gen_symmetric(rng, simple, weighted=True):
    n = rng.randrange(1, 10)
    shape = rng.randrange(4)
    und = {}
    m = 0 if shape == 0 else rng.randrange(0, 2 * n + 2)
    for _ in range(m):
        a, b = rng.randrange(n), rng.randrange(n)
        if shape == 1: a = rng.randrange(1 + n // 3)
        if a == b:
            continue
        key = (min(a, b), max(a, b))
        und.setdefault(key, []).append(rng.randrange(1, 10) if weighted else 1)
    adj = [[] for _ in range(n)]
    for (a, b), ws in und.items():
        for w in (ws[:1] if simple else ws):
            adj[a].append([b, w]); adj[b].append([a, w])
    for a in adj:
        a.sort()
    return adj


def gen_bipartite(rng):
    a, b = rng.randrange(1, 6), rng.randrange(1, 6)
    adj = [[] for _ in range(a + b)]
    for u in range(a):
        for v in sorted(set(rng.randrange(b) for _ in range(rng.randrange(1, 4)))):
            adj[u].append([a + v, 1])
    return adj


def edges_of(adj):
    return [[s, d, w] for s, a in enumerate(adj) for d, w in a]


def run_app(app, args, path, timeout=120):
    for attempt in (1, 3):      # a run that does not finish is repeated once with three times the bound before it counts as a hang
        try:
            p = subprocess.run([fbin("app-" + app)] + args + [path], stdout=subprocess.PIPE, stderr=subprocess.STDOUT, timeout=timeout * attempt,
                               env=dict(os.environ, GALOIS_DO_NOT_BIND_THREADS="1"))
            return p.returncode, p.stdout.decode("utf-8", "replace")
        except subprocess.TimeoutExpired:
            pass
    return 124, "timeout"


def grab(pat, out, default=None):
    m = re.search(pat, out)
    return int(m.group(1)) if m else default


def norm(d):
    return -1 if d is None or d >= 1000000000 else d


def jobs_for(rng, thorough):
    """list of (graph-key, adj, app, args, record-template)"""
    jobs = []
    ng = 14 if thorough else 5
    T = [1, 4, 8] if thorough else [1, 4]
    for g in range(ng):
        adj = gen_directed(rng)
        n = len(adj)
        for algo in ["AsyncTile", "Async", "SyncTile", "Sync"]:
            for ex in ["SERIAL", "PARALLEL"]:
                for t in (T if ex == "PARALLEL" else [1]):
                    src = rng.randrange(n)
                    for node in ([v for v in range(n)] if algo == "Sync" and t == T[-1] else rng.sample(range(n), min(2, n))):
                        jobs.append((("d", g), adj, "bfs", ["--algo=" + algo, "--exec=" + ex, "-t=%d" % t, "--startNode=%d" % src, "--reportNode=%d" % node],
                                     dict(k="bfs", src=src, node=node, variant="%s/%s/t%d" % (algo, ex, t))))
        for algo in ["deltaTile", "deltaStep", "deltaStepBarrier", "serDeltaTile", "serDelta", "dijkstraTile", "dijkstra", "topo", "topoTile", "AutoAlgo"]:
            for t in T:
                for delta in ([0, 2, 13] if algo.startswith("delta") else [13]):
                    src = rng.randrange(n)
                    for node in ([v for v in range(n)] if algo == "deltaStep" and t == T[-1] and delta == 2 else rng.sample(range(n), 1)):
                        jobs.append((("d", g), adj, "sssp", ["--algo=" + algo, "--delta=%d" % delta, "-t=%d" % t, "--startNode=%d" % src, "--reportNode=%d" % node],
                                     dict(k="sssp", src=src, node=node, variant="%s/d%d/t%d" % (algo, delta, t))))
    # hub graphs: the start node has more out-edges than one edge tile of the tiled variants (256 for bfs, 512 for sssp), its edge
    # list is followed in the file by the edge lists of its neighbours, which lead to nodes two and three hops away
    for g in range(3 if thorough else 2):
        deg = rng.choice([257, 300, 511, 513, 700, 1025, 1300]) if g else 600
        n = deg + 1 + 40
        adj = [[] for _ in range(n)]
        for v in range(1, deg + 1):
            adj[0].append([v, rng.randrange(1, 10)])
        for v in range(1, 30):
            adj[v].append([deg + 1 + rng.randrange(40), rng.randrange(1, 10)])
        for v in range(deg + 1, n - 1):
            if rng.random() < .5:
                adj[v].append([v + 1, rng.randrange(1, 10)])
        far = [deg + 1 + rng.randrange(40) for _ in range(3)] + [1 + rng.randrange(deg)]
        for algo in ["AsyncTile", "Async", "SyncTile", "Sync"]:
            for ex in ["SERIAL", "PARALLEL"]:
                for t in ([4] if ex == "PARALLEL" else [1]):
                    for node in far:
                        jobs.append((("h", g), adj, "bfs", ["--algo=" + algo, "--exec=" + ex, "-t=%d" % t, "--startNode=0", "--reportNode=%d" % node],
                                     dict(k="bfs", src=0, node=node, variant="%s/%s/t%d" % (algo, ex, t))))
        for algo in ["deltaTile", "deltaStep", "serDeltaTile", "dijkstraTile", "topoTile"]:
            for node in far:
                jobs.append((("h", g), adj, "sssp", ["--algo=" + algo, "--delta=3", "-t=4", "--startNode=0", "--reportNode=%d" % node],
                             dict(k="sssp", src=0, node=node, variant="%s/d3/t4" % algo)))
    for g in range(ng):
        adj = gen_symmetric(rng, simple=False)
        for algo in ["Async", "EdgeAsync", "EdgetiledAsync", "BlockedAsync", "LabelProp", "Serial", "Sync", "Afforest", "EdgeAfforest", "EdgetiledAfforest"]:
            for t in T:
                jobs.append((("s", g), adj, "cc", ["--symmetricGraph", "--algo=" + algo, "-t=%d" % t], dict(k="cc", variant="%s/t%d" % (algo, t))))
        for t in (T + [2] if edges_of(adj) else []):     # (the application refuses a graph without edges)
            jobs.append((("s", g), adj, "boruvka", ["--symmetricGraph", "-t=%d" % t], dict(k="mst", variant="t%d" % t)))
    for g in range(ng):
        # triangle counting also on graphs with self loops (a loop is not part of any triangle)
        adj = gen_symmetric(rng, simple=True, weighted=False)
        for v in range(len(adj)):
            if rng.random() < .4:
                adj[v] = sorted(adj[v] + [[v, 1]])
        for algo in ["nodeiterator", "edgeiterator", "orderedCount"]:
            for t in T:
                for rel in ([], ["--relabel"]):
                    jobs.append((("ul", g), adj, "triangles", ["--symmetricGraph", "--algo=" + algo, "-t=%d" % t] + rel, dict(k="tri", variant="%s/t%d%s/loops" % (algo, t, "/relabel" if rel else ""))))
    for g in range(ng):
        adj = gen_symmetric(rng, simple=True, weighted=False)
        for algo in ["nodeiterator", "edgeiterator", "orderedCount"]:
            for t in T:
                for rel in ([], ["--relabel"]):
                    jobs.append((("u", g), adj, "triangles", ["--symmetricGraph", "--algo=" + algo, "-t=%d" % t] + rel, dict(k="tri", variant="%s/t%d%s" % (algo, t, "/relabel" if rel else ""))))
        for algo in ["Async", "Sync"]:
            for kk in (1, 2, 3):
                for t in T:
                    jobs.append((("u", g), adj, "kcore", ["--symmetricGraph", "--algo=" + algo, "--kcore=%d" % kk, "-t=%d" % t], dict(k="kcore", kk=kk, variant="%s/t%d" % (algo, t))))
        for algo in ["serial", "pull", "nondet", "detBase", "prio", "edgetiledprio"]:
            for t in T:
                jobs.append((("u", g), adj, "indset", ["--symmetricGraph", "--algo=" + algo, "-t=%d" % t], dict(k="indset", variant="%s/t%d" % (algo, t))))
    for g in range(ng):
        adj = gen_directed(rng, zero_ok=False)
        # the application requires adjacency lists without duplicates and without self loops
        adj = [sorted({d: [d, w] for d, w in a if d != s}.values()) for s, a in enumerate(adj)]
        n = len(adj)
        if n < 2:
            continue
        src, sink = 0, n - 1
        for var in [[], ["--detBase"], ["--detDisjoint"]]:
            for hl in ([], ["--useHLOrder"]):
                for t in T:
                    jobs.append((("f", g), adj, "preflowpush", ["--sourceNode=%d" % src, "--sinkNode=%d" % sink, "-t=%d" % t] + var + hl,
                                 dict(k="flow", src=src, sink=sink, variant="%s%s/t%d" % ("".join(var) or "nondet", "".join(hl), t))))
    for g in range(ng):
        # PageRank: pull variants read the transposed graph, push variants the graph itself; all ranks are printed (<= 9 nodes)
        adj = gen_directed(rng, zero_ok=False)
        for algo in ["Topo", "Residual"]:
            for t in T:
                jobs.append((("p", g), adj, "pagerank-pull", ["--algo=" + algo, "--transposedGraph", "-t=%d" % t], dict(k="pr", variant="pull/%s/t%d" % (algo, t), transposed=1, norm=1 if algo == "Topo" else 0)))
        for algo in ["Async", "Sync"]:
            for t in T:
                jobs.append((("p", g), adj, "pagerank-push", ["--algo=" + algo, "-t=%d" % t], dict(k="pr", variant="push/%s/t%d" % (algo, t), norm=0)))
    for g in range(ng):
        adj = gen_bipartite(rng)
        for algo in ["--pfpAlgo", "--ffAlgo", "--abmpAlgo"]:
            for ex in ["--serial", "--parallel"]:
                for t in (T if ex == "--parallel" else [1]):
                    jobs.append((("b", g), adj, "mcm", ["--inputType=fromFile", "--symmetricGraph", algo, ex, "-t=%d" % t], dict(k="mcm", variant="%s/%s/t%d" % (algo, ex, t))))
                    if algo != "--pfpAlgo":    # repeated rounds on what is left (the first round is judged; later rounds by the application's own verification)
                        jobs.append((("b", g), adj, "mcm", ["--inputType=fromFile", "--symmetricGraph", "--runIteratively", algo, ex, "-t=%d" % t],
                                     dict(k="mcm", variant="%s/%s/t%d/iter" % (algo, ex, t))))
    return jobs


def parse(app, rec, rc, out):
    r = dict(rec, failed=0, rc=rc)
    try:
        if rc != 0:
            raise ValueError("exit code %d" % rc)
        if re.search(r"[Vv]erification failed|verification failed|not verified", out):
            raise ValueError("the application's own verification failed")
        if app in ("bfs", "sssp"):
            m = re.search(r"Node (\d+) has distance (\d+)", out)
            if not m or int(m.group(1)) != rec["node"]:
                raise ValueError("no distance reported")
            r["dist"] = norm(int(m.group(2)))
            r["unvisited"] = grab(r"(\d+) unvisited nodes", out, 0)
            r["maxdist"] = grab(r"max dist: (\d+)", out, 0)
        elif app == "cc":
            r["total"] = grab(r"Total components: (\d+)", out); r["nontrivial"] = grab(r"Number of non-trivial components: (\d+)", out)
            r["largest"] = grab(r"largest size: (\d+)", out, 0)
            if r["total"] is None or r["nontrivial"] is None:
                raise ValueError("no component counts reported")
        elif app == "boruvka":
            r["weight"] = grab(r"MST weight: (\d+)", out); r["trees"] = grab(r"Num trees: (\d+)", out); r["edges"] = grab(r"Tree edges: (\d+)", out)
            if None in (r["weight"], r["trees"], r["edges"]):
                raise ValueError("no forest reported")
        elif app == "triangles":
            r["count"] = grab(r"Num ?Triangles: (\d+)", out)
        elif app == "kcore":
            r["count"] = grab(r"Number of nodes in the \d+-core is (\d+)", out)
        elif app == "indset":
            r["card"] = grab(r"Cardinality of maximal independent set: (\d+)", out)
        elif app == "preflowpush":
            r["flow"] = grab(r"Flow is (\d+)", out)
        elif app == "mcm":
            r["card"] = grab(r"Matching of cardinality: (\d+)", out)
        elif app.startswith("pagerank"):
            ranks = {}
            for m in re.finditer(r"^\d+: ([0-9.eE+-]+) (\d+)\s*$", out, re.M):
                ranks[int(m.group(2))] = int(round(float(m.group(1)) * 1000000))
            nn = grab(r"Read (\d+) nodes", out)
            if nn is None or sorted(ranks) != list(range(nn)):
                raise ValueError("ranks missing")
            r["vals"] = [ranks[v] for v in range(nn)]
        if any(v is None for v in r.values()):
            raise ValueError("result line missing")
    except Exception as e:
        r = dict(rec, failed=1, rc=rc, why=str(e)[:200], tail=out[-300:])
    return r


def run(ev, vd):
    make(*[fbin("app-" + a) for a in APPS])
    rng = random.Random(ev.seed * 9973 + 20)
    scratch = os.path.join(BUILD, "tmp", "apps_files_%d" % os.getpid())
    shutil.rmtree(scratch, ignore_errors=True)
    os.makedirs(scratch, exist_ok=True)
    jobs = jobs_for(rng, tier() == "thorough")
    graphs = {}
    for key, adj, app, args, rec in jobs:
        graphs.setdefault(key, adj)

    def do(ij):
        i, (key, adj, app, args, rec) = ij
        # every run gets its own copy of the input (preflowpush writes a companion file next to it)
        path = os.path.join(scratch, "g%d.gr" % i)
        grfile.write_gr(path, transpose(adj) if rec.get("transposed") else adj, 4)
        rc, out = run_app(app, args, path)
        for p in (path, path + ".pfp"):
            if os.path.exists(p):
                os.remove(p)
        return key, app, parse(app, rec, rc, out)
    with cf.ThreadPoolExecutor(max_workers=NCPU) as ex:
        results = list(ex.map(do, list(enumerate(jobs))))
    # distributed versions: hosts x partition policy x execution model; the complete output of all hosts is judged
    make(*[dbin("dapp-" + a) for a in DAPPS])
    djobs = dist_jobs(rng, tier() == "thorough")
    for key, adj, *_ in djobs:
        graphs.setdefault(key, adj)

    def ddo(ij):
        i, (key, adj, app, hosts, pol, exe, threads, extra, rec) = ij
        if rec.get("probe") == "d17":
            rc, vals, tail = run_dist(i, scratch, adj, app, hosts, pol, exe, threads, extra, bound=45, retry=False)
        else:
            rc, vals, tail = run_dist(i, scratch, adj, app, hosts, pol, exe, threads, extra)
        r = dict(rec, k="dist", variant="%s/%dhosts/%s/t%d%s" % (exe, hosts, pol, threads, ("/metadata-" + rec["meta"]) if rec.get("meta") else ""), hosts=hosts, policy=pol,
                 failed=0 if vals is not None else 1, rc=rc)
        if vals is not None:
            r["vals"] = vals
        else:
            r["tail"] = tail
        return key, app, r
    with cf.ThreadPoolExecutor(max_workers=4) as ex:
        results += list(ex.map(ddo, list(enumerate(djobs))))
    shutil.rmtree(scratch, ignore_errors=True)
    tr = os.path.join(BUILD, "tmp", "apps.ndjson")
    with open(tr, "w") as f:
        for key, adj in graphs.items():
            f.write(json.dumps(dict(k="graph", id="%s%d" % key, n=len(adj), edges=edges_of(adj)), separators=(",", ":")) + "\n")
            for k2, app, r in results:
                if k2 == key:
                    f.write(json.dumps(dict(r, app=app), separators=(",", ":")) + "\n")
    res = tv.validate_sharded(os.path.join(SP, "TraceApps.tla"), tr, timeout=2400, group_start=lambda x: x.startswith('{"k":"graph"'))
    ev.cov["traces_validated_against_impl"] += res["records"] - len(res["rejects"])
    ev.cov["states"] += res["states"]; ev.cov["transitions"] += res["generated"]
    lines = open(tr).read().splitlines()
    by = {}
    for i, line in enumerate(lines):
        rec = json.loads(line)
        a = rec.get("app", "graph")
        by[a] = by.get(a, 0) + 1
        ev.distinct(line, nontrivial="/t1" not in rec.get("variant", "/t1") or rec.get("hosts", 1) > 1)
        if i % 211 == 7:
            ev.sample({k: v for k, v in rec.items() if k != "edges"})
    ev.cov["runs_by_app"] = by
    ev.cov["rule"] = ("one record per application run (generated graph x algorithm variant x thread count x start/report node); graphs have at most "
                      "9 nodes (disconnected, self loops, parallel edges, skew, weights 0..1000); distinct = distinct records; non-trivial = more than one thread")
    for g, info in sorted(res["rejects"]):
        rec = json.loads(lines[g])
        j = g
        while j >= 0 and json.loads(lines[j])["k"] != "graph":
            j -= 1
        gr = json.loads(lines[j])
        algo = rec.get("variant", "").split("/")[0]
        if rec.get("k") == "dist":
            algo = "%s/%s" % (rec.get("variant", "").split("/")[0], rec.get("policy"))
            if rec.get("meta"):
                algo = "%s/metadata-%s" % (rec.get("variant", "").split("/")[0], rec["meta"])
        sig = dict(component="app:" + rec.get("app", "?"), op="hang" if rec.get("rc") == 124 else "crash" if rec.get("failed") and rec.get("rc") not in (0, None) else "result", algo=algo)
        vd.violation(sig, "%s (%s) on a %d-node graph: %s" % (rec.get("app"), rec.get("variant"), gr["n"], lines[g][:400]), dict(record=rec, graph=gr))
    ev.assumptions += [
        "results are observed through what the applications print (one reported node per BFS/SSSP run, counts, weights, cardinalities); the independent set itself is not printed, so only 'some maximal independent set has this size' plus the application's own verification is decided",
        "PageRank is judged against an integer fixed-point iteration (six decimals) with a slack of 0.07 + 2% per node: gross errors (wrong degrees, dropped or doubled contributions) are decided, accuracy within the applications' own tolerance is not",
        "distributed bfs/sssp/cc/k-core (push and pull) run under mpirun on 1-4 hosts with several partition policies, Sync and Async; distributed pagerank, betweenness centrality, triangle counting and the CPU applications clustering, k-truss, gmetis, matrix completion, points-to are out of scope",
        "graphs are small (<= 9 nodes): the oracle is evaluated by TLC; thread schedules are sampled by repeated real runs"]
    ev.cov["engines"] = ["free", "tv"]


def replay(path):
    b = json.load(open(path))["bundle"]
    rec, gr = b.get("record"), b.get("graph")
    if not rec or not gr:
        return 1
    tr = os.path.join(BUILD, "tmp", "apps_replay.ndjson")
    with open(tr, "w") as f:
        f.write(json.dumps(gr, separators=(",", ":")) + "\n" + json.dumps(rec, separators=(",", ":")) + "\n")
    res = tv.validate_sharded(os.path.join(SP, "TraceApps.tla"), tr, nshards=1)
    log("replay: recorded result %s by specification" % ("REJECTED" if res["rejects"] else "accepted"))
    log(json.dumps(rec)[:1500]); log(json.dumps(gr)[:1500])
    return 1 if res["rejects"] else 0
