"""C03 do_all / on_each / regions: DoAll.tla (range stealing with the in-flight window) and
ThreadPool.tla (wake-up cascade / done de-cascade over region sequences with changing thread
counts) are model-checked; the real do_all (5 range kinds x 7 chunk sizes x steal on/off),
on_each and raw ThreadPool::run sequences (incl. burnPower fast mode) run under controlled
schedules on four topologies, with jitter and free; summaries judged by TLC against DoAllAbs."""
import os, json, concurrent.futures as cf
from vlib.common import *
from vlib import tv, conc

LEVEL = "model_checking"
SP = os.path.join(SPECS, "runtime")
MODELS = [("DoAll.tla", "DoAll.cfg"), ("DoAll.tla", "DoAll_c2.cfg"), ("MCThreadPool.tla", "MCThreadPool.cfg"),
          ("MCThreadPool.tla", "MCThreadPool_b.cfg")]
THOROUGH = [("DoAll.tla", "DoAll_t3n4_thorough.cfg")]
MUTANTS = [("DoAll.tla", "DoAll_mutant.cfg"), ("MCThreadPool.tla", "MCThreadPool_mutant.cfg")]


def run(ev, vd):
    thorough = tier() == "thorough"
    make(cbin("doall"), fbin("doall"))
    def mc(mc_):
        return mc_, tlc(os.path.join(SP, mc_[0]), cfg=mc_[1], workers=6, timeout=2400, heap="12g")
    with cf.ThreadPoolExecutor(max_workers=3) as ex:
        for (m, c), r in ex.map(mc, MODELS + (THOROUGH if thorough else [])):
            ev.add_tlc(c, r)
            if not r.ok:
                raise ToolError("model %s/%s violates %s" % (m, c, r.violation))
        for (m, c), r in ex.map(mc, MUTANTS):
            if r.ok:
                raise ToolError("vacuity guard: mutant configuration %s of %s should violate an invariant" % (c, m))
    ev.cov["model_mutants_detected"] = len(MUTANTS)
    jobs = [("ctl", cbin("doall"), t) for t in conc.TOPOS_CTL] + [("jitter", cbin("doall"), None), ("jitter", cbin("doall"), "2x2"),
            ("free", fbin("doall"), None), ("free", fbin("doall"), "2x4"), ("free", fbin("doall"), "3+1"), ("free", fbin("doall"), "1+1+1+1"),
            # sequences of regions over the whole pool (1..16 threads) confined to one resp. two CPUs
            # (synthetic 4x4 topology: the pool keeps 16 threads although the process is confined)
            ("pool16", ["taskset", "-c", "0", fbin("doall")], "4x4"), ("pool16", ["taskset", "-c", "0,1", fbin("doall")], "4x4")]

    def job(j):
        k, (mode, binp, topo) = j
        out = os.path.join(BUILD, "tmp", "doall_%d.ndjson" % k)
        if isinstance(binp, list):
            # confined to one or two CPUs: about half a minute in the quick tier; the bound is repeated once with three times its value
            rc, o, dt = conc.run_harness(binp[0], binp[1:] + [out, ev.seed * 100 + k, tier(), mode], topo=topo, timeout=900 if tier() == "thorough" else 300)
        else:
            rc, o, dt = conc.run_harness(binp, [out, ev.seed * 100 + k, tier(), mode], topo=topo, timeout=600)
        return j, out, rc, o
    results = conc.pmap(job, list(enumerate(jobs)), lambda j: j[1][0])
    paths = []
    for (k, (mode, binp, topo)), out, rc, o in results:
        if rc == 124:
            vd.violation(dict(component="do_all/regions", op="hang-" + mode), "doall harness (%s, topo %s) did not return" % (mode, topo), dict(mode=mode, topo=topo))
        elif mode == "pool16" and rc not in (0, 3):
            vd.violation(dict(component="do_all/regions", op="crash-" + mode), "thread pool region sequence aborted (rc=%s): %s" % (rc, o[-300:]), dict(mode=mode, out=o[-1500:]))
        elif rc not in (0, 3, 43, 44):
            raise ToolError("doall harness failed rc=%s (%s %s):\n%s" % (rc, mode, topo, o[-1500:]))
        paths.append(out)
    tr = os.path.join(BUILD, "tmp", "doall_all.ndjson")
    n = conc.cat(paths, tr)
    res = tv.validate_sharded(os.path.join(SP, "TraceDoAll.tla"), tr, timeout=1500)
    ev.cov["states"] += res["states"]; ev.cov["transitions"] += res["generated"]
    ev.cov["traces_validated_against_impl"] = n - len(res["rejects"])
    kinds = {}
    misplaced = 0
    with open(tr) as f:
        for i, line in enumerate(f):
            r = json.loads(line)
            key = "%s/%s/%s" % (r.get("k", "crash"), r.get("kind", "-"), r.get("mode", "-"))
            kinds[key] = kinds.get(key, 0) + 1
            nt = (r.get("threads", 0) >= 2 and r.get("n", 0) >= 2) or (r.get("k") == "regions" and len(r["seq"]) >= 2)
            ev.distinct(line, nontrivial=nt)
            misplaced += 1 if r.get("misplaced", 0) else 0
            if i % 211 == 5:
                ev.sample(r)
    ev.cov["records_by_kind_mode"] = kinds
    ev.cov["drift_static_partition_differs_from_block_range"] = misplaced
    ev.cov["rule"] = ("one record = one do_all call (range kind, size, chunk size, steal option, thread count, schedule) or one sequence of "
                      "2-5 parallel regions with changing thread counts; distinct = distinct records; non-trivial = >= 2 threads and >= 2 "
                      "elements, or >= 2 regions")
    bad = tv.read_lines(tr, [g for g, _ in res["rejects"]])
    for g, info in sorted(res["rejects"]):
        r = json.loads(bad[g])
        sig = dict(component=r.get("k", "crash") + ":" + r.get("kind", ""), op="steal" if r.get("steal") else "nosteal")
        vd.violation(sig, "%s deviates from DoAllAbs: %s" % (r.get("k", "harness died: record"), bad[g][:400]), dict(record=r))
    ev.assumptions += ["which thread runs which element is not part of the property (reported as drift for the no-steal case)",
                       "termination of do_all's steal loop (theoretical ping-pong livelock) is not claimed; hangs are detected on the real code"]
    ev.cov["engines"] = ["mc", "ctl", "free", "tv"]


def replay(path):
    b = json.load(open(path))["bundle"]
    log(json.dumps(b)[:3000])
    return 1
