"""C11 static graphs: StaticAbs.tla is the meaning (exact out-edges, in-edge/transpose bags, sorted
views, lookups, degrees, local ranges); CSRTranspose.tla model-checks the atomic-counter transpose
(all graphs with 3-4 nodes / 4-5 edges x all interleavings of the scatter phase); the real layouts
are built from independently written graph files and user arrays on 1-8 pool threads and TLC judges
everything they present (TraceStatic.tla)."""
import os, json, shutil
from vlib.common import *
from vlib import tv

LEVEL = "model_checking"
SP = os.path.join(SPECS, "graphs")


def is_graph(line):
    return line.startswith('{"k":"graph"')


def run(ev, vd):
    make(fbin("staticg"))
    cfgs = ["CSRTranspose.cfg"] + (["CSRTranspose_thorough.cfg"] if tier() == "thorough" else [])
    for cfg in cfgs:
        r = tlc(os.path.join(SP, "CSRTranspose.tla"), cfg=os.path.join(SP, cfg), workers=NCPU, timeout=3000, heap="16g")
        ev.add_tlc(cfg, r)
        if not r.ok:
            raise ToolError("CSRTranspose (%s) violates %s:\n%s" % (cfg, r.violation, r.out[-1500:]))
    r = tlc(os.path.join(SP, "CSRTranspose.tla"), cfg=os.path.join(SP, "CSRTranspose_mutant.cfg"), workers=NCPU, timeout=900)
    if r.ok:
        raise ToolError("CSRTranspose does not distinguish a non-atomic slot claim (vacuous model?)")
    tr = os.path.join(BUILD, "tmp", "staticg.ndjson")
    scratch = os.path.join(BUILD, "tmp", "staticg_files_%d" % os.getpid())
    os.makedirs(scratch, exist_ok=True)
    if os.path.exists(tr + ".crash"):
        os.remove(tr + ".crash")
    rc, out, dt = sh([fbin("staticg"), tr, str(ev.seed), tier(), scratch], timeout=3000, env={"GALOIS_DO_NOT_BIND_THREADS": "1"})
    shutil.rmtree(scratch, ignore_errors=True)
    crash = open(tr + ".crash").read().strip() if os.path.exists(tr + ".crash") else ""
    if rc != 0 or crash:
        rec = {}
        try:
            rec = json.loads(crash.splitlines()[0])
        except Exception:
            pass
        lay = rec.get("layout", "?").split("<")[0]
        vd.violation(dict(component=lay, op="crash", what=rec.get("what", "?")),
                     "static graph harness crashed (rc=%d) in %s: %s" % (rc, rec.get("what", "?"), (crash or out[-300:])[:400]), dict(record=rec, out=out[-1500:]))
    if not os.path.exists(tr):
        return
    res = tv.validate_sharded(os.path.join(SP, "TraceStatic.tla"), tr, timeout=1500, group_start=is_graph)
    ev.cov["traces_validated_against_impl"] += res["records"] - len(res["rejects"])
    ev.cov["states"] += res["states"]
    ev.cov["transitions"] += res["generated"]
    kinds, layouts = {}, {}
    lines = open(tr).read().splitlines()
    for i, line in enumerate(lines):
        rec = json.loads(line)
        k = rec["k"] + (":" + rec["what"] if "what" in rec else "")
        kinds[k] = kinds.get(k, 0) + 1
        if "layout" in rec:
            lay = rec["layout"]
            layouts[lay] = layouts.get(lay, 0) + 1
        ev.distinct(line, nontrivial=rec.get("threads", 1) >= 2)
        if i % 499 == 7:
            ev.sample({k2: v for k2, v in rec.items() if k2 not in ("adj", "ans")})
    ev.cov["records_by_kind"] = kinds
    ev.cov["records_by_layout"] = layouts
    ev.cov["rule"] = ("one record per (graph, layout, view/operation) on real pool threads; graphs: random small graphs (<=12 nodes: empty, "
                      "isolated, self loops, parallel edges, skewed, last node with/without edges) logged completely and judged by TLC, plus a "
                      "few graphs with 1500-4000 nodes judged by the same rules inside the harness; edge data void/int/uint64; distinct = distinct "
                      "records; non-trivial = built with at least two threads")
    for g, info in sorted(res["rejects"]):
        rec = json.loads(lines[g])
        # the graph record this view belongs to
        j = g
        while j >= 0 and not is_graph(lines[j]):
            j -= 1
        grec = json.loads(lines[j]) if j >= 0 else {}
        lay = rec.get("layout", "?").split("<")[0]
        sig = dict(component=lay, op=rec["k"], what=rec.get("what", rec.get("sorted", "")))
        vd.violation(sig, "%s presents something else than the input graph: %s" % (rec.get("layout"), lines[g][:400]), dict(record=rec, graph=grec))
    ev.assumptions += [
        "the n-th node of the graph's iteration order is node n of the file (true for every layout on this tree; needed to name nodes of pointer-based layouts)",
        "readGraph() does not compile for LC_InlineEdge_Graph (arity mismatch with its constructFrom); the harness performs the same two steps by hand",
        "LC_CSR_Hypergraph and LC_Adaptor_Graph are not exercised; format version 2 (64-bit destinations) is covered by C12",
        "schedules of the parallel builders are sampled with free-running threads; the atomic-counter transpose is model-checked exhaustively at small scope",
        "findEdgeSortedByDst is not called on graphs without any edge (it dereferences edge_end of an empty array)"]
    ev.cov["engines"] = ["mc", "free", "tv"]


def replay(path):
    b = json.load(open(path))
    rec, grec = b["bundle"].get("record"), b["bundle"].get("graph")
    if not rec or rec.get("k") == "crash" or not grec:
        log("replay: recorded crash: %s" % json.dumps(b["bundle"])[:1500])
        return 1
    tr = os.path.join(BUILD, "tmp", "staticg_replay.ndjson")
    with open(tr, "w") as f:
        f.write(json.dumps(grec, separators=(",", ":")) + "\n" + json.dumps(rec, separators=(",", ":")) + "\n")
    res = tv.validate_sharded(os.path.join(SP, "TraceStatic.tla"), tr, nshards=1)
    log("replay: recorded view %s by specification" % ("REJECTED" if res["rejects"] else "accepted"))
    log(json.dumps(rec)[:2000])
    return 1 if res["rejects"] else 0
