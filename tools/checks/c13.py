"""C13 work division: Divide.tla (design level, exhaustive small scope) + TLAPS proof of
block_range for all naturals + trace validation of the real routines (TraceDivide.tla)."""
import os, json, re, shutil
from vlib.common import *
from vlib import tv

LEVEL = "model_checking"
SP = os.path.join(SPECS, "divide")


def component(rec):
    k = rec.get("k")
    if k == "unit":
        return "unitRanges:" + rec.get("v", "")
    if k in ("block", "divide"):
        return k + ":" + rec.get("ty", "")
    return k


def tags(rec):
    t = []
    k = rec.get("k")
    if k == "unit":
        if rec["bn"] != 0:
            t.append("beginNode>0")
        if rec["t"] > rec["en"] - rec["bn"] and rec["bn"] != rec["en"] and rec["t"] != 1:
            t.append("units>nodes")
    if k == "byedge":
        ne = sum(rec["deg"])
        if rec["t"] > ne:
            t.append("parts>edges")
    return t


def proof(ev):
    d = os.path.join(BUILD, "tmp", "tlaps")
    shutil.rmtree(d, ignore_errors=True)
    os.makedirs(d)
    shutil.copy(os.path.join(SP, "BlockRangeProof.tla"), d)
    rc, out, dt = sh(["tlapm", "--toolbox", "0", "0", "BlockRangeProof.tla"], cwd=d, timeout=600)
    m = re.search(r"All (\d+) obligations? proved", out)
    total = len(re.findall(r"@!!type:obligation", out))
    proved = int(m.group(1)) if m else len(re.findall(r"@!!status:proved", out))
    ev.cov["proof"] = dict(obligations=int(m.group(1)) if m else total, discharged=proved,
                           checker_cmd="tlapm --toolbox 0 0 specs/divide/BlockRangeProof.tla",
                           all_proved=bool(m), wall_s=round(dt, 1),
                           theorems=["Adj", "Start", "Ordered", "Cover", "DivLe", "NumperNat"])
    shutil.rmtree(d, ignore_errors=True)
    if not m:
        # the proof is about the specification, not about the code: failing to re-prove is
        # tool trouble, not a verdict
        raise ToolError("TLAPS did not prove BlockRangeProof:\n" + out[-2000:])


def run(ev, vd):
    thorough = tier() == "thorough"
    make(fbin("divide"))
    # 1. design level: all inputs within bounds, Divide.tla functions are Partitions
    r = tlc(os.path.join(SP, "MCDivide.tla"), cfg="MCDivide_thorough.cfg" if thorough else "MCDivide.cfg",
            workers=NCPU, timeout=1500)
    ev.add_tlc("MCDivide", r)
    design_bad = None
    if not r.ok:
        # verdict rule 2: a counterexample of the transcription counts only if the real code
        # reproduces it (checked below through the trace); otherwise the model is wrong
        m = re.search(r'c = \[k \|-> "(\w+)"[^\n]*', r.out)
        design_bad = (m.group(1) if m else "?", m.group(0) if m else "")
        log("design-level counterexample in Divide.tla transcription: %s" % design_bad[1])
    proof(ev)
    # 2. real code -> trace -> TLC
    tr = os.path.join(BUILD, "tmp", "divide.ndjson")
    tmpd = os.path.join(BUILD, "tmp", "divide_files")
    os.makedirs(tmpd, exist_ok=True)
    rc, out, dt = sh([fbin("divide"), tr, str(ev.seed), tier(), tmpd], timeout=900)
    if rc != 0:
        # the real routine crashed on an input of the enumerated space
        vd.violation(dict(component="divide-harness", op="crash"),
                     "work-division harness crashed rc=%d: %s" % (rc, out[-300:]),
                     dict(cmd=[fbin("divide"), tr, str(ev.seed), tier(), tmpd]))
        return
    res = tv.validate_sharded(os.path.join(SP, "TraceDivide.tla"), tr, timeout=1500)
    ev.cov["traces_validated_against_impl"] += res["records"] - len(res["rejects"])
    ev.cov["states"] += res["states"]
    ev.cov["transitions"] += res["generated"]
    ev.cov["drift"] = len(res["drifts"])
    ev.cov["trace_records"] = res["records"]
    # evidence bookkeeping: distinct non-trivial = records with >= 2 parts
    kinds = {}
    with open(tr) as f:
        for i, line in enumerate(f):
            rec = json.loads(line)
            kinds[component(rec)] = kinds.get(component(rec), 0) + 1
            nt = rec.get("n", rec.get("t", rec.get("threads", 1))) >= 2
            ev.distinct(line, nontrivial=nt)
            if i % 9973 == 0:
                ev.sample(rec)
    ev.cov["records_by_component"] = kinds
    ev.cov["rule"] = ("every record = one real call group (all part ids) of a division routine; inputs "
                      "enumerated exhaustively in the small scope (sizes/degree sequences/weights/scale "
                      "factors/sub-ranges) plus seeded random larger ones and 64-bit extremes; distinct = "
                      "distinct input records, non-trivial = at least two parts requested")
    bad = tv.read_lines(tr, [g for g, _ in res["rejects"]])
    for g, info in sorted(res["rejects"]):
        rec = json.loads(bad[g])
        sig = dict(component=component(rec), op="partition", tags=tags(rec))
        vd.violation(sig, "%s returned pieces that are not a partition: %s" % (component(rec), bad[g][:300]),
                     dict(record=rec))
    if design_bad and not any(json.loads(bad[g]).get("k") == design_bad[0] for g, _ in res["rejects"]):
        raise ToolError("Divide.tla's transcription violates Partition (%s) but the real code does not "
                        "reproduce it: the model is wrong" % design_bad[1])
    if res["drifts"]:
        dl = tv.read_lines(tr, [g for g, _ in res["drifts"][:5]])
        ev.cov["drift_samples"] = list(dl.values())
    ev.assumptions += [
        "block_range: no-overflow precondition d+n-1 < 2^64 and numper*n < 2^64 (proved over Nat by TLAPS, "
        "real code driven up to the threshold)",
        "empty pieces may be reported with a conventional position (only non-empty pieces must chain)",
        "TLC integers are 32-bit: 64-bit extremes are compared limb-wise (4 x 16 bit)",
        "libcusp host-level division is exercised in C19's harness, not here"]
    ev.cov["engines"] = ["mc", "tlaps", "seqreplay", "tv"]


def replay(path):
    b = json.load(open(path))
    rec = b["bundle"]["record"]
    tr = os.path.join(BUILD, "tmp", "divide_replay.ndjson")
    with open(tr, "w") as f:
        f.write(json.dumps(rec) + "\n")
    res = tv.validate_sharded(os.path.join(SP, "TraceDivide.tla"), tr, nshards=1)
    log("replay: recorded call group %s by specification" % ("REJECTED" if res["rejects"] else "accepted"))
    log(json.dumps(rec))
    return 1 if res["rejects"] else 0
