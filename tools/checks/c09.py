"""C09 allocators: AllocAbs.tla keeps the map of live blocks (NonNull, LargeEnough, Aligned(g),
Disjoint from every live block of any allocator, only live blocks are freed, Clear ends a bump
heap's blocks).  The real fixed-size heaps (8/24/100 bytes), the power-of-two block heap, the
variable-size bump heap (both allocate forms), the per-iteration bump+malloc heap, the page pool
(2 MB pages), per-thread storage objects and large arrays are driven by sequential histories over
boundary sizes (incl. the very first operation on a fresh heap, fixed sizes that are not multiples of 8,
per-thread storage served from split free offsets after its page is exhausted), by concurrent mixes from 1-8
threads with blocks handed to other threads for freeing, and the page pool also under controlled schedules;
canaries in live blocks are re-checked.
TLC replays every history on AllocAbs."""
import os, json, concurrent.futures as cf
from vlib.common import *
from vlib import tv, conc, fe

LEVEL = "model_checking"
SP = os.path.join(SPECS, "mem")
HEAPS = {0: "FixedSizeHeap(24)", 1: "FixedSizeHeap(8)", 2: "FixedSizeHeap(100)", 3: "Pow_2_BlockHeap", 4: "VariableSizeHeap(bump)",
         5: "BumpWithMallocHeap(per-iteration)", 6: "PagePool", 7: "PerThreadStorage", 8: "LargeArray",
         9: "FixedSizeHeap(12)", 10: "FixedSizeHeap(20)", 11: "FixedSizeHeap(9)"}


def run(ev, vd):
    # implementation-shaped models of the two allocators with non-trivial concurrent / splitting logic (with mutants)
    # (BumpHeap: the per-iteration bump allocator with its malloc fallback list; mutant: linking a fallback block rewinds the offset)
    for mod in ("PagePool", "PerBackend", "BumpHeap"):
        for cfg in [mod + ".cfg"] + ([mod + "_thorough.cfg"] if tier() == "thorough" and os.path.exists(os.path.join(SP, mod + "_thorough.cfg")) else []):
            r = tlc(os.path.join(SP, mod + ".tla"), cfg=os.path.join(SP, cfg), workers=NCPU, timeout=3000, heap="16g")
            ev.add_tlc(cfg, r)
            if not r.ok:
                raise ToolError("%s (%s) violates %s:\n%s" % (mod, cfg, r.violation, r.out[-1500:]))
        r = tlc(os.path.join(SP, mod + ".tla"), cfg=os.path.join(SP, mod + "_mutant.cfg"), workers=NCPU, timeout=900)
        if r.ok:
            raise ToolError("%s does not distinguish its mutant (vacuous model?)" % mod)
    make(fbin("alloc"), cbin("alloc"))
    # pts: per-thread storage with an exhausted page (own process: the page stays exhausted); ctlpage: the page pool under
    # controlled schedules (flavour C)
    jobs = [("seq", 0), ("seq", 1), ("free", 2), ("free", 3), ("pts", 4), ("pts", 5), ("ctlpage", 6), ("ctlpage", 7)]

    def job(j):
        mode, k = j
        out = os.path.join(BUILD, "tmp", "alloc_%d.ndjson" % k)
        rc, o, dt = conc.run_harness(cbin("alloc") if mode == "ctlpage" else fbin("alloc"), [out, ev.seed * 100 + k, tier(), mode], timeout=1200)
        return j, out, rc, o
    results = conc.pmap(job, jobs, lambda j: j[0])
    paths = []
    for (mode, k), out, rc, o in results:
        if rc == 124:
            vd.violation(dict(component="alloc", op="hang"), "allocator harness (%s) did not finish" % mode, dict(mode=mode))
        elif rc in (43, 44, 45):
            vd.violation(dict(component="alloc", op="hang"), "allocator harness (%s) deadlocked under a controlled schedule: %s" % (mode, o[-300:]), dict(mode=mode))
        elif rc not in (0, 3):
            raise ToolError("alloc harness failed rc=%s (%s):\n%s" % (rc, mode, o[-1500:]))
        paths.append(out)
    tr = os.path.join(BUILD, "tmp", "alloc_all.ndjson")
    n = conc.cat(paths, tr)
    res = tv.validate_sharded(os.path.join(SP, "TraceAlloc.tla"), tr, group_start=conc.is_reset, timeout=1500)
    ev.cov["states"] += res["states"]; ev.cov["transitions"] += res["generated"]
    execs, byheap = 0, {}
    with open(tr) as f:
        for line in f:
            if conc.is_reset(line):
                execs += 1
                r = json.loads(line)
                ev.distinct((r["mode"], r["threads"], r["seed"], r["focus"]), nontrivial=True)
                if execs % 173 == 1:
                    ev.sample(r)
            elif '"ev":"alloc"' in line:
                h = json.loads(line)["h"]
                byheap[HEAPS[h]] = byheap.get(HEAPS[h], 0) + 1
    ev.cov["executions"] = execs; ev.cov["events"] = n; ev.cov["allocations_by_allocator"] = byheap
    ev.cov["traces_validated_against_impl"] = execs - len(res["rejects"])
    ev.cov["rule"] = ("one execution = one allocation history (sequential: 1-80 operations focused on one allocator incl. the first operation on a fresh "
                      "heap; concurrent: 150-400 operations per thread with cross-thread frees); distinct = (mode, threads, seed, focus)")
    for g, info in sorted(res["rejects"]):
        rs, exn = conc.context(tr, g)
        last = exn[-1]
        heap = HEAPS.get(last.get("h", -1), "?")
        sig = dict(component="alloc:" + heap, op=last["ev"])
        vd.violation(sig, "%s (mode %s, threads %d): event %s is not allowed by AllocAbs (block not large enough / misaligned / overlapping a live "
                     "block / null / corrupted / leaked)" % (heap, rs["mode"], rs["threads"], json.dumps(last)), dict(reset=rs, execution=exn[-200:]))
    # the per-iteration allocator inside the deterministic executor with a local state kept between the two passes: the
    # state, its buffer and what the commit pass allocates must stay intact and disjoint (ForEachAbs rejects 'allocbad')
    trd, resd, hangs = fe.campaign(ev, ["foreach_d"], [("ctl", "C", None), ("free", "F", None)], "c09", env={"VERIF_FD_VARIANT": "2"})
    dexecs = sum(1 for line in open(trd) if conc.is_reset(line))
    ev.cov["deterministic_local_state_executions"] = dexecs
    other = {}
    for g, info in sorted(resd["rejects"]):
        reason = (info or "").strip('"')
        if reason not in ("allocbad", "crash"):
            other[reason] = other.get(reason, 0) + 1     # belongs to C01 / C02 / C07, reported there
            continue
        rs, exn = conc.context(trd, g)
        vd.violation(dict(component="alloc:per-iteration/deterministic", op=reason),
                     "deterministic for_each with local_state and per_iter_alloc (threads %d, mode %s): %s: a block of the per-iteration allocator was "
                     "handed out again while still live (or the loop crashed); last event %s" % (rs["threads"], rs["mode"], reason, json.dumps(exn[-1])),
                     dict(reset=rs, execution=exn[-200:]))
    ev.cov["traces_validated_against_impl"] += dexecs - len(resd["rejects"])
    ev.cov["rejections_belonging_to_other_properties"] = other
    ev.assumptions += ["NUMA node placement is not observable here (single node)", "page-pool pages carry a canary in their first 4 KB only",
                       "per-iteration allocations inside for_each are checked in C02's harness", "real schedules of the concurrent mixes are sampled"]
    ev.cov["engines"] = ["mc", "seqreplay", "free", "ctl", "tv"]


def replay(path):
    b = json.load(open(path))["bundle"]
    log(json.dumps(b.get("reset")))
    for e in b.get("execution", [])[-60:]:
        log("  " + json.dumps(e))
    return 1
