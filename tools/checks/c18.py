"""C18 Gluon synchronisation: GluonAbs.tla is the meaning of a sync (every proxy readable at the read location holds the
reduction of the master's previous value and all contributions written since the last sync; untouched nodes are left alone),
Gluon.tla an implementation-shaped model of reduce + broadcast over two consecutive syncs with unordered message arrival (and
a mutant without mirror reset).  harness/dist/dsync.cpp runs the real GluonSubstrate under mpirun (1-4 hosts) on CuSP
partitions of random graphs for every policy: rounds over all 9 write/read location pairs, min / add / max fields, with and
without update bitset, every enforced wire encoding and update densities from nothing to everything, add fields also over two
syncs without re-initialisation; values before the operator, every contribution and values after the sync are logged and TLC
replays the merged logs (TraceGluon.tla)."""
import os, json, random
from vlib.common import *
from vlib import tv, distrun

LEVEL = "model_checking"
SP = os.path.join(SPECS, "dist")
ROUNDS = True


def cases(ev):
    rng = random.Random(ev.seed * 31 + (18 if ROUNDS else 19))
    out = []
    thorough = tier() == "thorough"
    pols = distrun.POLICIES + distrun.SYM_POLICIES
    for pol in pols:
        for hosts in ((1, 2, 3, 4) if thorough else (2, 3, 4)):
            for rep in range(3 if thorough else 1):
                out.append((pol, hosts, distrun.gen_graph(rng, pol.startswith("sym")), rng.randrange(1 << 30)))
    if not thorough:   # one host: a few policies only
        for pol in ("oec", "cvc", "fennel-o"):
            out.append((pol, 1, distrun.gen_graph(rng), rng.randrange(1 << 30)))
    return out


def run_cases(ev, vd, rounds, trace):
    make(os.path.join(BUILD, "D", "bin", "dsync"))
    n = 0
    with open(trace, "w") as fo:
        for k, (pol, hosts, adj, seed) in enumerate(cases(ev)):
            rc, out, m = distrun.run_case("c%d" % k, adj, pol, hosts, seed, rounds, tier(), fo)
            n += m
            if rc == 124:
                vd.violation(dict(component="gluon" if ROUNDS else "cusp", op="hang", policy=pol, hosts=hosts), "dsync (%s, %d hosts) did not finish" % (pol, hosts), dict(out=out))
    return n


def judge(ev, vd, trace, prop_kinds):
    res = tv.validate_sharded(os.path.join(SP, "TraceGluon.tla"), trace, timeout=2400, group_start=lambda x: x.startswith('{"ev":"graph"'))
    ev.cov["states"] += res["states"]; ev.cov["transitions"] += res["generated"]
    lines = open(trace).read().splitlines()
    by = {}
    cur = None
    for i, line in enumerate(lines):
        rec = json.loads(line)
        if rec["ev"] == "graph":
            cur = rec
            ev.distinct((rec["policy"], rec["hosts"], line), nontrivial=rec["hosts"] >= 2)
            if i % 7 == 0:
                ev.sample({k: v for k, v in rec.items() if k != "edges"})
        key = "%s" % rec["ev"]
        by[key] = by.get(key, 0) + 1
        if rec["ev"] == "graph":
            k2 = "cases:%s" % rec["policy"]
            by[k2] = by.get(k2, 0) + 1
    ev.cov["records"] = by
    rejected_cases = set()
    for g, info in sorted(res["rejects"]):
        rec = json.loads(lines[g])
        j = g
        while j >= 0 and json.loads(lines[j])["ev"] != "graph":
            j -= 1
        gr = json.loads(lines[j])
        kind = (info or "").strip('"')
        is_sync = kind.startswith("sync")
        if (is_sync and "sync" not in prop_kinds) or (not is_sync and "part" not in prop_kinds):
            if kind not in ("crash", "garbled", "host-log-missing"):
                continue
        rejected_cases.add(j)
        rd = {}
        if is_sync:
            k = g
            while k > j and json.loads(lines[k])["ev"] != "round":
                k -= 1
            rd = json.loads(lines[k])
        sig = dict(component="gluon" if is_sync else "cusp", op=kind, policy=gr["policy"], hosts=gr["hosts"])
        vd.violation(sig, "%s with %d hosts: %s%s: %s" % (gr["policy"], gr["hosts"], kind, (" in round %s" % {a: rd.get(a) for a in ("w", "r", "f", "bitset", "mode", "density")}) if rd else "", lines[g][:300]),
                     dict(graph=gr, record=rec, round=rd, context=lines[max(j, g - 30):g + 1]))
    ncases = sum(1 for l in lines if l.startswith('{"ev":"graph"'))
    ev.cov["traces_validated_against_impl"] = ncases - len(rejected_cases)
    ev.cov["cases"] = ncases


def run(ev, vd):
    for cfg in ["Gluon.cfg", "Gluon_min.cfg", "Gluon_partial.cfg"] + (["Gluon_thorough.cfg"] if tier() == "thorough" else []):
        r = tlc(os.path.join(SP, "Gluon.tla"), cfg=os.path.join(SP, cfg), workers=NCPU, timeout=1800)
        ev.add_tlc(cfg, r)
        if not r.ok:
            raise ToolError("Gluon (%s) violates %s:\n%s" % (cfg, r.violation, r.out[-1500:]))
    r = tlc(os.path.join(SP, "Gluon.tla"), cfg=os.path.join(SP, "Gluon_mutant.cfg"), workers=NCPU, timeout=900)
    if r.ok:
        raise ToolError("Gluon does not distinguish a sync that does not reset mirrors (vacuous model?)")
    # termination detection of the asynchronous execution (DGTerminator), exercised on the real code by C20's Async runs
    for cfg in ["DGTerm.cfg", "DGTerm_recvfirst.cfg"] + (["DGTerm_thorough.cfg"] if tier() == "thorough" else []):
        r = tlc(os.path.join(SP, "DGTerm.tla"), cfg=os.path.join(SP, cfg), workers=NCPU, timeout=3000, heap="16g")
        ev.add_tlc(cfg, r)
        if not r.ok:
            raise ToolError("DGTerm (%s) violates %s:\n%s" % (cfg, r.violation, r.out[-1500:]))
    for cfg in ("DGTerm_mutant.cfg", "DGTerm_nocausal.cfg"):
        r = tlc(os.path.join(SP, "DGTerm.tla"), cfg=os.path.join(SP, cfg), workers=NCPU, timeout=900)
        if r.ok:
            raise ToolError("DGTerm accepts %s (vacuous model?)" % cfg)
    # the bulk-asynchronous loop (operator, selective async sync, detector contract) on a cut graph
    for cfg in ("MCGluonAsync.cfg", "MCGluonAsync_h3.cfg"):
        r = tlc(os.path.join(SP, "MCGluonAsync.tla"), cfg=os.path.join(SP, cfg), workers=NCPU, timeout=1800)
        ev.add_tlc(cfg, r)
        if not r.ok:
            raise ToolError("GluonAsync (%s) violates %s:\n%s" % (cfg, r.violation, r.out[-1500:]))
    # mutant: master not flagged after a reduce; dense: the enforced dense encoding never becomes quiescent (finding D17 of C20 at design level)
    for cfg, want in (("MCGluonAsync_mutant.cfg", "Correct"), ("MCGluonAsync_dense.cfg", "liveness")):
        r = tlc(os.path.join(SP, "MCGluonAsync.tla"), cfg=os.path.join(SP, cfg), workers=NCPU, timeout=900)
        if r.ok or want not in str(r.violation):
            raise ToolError("GluonAsync: %s should be rejected for %s, got %s (vacuous model?)" % (cfg, want, r.violation))
    trace = os.path.join(BUILD, "tmp", "gluon.ndjson")
    run_cases(ev, vd, 40 if tier() == "thorough" else 20, trace)
    judge(ev, vd, trace, ("sync",))
    ev.cov["rule"] = ("one case = one (graph, partition policy, host count) MPI run with 20-40 sync rounds; every round picks write/read "
                      "location, field (min/add/max), bitset on/off, enforced encoding and update density from a seed; distinct = distinct cases; "
                      "non-trivial = at least two hosts")
    ev.assumptions += [
        "write / read locations are interpreted over the locally stored edges (a proxy is a source if it has a stored outgoing edge)",
        "add fields follow the delta protocol: mirrors hold the identity before they are written; proxies refreshed by a broadcast are not written again before they are consumed",
        "a third of the min / max rounds run bulk-asynchronously (syncs repeated until DGTerminator fires; only with an update bitset and a selective encoding), add fields only bulk-synchronously; DGTerm.tla shows the detector safe and live only under the assumption that all-reduce rounds do not overtake point-to-point messages handed to MPI earlier (without it TLC finds an early termination; not reproducible on one machine)",
        "GPU personalities, edge substrates, array fields and sync_on_demand are not exercised",
        "message arrival orders between hosts are sampled by real MPI runs; the reduce/broadcast protocol is explored exhaustively in Gluon.tla"]
    ev.cov["engines"] = ["mc", "free", "tv"]


def replay(path):
    b = json.load(open(path))["bundle"]
    for x in b.get("context", [])[-30:]:
        log("  " + x[:400])
    gr = b.get("graph")
    ctx = b.get("context")
    if not gr or not ctx:
        return 1
    tr = os.path.join(BUILD, "tmp", "gluon_replay.ndjson")
    with open(tr, "w") as f:
        if not ctx[0].startswith('{"ev":"graph"'):
            f.write(json.dumps(gr, separators=(",", ":")) + "\n")
        f.write("\n".join(ctx) + "\n")
    res = tv.validate_sharded(os.path.join(SP, "TraceGluon.tla"), tr, nshards=1)
    log("replay: %s" % ("REJECTED" if res["rejects"] else "accepted (context window too short to reproduce)"))
    return 1
