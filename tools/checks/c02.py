"""C02 for_each iterations are isolated: the same operator-level logs as C01, judged for
AtMostOneOwner (an attempt that loses an object can only be one that aborts), clean aborts,
NoneOwnedAtReturn (owner probe of every lockable after the loop), Serialisable (per-object
non-commutative update logs equal the commit order) and validity of per-iteration allocations;
LockMgr.tla model-checks the try-lock / set-owner / release protocol."""
import os, json
from vlib.common import *
from vlib import fe, conc

LEVEL = "model_checking"
from checks.c01 import replay  # same bundle format


def run(ev, vd):
    p = os.path.join(fe.SP, "LockMgr.tla")
    if os.path.exists(p):
        r = tlc(p, workers=NCPU, timeout=1500)
        ev.add_tlc("LockMgr", r)
        if not r.ok:
            raise ToolError("LockMgr model violates %s\n%s" % (r.violation, brief(r.out)))
    jobs = [j for j in fe.STD_JOBS]
    # more schedules per worklist on the chunked family (isolation does not depend on the worklist), all worklists once
    tr, res, hangs = fe.campaign(ev, ["foreach_a"], jobs, "c02", env={"VERIF_FE_MULT": "4"})
    execs = fe.summarize(ev, tr)
    # "pushes ... discarded before it is retried" is part of C02's statement: work that stems from an aborted attempt is reported here too
    mine = {"C02", "start:not-pending", "start:already-committed"}
    rej = fe.report(ev, vd, tr, res, hangs, mine)
    tr2, res2, hangs2 = fe.campaign(ev, ["foreach_b"], [("ctl", "C", None), ("ctl", "C", "2x2"), ("free", "F", None)], "c02b")
    execs += fe.summarize(ev, tr2)
    rej += fe.report(ev, vd, tr2, res2, hangs2, mine)
    ev.cov["traces_validated_against_impl"] = execs - rej
    ev.cov["rule"] = ("as C01; the executions with conflict detection carry 1-6 shared lockable objects, re-acquisition, READ/WRITE/"
                      "UNPROTECTED flags, voluntary aborts; distinct = (worklist, mode, topology, cd, threads, seed); non-trivial = >= 2 threads and >= 2 items")
    ev.assumptions += ["operators are cautious", "release points are not observable from the operator: ownership is released in the "
                       "specification at the commit event (sound: the real release is later), aborts are inferred"]
    ev.cov["engines"] = ["mc", "ctl", "free", "tv"]
