"""C07 deterministic scheduling: Determ.tla model-checks the inspect-phase marking protocol
(tryLock / steal-by-CAS of a mark held by a larger id / notReady flags): for ALL neighbourhood
assignments of 3 items x 2 objects and all interleavings the ready set at the barrier equals
Winners(ids, neighbourhoods) and ready contexts never share an object.  The real executor
(galois::worklists::Deterministic<>, with and without det_id) runs generated programs several
times each on 1..8 threads under controlled schedules, jitter and free; every run is validated
against ForEachAbs (conservation + isolation) and all runs of one program must report identical
per-object commit sequences (TraceDeterm)."""
import os, json, concurrent.futures as cf
from vlib.common import *
from vlib import fe, tv, conc

LEVEL = "model_checking"
from checks.c01 import replay


def run(ev, vd):
    make(cbin("foreach_d"), fbin("foreach_d"))
    r = tlc(os.path.join(fe.SP, "Determ.tla"), workers=8, timeout=900)
    ev.add_tlc("Determ", r)
    if not r.ok:
        raise ToolError("Determ model violates %s\n%s" % (r.violation, brief(r.out)))
    m = tlc(os.path.join(fe.SP, "Determ.tla"), cfg="Determ_mutant.cfg", workers=8, timeout=900)
    if m.ok:
        raise ToolError("vacuity guard: Determ with IgnoreLoser=TRUE must violate Deterministic")
    # the window computation at the end of a round: every thread must see the same counters (the configuration without the
    # barrier is the outer round as it was before the repair in /repo)
    r = tlc(os.path.join(fe.SP, "DetWindow.tla"), cfg=os.path.join(fe.SP, "DetWindow.cfg"), workers=4, timeout=600)
    ev.add_tlc("DetWindow", r)
    if not r.ok:
        raise ToolError("DetWindow violates %s\n%s" % (r.violation, brief(r.out)))
    m = tlc(os.path.join(fe.SP, "DetWindow.tla"), cfg=os.path.join(fe.SP, "DetWindow_nobarrier.cfg"), workers=4, timeout=600)
    if m.ok or m.violation != "SameSums":
        raise ToolError("vacuity guard: DetWindow without the barrier must violate SameSums, got %s" % m.violation)
    jobs = [("ctl", "C", None), ("ctl", "C", "2x2"), ("jitter", "C", None), ("free", "F", None), ("free", "F", "2x4")]
    alljobs = list(enumerate(jobs))

    def job(j):
        k, (mode, fl, topo) = j
        out = os.path.join(BUILD, "tmp", "fed_%d.ndjson" % k)
        rc, o, dt = conc.run_harness(cbin("foreach_d") if fl == "C" else fbin("foreach_d"), [out, ev.seed * 1000 + k, tier(), mode], topo=topo,
                                     timeout=(900 if tier() == "thorough" else 300))
        return j, out, rc, o
    results = conc.pmap(job, alljobs, lambda j: j[1][0])
    tr = os.path.join(BUILD, "tmp", "fed_all.ndjson")
    trd = os.path.join(BUILD, "tmp", "fed_det.ndjson")
    nruns = 0
    with open(tr, "w") as fo, open(trd, "w") as fd:
        for (k, (mode, fl, topo)), out, rc, o in results:
            if rc == 124:
                vd.violation(dict(component="for_each", wlfamily="Deterministic", op="hang-" + mode), "deterministic for_each (%s) did not return" % mode, dict(mode=mode))
            elif rc not in (0, 3, 43, 44):
                raise ToolError("foreach_d failed rc=%s (%s):\n%s" % (rc, mode, o[-1500:]))
            if os.path.exists(out):
                for line in open(out):
                    if '"ev":"detres"' in line:
                        # program numbers are per process: make them unique across jobs
                        r_ = json.loads(line); r_["prog"] = r_["prog"] + 100000 * (k + 1)
                        fd.write(json.dumps(r_) + "\n"); nruns += 1
                    else:
                        fo.write(line)
    res = tv.validate_sharded(os.path.join(fe.SP, "TraceForEach.tla"), tr, group_start=conc.is_reset, timeout=2400)
    ev.cov["states"] += res["states"]; ev.cov["transitions"] += res["generated"]
    execs = fe.summarize(ev, tr)
    rej = 0
    for g, info in sorted(res["rejects"]):
        rs, exn = conc.context(tr, g)
        reason = (info or "").strip('"')
        vd.violation(dict(component="for_each", wlfamily="Deterministic", op=reason),
                     "deterministic executor (threads %d, mode %s): event %s rejected by ForEachAbs (%s)" % (rs["threads"], rs["mode"], json.dumps(exn[-1]), reason),
                     dict(reset=rs, execution=exn[-300:]))
        rej += 1
    resd = tv.validate_sharded(os.path.join(fe.SP, "TraceDeterm.tla"), trd, nshards=1, timeout=900)
    ev.cov["states"] += resd["states"]; ev.cov["transitions"] += resd["generated"]
    bad = tv.read_lines(trd, [g for g, _ in resd["rejects"]])
    for g, info in sorted(resd["rejects"]):
        r_ = json.loads(bad[g])
        vd.violation(dict(component="for_each", wlfamily="Deterministic", op="nondeterministic"),
                     "deterministic executor: run with %d threads (%s) of program %d produced other per-object commit sequences than the first run: %s" % (
                         r_["threads"], r_["mode"], r_["prog"], json.dumps(r_["logs"])[:300]), dict(record=r_))
        rej += 1
    ev.cov["runs_compared_for_determinism"] = nruns
    ev.cov["traces_validated_against_impl"] = execs + nruns - rej
    ev.cov["rule"] = ("one execution = one run of a generated program (non-commutative per-object logs, dynamic work creation, overlapping "
                      "neighbourhoods; input sizes below and above the minimum window of 1280) with the deterministic executor; every program is "
                      "run 4-5 times with different thread counts/schedules; distinct = (variant, mode, topology, threads, seed)")
    ev.assumptions += ["det_id ids are distinct (the code documents non-determinism for duplicate ids)", "cautious operators",
                       "fixed_neighborhood / local_state / det_parallel_break / intent_to_read variants are not exercised yet"]
    ev.cov["engines"] = ["mc", "ctl", "free", "tv"]
