"""C14 sequential containers: ContainersAbs.tla (abstract ADTs) is the oracle; the real
containers are driven through all operation sequences to a depth bound plus seeded random
walks (harness/src/containers.cpp); TLC walks the recorded history tree (TraceContainers)."""
import os, json, concurrent.futures as cf
from vlib.common import *
from vlib import tree

LEVEL = "model_checking"
SP = os.path.join(SPECS, "containers")
COMPONENTS = ["gdeque<1>", "gdeque<2>", "gdeque<3>", "gdeque<4>",
              "FixedSizeRing<1>", "FixedSizeRing<2>", "FixedSizeRing<3>", "FixedSizeRing<4>",
              "gslist<1>", "gslist<2>", "gslist<3>", "PODResizeableArray",
              "FixedSizeBag<1>", "FixedSizeBag<2>", "FixedSizeBag<3>",
              "ConcurrentFixedSizeBag<2>", "ConcurrentFixedSizeBag<3>",
              "InsertBag<48>", "InsertBag<56>", "InsertBag<0>", "flat_map",
              "MinHeap", "ThreadSafeMinHeap", "ThreadSafeOrderedSet", "Lazy",
              "TwoLevelIterator", "LargeArray"]


def fname(c):
    return c.replace("<", "_").replace(">", "")


def one(c, seed):
    tr = os.path.join(BUILD, "tmp", "cont_%s.ndjson" % fname(c))
    if os.path.exists(tr):
        os.remove(tr)
    rc, out, dt = sh([fbin("containers"), c, tr, str(seed), tier()], timeout=900)
    if rc not in (0, 3) or not os.path.exists(tr):
        raise ToolError("containers harness failed on %s rc=%s\n%s" % (c, rc, out[-1500:]))
    r, rej = tree.validate_tree(os.path.join(SP, "TraceContainers.tla"), tr, workers=2)
    return c, tr, rc, r, rej


def run(ev, vd):
    make(fbin("containers"))
    # design level: the abstract ADTs keep their representation invariants (sortedness, bounds)
    r = tlc(os.path.join(SP, "MCContainers.tla"), workers=NCPU, timeout=900)
    ev.add_tlc("MCContainers", r)
    if not r.ok:
        raise ToolError("ContainersAbs violates its own sanity invariant %s\n%s" % (r.violation, r.out[-1500:]))
    with cf.ThreadPoolExecutor(max_workers=8) as ex:
        results = list(ex.map(lambda c: one(c, ev.seed), COMPONENTS))
    per = {}
    for c, tr, rc, r, rej in results:
        hists, nrec = tree.history(tr, [i for i, _ in rej])
        ev.cov["states"] += r.distinct
        ev.cov["transitions"] += r.generated
        ev.cov["traces_validated_against_impl"] += nrec - len(rej)
        ev.cov["evaluations"] += nrec
        per[c] = dict(nodes=nrec, rejected=len(rej), crashed=(rc == 3))
        if not rej and r.distinct != nrec:
            raise ToolError("trace walker did not consume the whole tree of %s: %d states vs %d records"
                            % (c, r.distinct, nrec))
        base = c.split("<")[0]
        for i, op in rej:
            h = hists[i]
            last = h[-1]
            sig = dict(component=base, op=last["op"])
            what = "%s: operation '%s' deviates from the abstract data type after history [%s]; observed %s" % (
                c, last["op"], tree.fmt_hist(h[:-1]) if last["op"] != "CRASH" else last.get("hist", ""),
                json.dumps({k: v for k, v in last.items() if k not in ("op", "id", "hist")})[:240])
            vd.violation(sig, what, dict(component=c, history=h))
        # samples + distinct non-trivial (histories that crossed a block boundary: length >= 3)
        with open(tr) as f:
            for k, line in enumerate(f):
                if k % 4001 == 7:
                    try:
                        ev.sample({kk: vv for kk, vv in json.loads(line).items() if kk != "kids"})
                    except ValueError:
                        pass
    ev.cov["per_component"] = per
    # distinct non-trivial: every tree node is a distinct history by construction (exhaustive part) –
    # count nodes at depth >= 2 conservatively as nodes minus resets minus first-level ops
    ev.cov["distinct_nontrivial"] = sum(max(0, p["nodes"] - 40) for p in per.values())
    ev.cov["rule"] = ("history tree per container: all operation sequences to the depth bound (fresh values) plus seeded "
                      "random walks biased to growth; every node is one distinct history; non-trivial = beyond the first "
                      "operation layer (conservative count: nodes - 40 per component)")
    ev.assumptions += [
        "single thread (C14 is the sequential contract)",
        "MinHeap/ThreadSafe*::remove(x) only with at most one occurrence of x and never on an empty container",
        "InsertBag::pop may throw out_of_range at any time (documented as implementation dependent)",
        "FixedSizeBag is judged as a bounded multiset (which element pop/extract hands out is free)",
        "element values are fresh per step; plain-int containers are not life-cycle instrumented"]
    ev.cov["engines"] = ["mc", "seqreplay", "tv(tree)"]


def replay(path):
    b = json.load(open(path))["bundle"]
    log("component: %s" % b["component"])
    for x in b["history"]:
        log("  " + json.dumps(x))
    return 1
