"""Runs the repository's stable baseline (the 68 tests of /root/.vp/BASELINE.json) with the
hook guard OFF: the repository's own build never defines GALOIS_VERIF."""
import json, os, re
from vlib.common import *


def stable_names():
    p = "/root/.vp/BASELINE.json"
    if os.path.exists(p):
        return [x.split("::")[0] for x in json.load(open(p))["stable_pass"]]
    with open(os.path.join(V, "tools", "baseline_tests.txt")) as f:
        return [l.strip() for l in f if l.strip()]


def run():
    names = stable_names()
    # ninja -k 0: some targets outside the 68 stable tests (libsupport/test/logging.cpp with the
    # installed fmt) never compiled in this sandbox; the verdict is the ctest result below
    rc, out, dt = sh(["cmake", "--build", os.path.join(REPO, "_build"), "-j%d" % NCPU, "--", "-k", "0"], timeout=7200)
    if rc != 0:
        log("note: 'cmake --build' reported failing targets (pre-existing, not among the stable tests):")
        log("\n".join(l for l in out.splitlines() if l.startswith("FAILED"))[:1500])
    rx = "^(" + "|".join(re.escape(n) for n in names) + ")$"
    rc, out, dt = sh(["ctest", "--test-dir", os.path.join(REPO, "_build"), "-j8", "--timeout", "900", "-R", rx],
                     timeout=7200)
    log(out[-2500:])
    m = re.search(r"(\d+)% tests passed, (\d+) tests failed out of (\d+)", out)
    ok = rc == 0 and m and int(m.group(2)) == 0 and int(m.group(3)) == len(names)
    log("baseline (guard off): %s, %s" % ("PASS" if ok else "FAIL", m.group(0) if m else "no summary"))
    return 0 if ok else 1
