"""C16 Parallel STL: PSTLAbs.tla is the std:: meaning over run-length encoded sequences,
PPartition.tla model-checks the block-claiming protocol of partition (all inputs x all
interleavings in a small scope); the real algorithms run on pool threads on block-structured and
random inputs (free, flavour F) and partition additionally under controlled schedules (flavour C);
every result record is judged by TLC (TracePSTL.tla)."""
import os, json
from vlib.common import *
from vlib import tv

LEVEL = "model_checking"
SP = os.path.join(SPECS, "pstl")


def harness(ev, vd, binp, tr, extra, label, timeout):
    if os.path.exists(tr + ".crash"):
        os.remove(tr + ".crash")
    rc, out, dt = sh([binp, tr, str(ev.seed), tier()] + extra, timeout=timeout, env={"GALOIS_DO_NOT_BIND_THREADS": "1"})
    crash = open(tr + ".crash").read().strip() if os.path.exists(tr + ".crash") else ""
    if rc in (43, 44, 45, 124):
        vd.violation(dict(component=label, op="hang"), "ParallelSTL harness (%s) did not finish: %s" % (label, out[-300:]), dict(out=out[-1500:]))
        return False
    if rc != 0 or crash:
        rec = {}
        try:
            rec = json.loads(crash.splitlines()[0])
        except Exception:
            pass
        vd.violation(dict(component=rec.get("during", label), op="crash"),
                     "ParallelSTL %s crashed (rc=%d) on %s" % (rec.get("during", "?"), rc, (crash or out[-300:])[:400]), dict(record=rec, out=out[-1500:]))
        return False
    return True


def run(ev, vd):
    make(fbin("pstl"), cbin("pstl"))
    cfgs = ["PPartition.cfg"] + (["PPartition_thorough.cfg"] if tier() == "thorough" else [])
    for cfg in cfgs:
        r = tlc(os.path.join(SP, "PPartition.tla"), cfg=os.path.join(SP, cfg), workers=NCPU, timeout=3000, heap="16g")
        ev.add_tlc(cfg, r)
        if not r.ok:
            raise ToolError("PPartition (%s) violates %s:\n%s" % (cfg, r.violation, r.out[-1500:]))
    # the model distinguishes the pinned code and a partial repair from the repaired code
    for cfg in ("PPartition_orig.cfg", "PPartition_ge.cfg"):
        r = tlc(os.path.join(SP, "PPartition.tla"), cfg=os.path.join(SP, cfg), workers=NCPU, timeout=900)
        if r.ok:
            raise ToolError("PPartition does not distinguish %s from the repaired code (vacuous model?)" % cfg)
    tr = os.path.join(BUILD, "tmp", "pstl.ndjson")
    trc = os.path.join(BUILD, "tmp", "pstl_ctl.ndjson")
    okf = harness(ev, vd, fbin("pstl"), tr, [], "pstl-free", 2400)
    okc = harness(ev, vd, cbin("pstl"), trc, ["ctl"], "pstl-ctl", 2400)
    if okc and os.path.exists(trc):
        with open(tr, "a") as fa, open(trc) as fc:
            for line in fc:
                fa.write(line)
        ev.cov["ctl_records"] = sum(1 for _ in open(trc))
    if not os.path.exists(tr):
        return
    res = tv.validate_sharded(os.path.join(SP, "TracePSTL.tla"), tr, timeout=1500)
    ev.cov["traces_validated_against_impl"] += res["records"] - len(res["rejects"])
    ev.cov["states"] += res["states"]
    ev.cov["transitions"] += res["generated"]
    kinds = {}
    with open(tr) as f:
        for i, line in enumerate(f):
            rec = json.loads(line)
            kinds[rec["k"]] = kinds.get(rec["k"], 0) + 1
            ev.distinct(line, nontrivial=rec.get("n", 0) > 1024)
            if i % 397 == 3:
                ev.sample({k: v for k, v in rec.items() if k not in ("in", "out", "pos", "res")})
    ev.cov["records_by_algorithm"] = kinds
    ev.cov["rule"] = ("one record per algorithm call on real pool threads (1..8/16 threads; inputs: hand-picked boundary shapes, "
                      "random words of runs whose lengths straddle the 1024 cut-off, random arrays; partition also under "
                      "controlled schedules); distinct = distinct records; non-trivial = input longer than the serial cut-off")
    bad = tv.read_lines(tr, [g for g, _ in res["rejects"]])
    for g, info in sorted(res["rejects"]):
        rec = json.loads(bad[g])
        sig = dict(component=rec["k"].replace("find_unique", "find_if"), op="result", ctl=rec.get("ctl", 0))
        vd.violation(sig, "ParallelSTL::%s disagrees with its std:: meaning: %s" % (rec["k"], bad[g][:400]), dict(record=rec))
    ev.assumptions += [
        "the third argument of accumulate/map_reduce is the identity of the operation (it is folded in once per thread), so only identities are passed",
        "the 3-argument accumulate overload does not compile (ambiguous with std::accumulate through ADL) and cannot be exercised",
        "random (non run-length-encodable) inputs are compared with the std:: algorithm inside the harness; structured inputs are judged by TLC from input and output",
        "schedules of sort/count_if/find_if/partial_sum are sampled with free-running threads; only partition's block protocol is model-checked and run under controlled schedules"]
    ev.cov["engines"] = ["mc", "free", "ctl", "tv"]


def replay(path):
    b = json.load(open(path))
    rec = b["bundle"].get("record")
    if not rec or rec.get("k") == "crash" or "k" not in rec:
        log("replay: recorded crash/hang: %s" % json.dumps(b["bundle"])[:1500])
        return 1
    tr = os.path.join(BUILD, "tmp", "pstl_replay.ndjson")
    with open(tr, "w") as f:
        f.write(json.dumps(rec) + "\n")
    res = tv.validate_sharded(os.path.join(SP, "TracePSTL.tla"), tr, nshards=1)
    log("replay: recorded call %s by specification" % ("REJECTED" if res["rejects"] else "accepted"))
    log(json.dumps(rec)[:2000])
    return 1 if res["rejects"] else 0
