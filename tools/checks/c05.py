"""C05 barriers: implementation-level TLA+ models of every barrier (one label per shared
access) are model-checked against BarrierAbs (PhaseSeparation invariant, AllDone liveness);
the real barriers run on pool threads under the controlled scheduler (all topologies), with
jitter and free-running, and every event log is validated by TLC against BarrierAbs."""
import os, json, glob, concurrent.futures as cf
from vlib.common import *
from vlib import tv, conc

LEVEL = "model_checking"
SP = os.path.join(SPECS, "runtime")
MODELS = [("BarrierCounting.tla", "BarrierCounting.cfg"), ("BarrierSimple.tla", "BarrierSimple.cfg"),
          ("BarrierMCS.tla", "BarrierMCS.cfg"), ("BarrierDissemination.tla", "BarrierDissemination.cfg")] + \
         [("MCBarrierTopo.tla", "MCBarrierTopo_%s.cfg" % t) for t in ("1x4", "2x2", "3p1", "4x1", "2p1", "1p2")]
THOROUGH_MODELS = [("MCBarrierTopo.tla", "MCBarrierTopo_6x1_thorough.cfg")]
CTL_KINDS = "counting,mcs,dissemination,topo,simple,system"


def run(ev, vd):
    thorough = tier() == "thorough"
    make(cbin("barriers"), fbin("barriers"))
    # 1. design level
    def mc(mc_):
        return mc_, tlc(os.path.join(SP, mc_[0]), cfg=mc_[1], workers=4, timeout=1500)
    with cf.ThreadPoolExecutor(max_workers=4) as ex:
        for (m, c), r in ex.map(mc, MODELS + (THOROUGH_MODELS if thorough else [])):
            ev.add_tlc(c, r)
            if not r.ok:
                raise ToolError("barrier model %s/%s violates %s (the model no longer matches a correct barrier)" % (m, c, r.violation))
    # 2. real code
    jobs = []
    for i, topo in enumerate(conc.TOPOS_CTL):
        for kind in CTL_KINDS.split(","):      # one process per barrier: a proven deadlock ends the process
            jobs.append(("ctl", cbin("barriers"), topo, kind))
    jobs.append(("jitter", cbin("barriers"), None, "counting,mcs,dissemination,topo,simple,pthread,system"))
    jobs.append(("jitter", cbin("barriers"), "2x2", "topo,system"))
    jobs.append(("free", fbin("barriers"), None, "counting,mcs,dissemination,topo,simple,pthread,system"))
    jobs.append(("free", fbin("barriers"), "4x4", "topo,system"))

    def job(j):
        k, (mode, binp, topo, kinds) = j
        out = os.path.join(BUILD, "tmp", "bar_%d.ndjson" % k)
        rc, o, dt = conc.run_harness(binp, [out, ev.seed * 100 + k, tier(), mode, kinds], topo=topo, timeout=(900 if tier() == "thorough" else 300),
                                     env={"VERIF_SCHED_OUT": os.path.join(BUILD, "replay", "C05-sched-%d.txt" % k)})
        return j, out, rc, o
    os.makedirs(os.path.join(BUILD, "replay"), exist_ok=True)
    # controlled runs keep one thread running at a time and go side by side; free-running and jittered runs spin with up to all
    # cores and collapse when several of them share the machine, so they run one after the other
    results = conc.pmap(job, list(enumerate(jobs)), lambda j: j[1][0])
    paths = []
    for (k, (mode, binp, topo, kinds)), out, rc, o in results:
        if rc == 124:
            # free/jitter run that never finished: the harness is stuck inside a barrier
            vd.violation(dict(component="barrier", op="hang-" + mode, kinds=kinds),
                         "barrier harness (%s, topo %s, kinds %s) did not finish within the bound" % (mode, topo, kinds),
                         dict(mode=mode, topo=topo, kinds=kinds))
        elif rc not in (0, 43, 44):
            raise ToolError("barriers harness failed rc=%s (%s %s):\n%s" % (rc, mode, topo, o[-1500:]))
        paths.append(out)
    tr = os.path.join(BUILD, "tmp", "barriers_all.ndjson")
    n = conc.cat(paths, tr)
    res = tv.validate_sharded(os.path.join(SP, "TraceBarrier.tla"), tr, group_start=conc.is_reset, timeout=1500)
    ev.cov["states"] += res["states"]
    ev.cov["transitions"] += res["generated"]
    execs = 0
    kinds_seen = {}
    with open(tr) as f:
        for i, line in enumerate(f):
            if conc.is_reset(line):
                execs += 1
                r = json.loads(line)
                key = "%s/%s/%s" % (r["bar"], r["mode"], r["topo"])
                kinds_seen[key] = kinds_seen.get(key, 0) + 1
                ev.distinct((r["bar"], r["P"], r["mode"], r["topo"], r["seed"]), nontrivial=r["P"] >= 2)
                if execs % 997 == 1:
                    ev.sample(r)
    ev.cov["executions"] = execs
    ev.cov["events"] = n
    ev.cov["executions_by_barrier_mode_topology"] = kinds_seen
    ev.cov["traces_validated_against_impl"] = execs - len(res["rejects"])
    ev.cov["rule"] = ("one execution = one barrier object driven through 3 regions (P threads x K phases, reinit to another "
                      "count, reinit back) under one schedule (ctl: seeded random/PCT schedule over every atomic/mutex/condvar/"
                      "spin point; jitter/free: real concurrency); distinct = (barrier, P, mode, topology, seed); non-trivial = P >= 2")
    for g, info in sorted(res["rejects"]):
        rs, exn = conc.context(tr, g)
        last = exn[-1]
        sig = dict(component="barrier:" + rs["bar"], op=last["ev"])
        vd.violation(sig, "%s barrier, P=%d, mode %s, topology %s: event %s rejected by BarrierAbs (tail: %s)" % (
            rs["bar"], rs["P"], rs["mode"], rs["topo"], json.dumps(last), json.dumps(exn[-6:-1])[:300]),
            dict(reset=rs, execution=exn[-200:]))
    ev.assumptions += [
        "pthread barrier: POSIX contract trusted at the model level; bound to the code by jitter/free runs only (it blocks in the kernel)",
        "controlled schedules are sequentially consistent interleavings at the granularity of atomic/mutex/condvar/spin points",
        "weak-memory effects are the subject of C06, not C05"]
    ev.cov["engines"] = ["mc", "ctl", "free", "tv"]


def replay(path):
    b = json.load(open(path))["bundle"]
    log(json.dumps(b.get("reset")))
    for e in b.get("execution", [])[-40:]:
        log("  " + json.dumps(e))
    return 1
