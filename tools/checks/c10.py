"""C10 morph-graph mutation: MorphAbs.tla is the serial graph ADT (live nodes + one edge multiset
from which out-, in- and symmetric views are derived).  (1) Sequential histories on every flavour
(directed, in/out, undirected, their sorted-neighbour variants, no-lockable) with a full structural dump through
the public API after each operation; (2) mutation programs inside the real for_each (one mutator
per iteration, default conflict flags) under controlled schedules, jitter and free, with the
commit log taken by the operator while it still owns what it touched and a full dump after the
loop.  TLC replays the operations on MorphAbs and compares results and dumps (Serialisable,
SymmetricPair with shared data, NoEdgeToRemovedNode, SortedNeighbours, each live node/edge once)."""
import os, json, concurrent.futures as cf
from vlib.common import *
from vlib import accept, conc

LEVEL = "model_checking"
FLAVOURS = ["directed", "inout", "undirected", "sorted", "sorted-undirected", "sorted-inout", "nolockable"]
SP = os.path.join(SPECS, "graphs")


def run(ev, vd):
    make(cbin("morph"), fbin("morph"))
    jobs = [("seq", fbin("morph"), None, "noloops", "all"), ("ctl", cbin("morph"), None, "noloops", "all"), ("ctl", cbin("morph"), "2x2", "noloops", "all"),
            ("jitter", cbin("morph"), None, "noloops", "all"), ("free", fbin("morph"), None, "noloops", "all"), ("free", fbin("morph"), "2x4", "noloops", "all")]
    # executions with self loops: one process per (mode, flavour) -- see morph.cpp
    for fl in FLAVOURS:
        jobs += [("seq", fbin("morph"), None, "loops", fl), ("ctl", cbin("morph"), None, "loops", fl), ("free", fbin("morph"), None, "loops", fl)]

    def job(j):
        k, (mode, binp, topo, loops, fl) = j
        out = os.path.join(BUILD, "tmp", "morph_%d.ndjson" % k)
        rc, o, dt = conc.run_harness(binp, [out, ev.seed * 100 + k, tier(), mode, loops, fl], topo=topo, timeout=(900 if tier() == "thorough" else 300))
        return j, out, rc, o
    results = conc.pmap(job, list(enumerate(jobs)), lambda j: j[1][0])
    paths = []
    for (k, (mode, binp, topo, loops, fl)), out, rc, o in results:
        if rc == 124:
            vd.violation(dict(component="morph", op="hang-" + mode, flavour=fl, selfloops=1 if loops == "loops" else 0),
                         "morph harness (%s, %s, %s) did not return" % (mode, loops, fl), dict(mode=mode))
        elif loops == "loops":
            pass   # a crashed self-loop process leaves an execution without 'end' behind: rejected below
        elif rc not in (0, 3, 43, 44):
            raise ToolError("morph harness failed rc=%s (%s):\n%s" % (rc, mode, o[-1500:]))
        paths.append(out)
    tr = os.path.join(BUILD, "tmp", "morph_all.ndjson")
    n = conc.cat(paths, tr)
    r, execs, rejected = accept.validate(os.path.join(SP, "TraceMorph.tla"), tr, workers=8, timeout=2400)
    ev.add_tlc("TraceMorph", r)
    kinds = {}
    for i, (a, b, rs) in enumerate(execs):
        key = "%s/%s" % (rs["flavour"], rs["mode"])
        kinds[key] = kinds.get(key, 0) + 1
        ev.distinct((rs["flavour"], rs["mode"], rs["threads"], rs["seed"], rs["selfloops"]), nontrivial=True)
        if i % 401 == 3:
            ev.sample(rs)
    ev.cov["executions"] = len(execs); ev.cov["events"] = n; ev.cov["executions_by_flavour_mode"] = kinds
    ev.cov["traces_validated_against_impl"] = len(execs) - len(rejected)
    ev.cov["rule"] = ("one execution = one sequential history (dump after every operation) or one for_each over a mutation program (commit log + "
                      "final dump) on a 4-6 node graph; distinct = (flavour, mode, threads, seed); every execution contains >= 4 mutations")
    for (a, b, rs) in rejected:
        ls = accept.lines(tr, a, b)
        sig = dict(component="morph", flavour=rs["flavour"], selfloops=rs["selfloops"])
        vd.violation(sig, "morph graph '%s' (mode %s, threads %d, self loops %d): the recorded operations/dumps are not explained by the serial graph ADT; "
                     "last records: %s" % (rs["flavour"], rs["mode"], rs["threads"], rs["selfloops"], " | ".join(x[:160] for x in ls[-3:])),
                     dict(reset=rs, execution=ls[-200:]))
    ev.assumptions += ["parallel edges only between designated node pairs with one constant datum (so that removing/updating 'the' edge a->b has one outcome)",
                       "removed nodes are never re-added; node removal inside for_each only for a node no other iteration touches",
                       "Morph_SepInOut_Graph and MorphHyperGraph are not exercised (their headers cannot be combined with MorphGraph.h in one program)"]
    ev.cov["engines"] = ["seqreplay", "ctl", "free", "tv"]


def replay(path):
    b = json.load(open(path))["bundle"]
    log(json.dumps(b.get("reset")))
    for e in b.get("execution", [])[-60:]:
        log("  " + e[:300])
    return 1
