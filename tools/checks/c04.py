"""C04 termination detection: TermRing / TermTree are implementation-level models (one label
per shared access) composed with a work-ledger environment; TLC checks NoEarlyAnnounce,
BoundedAnnounce (token hops) and Announce (liveness).  The real detectors run the same ledger
program on pool threads (ctl / jitter / free) and the logs are validated against
TerminationAbs."""
import os, json, concurrent.futures as cf
from vlib.common import *
from vlib import tv, conc

LEVEL = "model_checking"
SP = os.path.join(SPECS, "runtime")
MODELS = [("TermRing.tla", "TermRing_n2.cfg"), ("TermRing.tla", "TermRing.cfg"), ("TermTree.tla", "TermTree.cfg")]
THOROUGH = [("TermTree.tla", "TermTree_n4_thorough.cfg")]


def run(ev, vd):
    thorough = tier() == "thorough"
    make(cbin("term"), fbin("term"))
    def mc(mc_):
        return mc_, tlc(os.path.join(SP, mc_[0]), cfg=mc_[1], workers=5, timeout=2400)
    with cf.ThreadPoolExecutor(max_workers=3) as ex:
        for (m, c), r in ex.map(mc, MODELS + (THOROUGH if thorough else [])):
            ev.add_tlc(c, r)
            if not r.ok:
                raise ToolError("termination model %s/%s violates %s" % (m, c, r.violation))
    # vacuity guard: the mutant that ignores workHappened must be caught by the model
    r = tlc(os.path.join(SP, "TermRing.tla"), cfg="TermRing_mutant.cfg", workers=4, timeout=600)
    ev.cov["model_mutant_detected"] = (r.violation == "NoEarlyAnnounce")
    if r.violation != "NoEarlyAnnounce":
        raise ToolError("TermRing with NoTaint=TRUE should violate NoEarlyAnnounce (vacuity guard) but: %s" % r.violation)
    jobs = [("ctl", cbin("term"), None), ("ctl", cbin("term"), "2x2"), ("jitter", cbin("term"), None), ("free", fbin("term"), None)]

    def job(j):
        k, (mode, binp, topo) = j
        out = os.path.join(BUILD, "tmp", "term_%d.ndjson" % k)
        rc, o, dt = conc.run_harness(binp, [out, ev.seed * 100 + k, tier(), mode], topo=topo, timeout=(1500 if thorough else 600))
        return j, out, rc, o
    results = conc.pmap(job, list(enumerate(jobs)), lambda j: j[1][0])
    paths = []
    for (k, (mode, binp, topo)), out, rc, o in results:
        if rc == 124:
            vd.violation(dict(component="termination", op="hang-" + mode),
                         "termination harness (%s) did not finish: a loop never observed the announcement" % mode, dict(mode=mode))
        elif rc not in (0, 43, 44):
            raise ToolError("term harness failed rc=%s (%s):\n%s" % (rc, mode, o[-1500:]))
        paths.append(out)
    tr = os.path.join(BUILD, "tmp", "term_all.ndjson")
    n = conc.cat(paths, tr)
    res = tv.validate_sharded(os.path.join(SP, "TraceTerm.tla"), tr, group_start=conc.is_reset, timeout=1500)
    ev.cov["states"] += res["states"]; ev.cov["transitions"] += res["generated"]
    execs, nontriv, seen = 0, 0, {}
    cur = None
    with open(tr) as f:
        for line in f:
            if conc.is_reset(line):
                execs += 1
                cur = json.loads(line)
                key = "%s/%s" % (cur["det"], cur["mode"])
                seen[key] = seen.get(key, 0) + 1
                ev.distinct((cur["det"], cur["n"], cur["mode"], cur["seed"]), nontrivial=cur["n"] >= 2)
                if execs % 499 == 1:
                    ev.sample(cur)
    ev.cov["executions"] = execs; ev.cov["events"] = n; ev.cov["executions_by_detector_mode"] = seen
    ev.cov["traces_validated_against_impl"] = execs - len(res["rejects"])
    ev.cov["rule"] = ("one execution = two consecutive loops on one detector object (re-armed to another thread count) with "
                      "a seeded ledger program (initial units, transfers while holding) under one schedule; distinct = (detector, "
                      "n, mode, seed); non-trivial = n >= 2")
    for g, info in sorted(res["rejects"]):
        rs, exn = conc.context(tr, g)
        last = exn[-1]
        sig = dict(component="termination:" + rs["det"], op=last["ev"])
        vd.violation(sig, "%s detector, n=%d, mode %s: event %s is not allowed by TerminationAbs (tail %s)" % (
            rs["det"], rs["n"], rs["mode"], json.dumps(last), json.dumps(exn[-6:-1])[:300]), dict(reset=rs, execution=exn[-300:]))
    ev.assumptions += ["the ledger program honours the executor's reporting contract (work done => next report says so)",
                       "BoundedAnnounce is decided on the model (token hops <= 4n-2 for the ring); on the real code liveness is "
                       "'every loop returns' under fair controlled schedules and in free runs",
                       "idle (did=false) reports are not logged"]
    ev.cov["engines"] = ["mc", "ctl", "free", "tv"]


def replay(path):
    b = json.load(open(path))["bundle"]
    log(json.dumps(b.get("reset")))
    for e in b.get("execution", [])[-60:]:
        log("  " + json.dumps(e))
    return 1
