"""C08 level-synchronous schedulers: BulkSynchronous (rounds) and OBIM with the barrier option
(strict priority levels, monotone programs, ascending and descending) inside the real for_each;
logs validated against ForEachAbs with RoundSeparation / NoPriorityInversion enabled."""
import os, json
from vlib.common import *
from vlib import fe, conc

LEVEL = "model_checking"
from checks.c01 import replay


def run(ev, vd):
    tr, res, hangs = fe.campaign(ev, ["foreach_c"], fe.STD_JOBS + [("ctl", "C", "2x1"), ("free", "F", "4x2")], "c08")
    execs = fe.summarize(ev, tr)
    rej = fe.report(ev, vd, tr, res, hangs, "C08")
    # conservation on the level schedulers is part of C08 as well ("neither loses or duplicates work")
    for g, info in sorted(res["rejects"]):
        reason = (info or "").strip('"')
        if fe.CLASS.get(reason) == "C01":
            rs, exn = conc.context(tr, g)
            if rs["kind"].startswith("level"):
                vd.violation(dict(component="for_each", wlfamily=fe.family(rs["wl"]), op=reason, cd=rs["cd"]),
                             "level scheduler %s loses/duplicates work: %s" % (rs["wl"], json.dumps(exn[-1])), dict(reset=rs, execution=exn[-300:]))
                rej += 1
    ev.cov["traces_validated_against_impl"] = execs - rej
    ev.cov["rule"] = ("one execution = for_each with a level-synchronous worklist over a monotone program (children of equal or lower "
                      "urgency; sparse and dense level distributions; descending option); distinct = (worklist, mode, topology, cd, threads, seed)")
    ev.assumptions += ["monotone operator programs (the generator enforces child level >= parent level)",
                       "priority order of OBIM without the barrier option is not judged"]
    ev.cov["engines"] = ["ctl", "free", "tv"]
