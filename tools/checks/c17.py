"""C17 serialisation and the tagged message layer: SerializeAbs.tla is the wire format (sizes from the shape
of a value), NetAbs.tla the channel semantics (FIFO per (src, dst, tag), exactly once, drained at the barrier),
NetBuffered.tla an implementation-level model of aggregation / splitting with concurrent senders (and a mutant).
Real code: harness/dist/dser.cpp (round trips of every compilable type at all 8 buffer alignments, fresh and used
targets) and harness/dist/dnet.cpp under mpirun with 1-4 hosts, 1-4 sender threads, sizes 1 B .. 3 MB; TLC judges
every round-trip record and replays the merged message logs."""
import os, json, glob
from vlib.common import *
from vlib import tv

LEVEL = "model_checking"
SP = os.path.join(SPECS, "dist")
MPIRUN = ["mpirun", "--allow-run-as-root", "--oversubscribe", "--bind-to", "none"]


def dbin(name):
    return os.path.join(BUILD, "D", "bin", name)


def merge_net(prefix, hosts, run_id, fo):
    """per-host logs -> one sequence: per phase all sends, then all receives, then barriers"""
    per = []
    for h in range(hosts):
        p = "%s.%d.ndjson" % (prefix, h)
        per.append([json.loads(x) for x in open(p)] if os.path.exists(p) else [])
    fo.write(json.dumps(dict(ev="reset", hosts=hosts, run=run_id)) + "\n")
    n = 1
    phases = sorted({r["ph"] for rs in per for r in rs if "ph" in r})
    for ph in phases:
        for kind in ("phase", "send", "recv", "timeout", "barrier"):
            for h in range(hosts):
                for r in per[h]:
                    if r.get("ph") == ph and r["ev"] == kind:
                        fo.write(json.dumps(r, separators=(",", ":")) + "\n"); n += 1
    for h in range(hosts):
        ended = any(r["ev"] == "end" for r in per[h])
        fo.write(json.dumps(dict(ev="end" if ended else "crash", h=h)) + "\n"); n += 1
    return n


def run(ev, vd):
    make(dbin("dser"), dbin("dnet"))
    cfgs = ["MCNetBuffered.cfg"] + (["MCNetBuffered_thorough.cfg"] if tier() == "thorough" else [])
    for cfg in cfgs:
        r = tlc(os.path.join(SP, "MCNetBuffered.tla"), cfg=os.path.join(SP, cfg), workers=NCPU, timeout=3000, heap="16g")
        ev.add_tlc(cfg, r)
        if not r.ok:
            raise ToolError("NetBuffered (%s) violates %s:\n%s" % (cfg, r.violation, r.out[-1500:]))
    r = tlc(os.path.join(SP, "MCNetBuffered.tla"), cfg=os.path.join(SP, "MCNetBuffered_mutant.cfg"), workers=NCPU, timeout=900)
    if r.ok:
        raise ToolError("NetBuffered does not distinguish an assemble() that ignores tag boundaries (vacuous model?)")
    env = {"GALOIS_DO_NOT_BIND_THREADS": "1"}
    # ---- serialisation
    trs = os.path.join(BUILD, "tmp", "dser.ndjson")
    rc, out, dt = sh([dbin("dser"), trs, str(ev.seed), tier()], timeout=1200, env=env)
    if rc != 0:
        vd.violation(dict(component="serialize", op="crash"), "serialisation harness crashed rc=%d: %s" % (rc, out[-300:]), dict(out=out[-1500:]))
    if os.path.exists(trs) and os.path.getsize(trs) > 0:
        # (a crashed harness may leave a truncated last line behind)
        good = []
        for line in open(trs, errors="replace"):
            try:
                json.loads(line); good.append(line if line.endswith("\n") else line + "\n")
            except Exception:
                pass
        open(trs, "w").writelines(good)
    if os.path.exists(trs) and os.path.getsize(trs) > 0:
        res = tv.validate_sharded(os.path.join(SP, "TraceSerialize.tla"), trs, timeout=1200)
        ev.cov["traces_validated_against_impl"] += res["records"] - len(res["rejects"])
        ev.cov["states"] += res["states"]; ev.cov["transitions"] += res["generated"]
        lines = open(trs).read().splitlines()
        types = {}
        for i, line in enumerate(lines):
            rec = json.loads(line)
            types[rec["type"]] = types.get(rec["type"], 0) + 1
            ev.distinct(line, nontrivial=rec["off"] % 8 != 0 or rec["used"] == 1)
            if i % 331 == 5:
                ev.sample({k: v for k, v in rec.items() if k != "shape"})
        ev.cov["roundtrips_by_type"] = types
        seen = set()
        for g, info in sorted(res["rejects"]):
            rec = json.loads(lines[g])
            sig = dict(component="serialize", type=rec["type"], used=rec["used"])
            if (rec["type"], rec["used"]) in seen:
                continue
            seen.add((rec["type"], rec["used"]))
            vd.violation(sig, "serialisation round trip of %s (buffer offset %d, %s target) is not the identity: %s" %
                         (rec["type"], rec["off"], "used" if rec["used"] else "fresh", lines[g][:300]), dict(record=rec))
    # ---- network
    trn = os.path.join(BUILD, "tmp", "dnet.ndjson")
    nrec = 0
    with open(trn, "w") as fo:
        run_id = 0
        stalled = False
        for hosts in (1, 2, 3, 4):
            # second repetition: without the on-node single-copy transfer, so that large receives complete asynchronously
            # (as on a real interconnect) and small messages can finish before earlier large ones
            for rep in range(4 if tier() == "thorough" else 2):
                if stalled:
                    break       # a run that ran into its deadline is reported below; the remaining runs would only wait for theirs
                run_id += 1
                prefix = os.path.join(BUILD, "tmp", "dnet_%d_r%d" % (os.getpid(), run_id))
                for p in glob.glob(prefix + ".*.ndjson"):
                    os.remove(p)
                env2 = dict(env, OMPI_MCA_btl_vader_single_copy_mechanism="none") if rep % 2 == 1 else env
                rc, out, dt = sh(MPIRUN + ["-n", str(hosts), dbin("dnet"), prefix, str(ev.seed * 10 + run_id), tier()], timeout=1500, env=env2)
                if rc == 124:
                    vd.violation(dict(component="network", op="hang", hosts=hosts), "network harness with %d hosts did not finish" % hosts, dict(out=out[-1500:]))
                stalled = rc != 0
                nrec += merge_net(prefix, hosts, run_id, fo)
                for p in glob.glob(prefix + ".*.ndjson"):
                    os.remove(p)
    res = tv.validate_sharded(os.path.join(SP, "TraceNet.tla"), trn, timeout=1500, group_start=lambda x: x.startswith('{"ev": "reset"'))
    ev.cov["traces_validated_against_impl"] += res["records"] - len(res["rejects"])
    ev.cov["states"] += res["states"]; ev.cov["transitions"] += res["generated"]
    lines = open(trn).read().splitlines()
    kinds, sizes = {}, {}
    hosts = 0
    for i, line in enumerate(lines):
        rec = json.loads(line)
        if rec["ev"] == "reset":
            hosts = rec["hosts"]
        kinds["%s@%dhosts" % (rec["ev"], hosts)] = kinds.get("%s@%dhosts" % (rec["ev"], hosts), 0) + 1
        if rec["ev"] == "send":
            b = "<=4B" if rec["size"] <= 4 else "<=1400B" if rec["size"] <= 1400 else "<=64KB" if rec["size"] <= 65536 + 2 else ">=1MB"
            sizes[b] = sizes.get(b, 0) + 1
        ev.distinct((hosts, line), nontrivial=hosts >= 2 and rec["ev"] in ("send", "recv"))
        if i % 211 == 9:
            ev.sample(rec)
    ev.cov["net_events"] = kinds; ev.cov["messages_by_size"] = sizes
    ev.cov["rule"] = ("serialisation: one record per (type, value, buffer offset 0..7, fresh/used target); network: one record per send / receive / "
                      "barrier of real MPI runs with 1-4 hosts; distinct = distinct records; non-trivial = unaligned offset or used target, resp. a "
                      "message event of a run with at least two hosts")
    for g, info in sorted(res["rejects"]):
        rec = json.loads(lines[g])
        j = g
        while j >= 0 and json.loads(lines[j])["ev"] != "reset":
            j -= 1
        rs = json.loads(lines[j])
        sig = dict(component="network", op=(info or "").strip('"'), hosts=rs["hosts"])
        vd.violation(sig, "tagged messages with %d hosts: %s at %s" % (rs["hosts"], info, lines[g][:300]), dict(record=rec, reset=rs, context=lines[max(j, g - 40):g + 1]))
    ev.assumptions += [
        "std::deque, top-level pairs/tuples with non-trivially-copyable members and galois::InsertBag cannot be serialised on this tree at all "
        "(missing / misnamed / late-declared overloads: compile errors), so there is nothing to observe for them",
        "buffers stay far below 2 GB (DeSerializeBuffer offsets are int)",
        "messages have at least 1 byte (a 0-byte message cannot be represented by the length-prefixed aggregation)",
        "the order 'sent' on one (src, dst, tag) channel is defined by a harness lock held across sendTagged; different channels stay concurrent",
        "MPI delivers the chunks of one host pair without overtaking (what NetworkIOMPI relies on); LCI back end not built"]
    ev.cov["engines"] = ["mc", "free", "tv"]


def replay(path):
    b = json.load(open(path))["bundle"]
    log(json.dumps(b)[:3000])
    rec = b.get("record")
    if rec and rec.get("k") == "ser":
        tr = os.path.join(BUILD, "tmp", "dser_replay.ndjson")
        open(tr, "w").write(json.dumps(rec) + "\n")
        res = tv.validate_sharded(os.path.join(SP, "TraceSerialize.tla"), tr, nshards=1)
        return 1 if res["rejects"] else 0
    return 1
