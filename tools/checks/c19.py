"""C19 partitioning: PartitionAbs.tla states what the local graphs of all hosts must satisfy together (every input edge with
its data exactly once, one master per node named consistently by all hosts, local ids unique / in range / mutually inverse maps,
masters before mirrors, mirror lists per peer = proxies mastered there, edge-cut structure).  harness/dist/dsync.cpp partitions
random graphs (isolated nodes, skew, self loops, parallel edges, fewer nodes than hosts, symmetric inputs) with every CuSP
policy and its CSR/CSC variants on 1-4 MPI hosts and dumps every host's local graph; TLC judges the merged dumps."""
import os
from vlib.common import *
from checks import c18

LEVEL = "model_checking"


def run(ev, vd):
    # implementation-shaped model of the edge exchange (inspection counts, buffered sends, count-terminated receive loop)
    SPD = os.path.join(SPECS, "dist")
    r = tlc(os.path.join(SPD, "MCCuspExchange.tla"), cfg=os.path.join(SPD, "MCCuspExchange.cfg"), workers=NCPU, timeout=1800)
    ev.add_tlc("MCCuspExchange.cfg", r)
    if not r.ok:
        raise ToolError("CuspExchange violates %s:\n%s" % (r.violation, r.out[-1500:]))
    r = tlc(os.path.join(SPD, "MCCuspExchange.tla"), cfg=os.path.join(SPD, "MCCuspExchange_mutant.cfg"), workers=NCPU, timeout=900)
    if r.ok:
        raise ToolError("CuspExchange does not distinguish its mutant (vacuous model?)")
    c18.ROUNDS = False
    try:
        trace = os.path.join(BUILD, "tmp", "cusp.ndjson")
        saved = c18.cases

        def more(ev2):
            import random
            from vlib import distrun
            rng = random.Random(ev2.seed * 31 + 19)
            out = []
            reps = 6 if tier() == "thorough" else 2
            for pol in distrun.POLICIES + distrun.SYM_POLICIES:
                for hosts in (1, 2, 3, 4):
                    for rep in range(reps if hosts > 1 else 1):
                        out.append((pol, hosts, distrun.gen_graph(rng, pol.startswith("sym")), rng.randrange(1 << 30)))
            # large graphs with hubs (counts only): multi-threaded construction, hybrid-cut thresholds
            big = distrun.gen_big_graph(rng)
            for pol in (distrun.POLICIES if tier() == "thorough" else ["oec", "hovc", "cvc", "ginger-o", "fennel-o", "fennel-i", "sugar-o"]):
                for hosts in ((2, 3, 4) if tier() == "thorough" else (2, 4)):
                    out.append((pol, hosts, big, 3 + 4 * rng.randrange(1 << 20)))      # seed % 4 == 3: four threads per host
            return out
        c18.cases = more
        try:
            c18.run_cases(ev, vd, 0, trace)
        finally:
            c18.cases = saved
        c18.judge(ev, vd, trace, ("part",))
    finally:
        c18.ROUNDS = True
    ev.cov["rule"] = ("one case = one (graph, partition policy, host count) MPI run whose per-host local graphs are dumped through the public "
                      "DistGraph API; distinct = distinct cases; non-trivial = at least two hosts")
    ev.assumptions += [
        "complete dumps (judged by TLC) for graphs with at most 13 nodes; graphs with 3000-9000 nodes and hubs above the hybrid-cut threshold are judged from per-host counts (edges and masters add up, id maps, mirror lists, edge-cut placement); 32-bit edge data",
        "read-balancing options other than the default, masters files, saved local graphs and MiningPartitioner are not exercised",
        "cartesian / hybrid vertex-cut specific placement rules are not checked beyond the common promises; edge cuts are (edges stored with the master of their source resp. destination)"]
    ev.cov["engines"] = ["mc", "free", "tv"]


replay = c18.replay
