"""Independent reader / writer of the binary graph (.gr) layout, used as the oracle side of C12
(nothing here is shared with the library): header 4 x u64 (version, sizeof edge data, nodes, edges),
out index (u64 end offsets), destinations (u32 padded to 8 bytes in version 1, u64 in version 2),
edge data."""
import struct


def write_gr(path, adj, sz, version=1, big_endian_data=False):
    n = len(adj); m = sum(len(a) for a in adj)
    b = struct.pack("<4Q", version, sz, n, m)
    acc = 0
    for a in adj:
        acc += len(a); b += struct.pack("<Q", acc)
    for a in adj:
        for d, w in a:
            b += struct.pack("<I" if version == 1 else "<Q", d)
    if version == 1 and m % 2:
        b += b"\0\0\0\0"
    if sz:
        f = (">" if big_endian_data else "<") + {4: "I", 8: "Q"}[sz]
        for a in adj:
            for d, w in a:
                b += struct.pack(f, w)
    with open(path, "wb") as fo:
        fo.write(b)


def read_gr(path, big_endian_data=False):
    """returns dict(version, sz, n, m, adj, trailing) or raises ValueError on a malformed file"""
    b = open(path, "rb").read()
    if len(b) < 32:
        raise ValueError("short header")
    version, sz, n, m = struct.unpack_from("<4Q", b, 0)
    if version not in (1, 2) or sz not in (0, 4, 8):
        raise ValueError("bad header %r" % ((version, sz, n, m),))
    off = 32
    if len(b) < off + 8 * n:
        raise ValueError("short index")
    idx = struct.unpack_from("<%dQ" % n, b, off); off += 8 * n
    if n and idx[-1] != m or any(idx[i] > idx[i + 1] for i in range(n - 1)):
        raise ValueError("index not monotone / does not end at m")
    w = 4 if version == 1 else 8
    if len(b) < off + w * m:
        raise ValueError("short destinations")
    dst = struct.unpack_from("<%d%s" % (m, "I" if version == 1 else "Q"), b, off); off += w * m
    if version == 1 and m % 2:
        off += 4
    data = [0] * m
    if sz:
        if len(b) < off + sz * m:
            raise ValueError("short edge data")
        data = struct.unpack_from((">" if big_endian_data else "<") + "%d%s" % (m, {4: "I", 8: "Q"}[sz]), b, off); off += sz * m
    adj, start = [], 0
    for i in range(n):
        adj.append([[dst[e], data[e]] for e in range(start, idx[i])]); start = idx[i]
    return dict(version=version, sz=sz, n=n, m=m, adj=adj, trailing=len(b) - off)
