"""Acceptance-by-print trace validation (branching trace specifications): the specification prints
<<"ACCEPT", line>> when some branch reaches the "end" record of an execution alive."""
import os, re, json
from .common import *


def validate(module_path, trace_path, workers=4, timeout=1500, heap="6g"):
    r = tlc(module_path, workers=workers, timeout=timeout, env={"TRACE": trace_path}, heap=heap)
    if not r.ok:
        raise ToolError("trace specification %s failed: %s\n%s" % (os.path.basename(module_path), r.violation, brief(r.out)))
    acc = set(int(m.group(1)) for m in re.finditer(r'<<"ACCEPT", (\d+)>>', r.out))
    execs = []  # (reset_line0, end_line0, reset record)
    cur = None
    with open(trace_path) as f:
        for i, line in enumerate(f):
            if '"ev":"reset"' in line:
                if cur:
                    execs.append((cur[0], None, cur[1]))     # the process died inside this execution; the next one starts here
                cur = (i, json.loads(line))
            elif '"ev":"end"' in line and cur:
                execs.append((cur[0], i, cur[1])); cur = None
    if cur:
        execs.append((cur[0], None, cur[1]))     # never reached its end record (crash / hang)
    rejected = [(a, b, rs) for (a, b, rs) in execs if b is None or (b + 1) not in acc]
    return r, execs, rejected


def lines(trace_path, a, b):
    out = []
    with open(trace_path) as f:
        for i, line in enumerate(f):
            if b is None and i > a and '"ev":"reset"' in line:
                break
            if i >= a and (b is None or i <= b):
                out.append(line.rstrip("\n"))
            if b is not None and i > b:
                break
    return out
