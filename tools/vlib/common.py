"""Shared plumbing of the /verif checks: paths, subprocesses, make, TLC, evidence,
known findings, verdicts.  Standard library only."""
import json, os, re, shutil, subprocess, sys, time, hashlib, random

V = os.path.dirname(os.path.dirname(os.path.dirname(os.path.abspath(__file__))))
REPO = os.environ.get("VERIF_REPO", "/repo")
BUILD = os.environ.get("VERIF_BUILD", os.path.join(V, "build"))
SPECS = os.path.join(V, "specs")
EVID = os.path.join(V, "evidence")
NCPU = os.cpu_count() or 4


class ToolError(Exception):
    """Trouble of the machinery itself (build failure, TLC crash, timeout of a tool):
    exit code 2, never a verdict."""


def log(*a):
    print(*a, flush=True)


def sh(cmd, timeout=1200, env=None, cwd=None, stdin=None, check=False):
    e = dict(os.environ)
    if env:
        e.update({k: str(v) for k, v in env.items()})
    t0 = time.time()
    try:
        p = subprocess.run(cmd, shell=isinstance(cmd, str), cwd=cwd, env=e, input=stdin,
                           stdout=subprocess.PIPE, stderr=subprocess.STDOUT,
                           timeout=timeout, text=True, errors="replace")
        rc, out = p.returncode, p.stdout
    except subprocess.TimeoutExpired as ex:
        out = ex.stdout or ""
        if isinstance(out, bytes):
            out = out.decode(errors="replace")
        rc = 124
    if check and rc != 0:
        raise ToolError("command failed rc=%s: %s\n%s" % (rc, cmd, out[-4000:]))
    return rc, out, time.time() - t0


def make(*targets, opt=None):
    """(Re)build harness targets from /repo's working tree (incremental)."""
    for sub in ("", "tmp", "replay", "tlc"):
        os.makedirs(os.path.join(BUILD, sub), exist_ok=True)
    cmd = ["make", "-s", "-j%d" % NCPU, "-C", os.path.join(V, "harness"),
           "REPO=" + REPO, "V=" + V, "B=" + BUILD]
    if opt:
        cmd.append("OPT=" + opt)
    cmd += list(targets)
    # checks may be started side by side: builds into the shared build directory are serialised
    import fcntl
    with open(os.path.join(BUILD, ".make.lock"), "w") as lk:
        fcntl.flock(lk, fcntl.LOCK_EX)
        try:
            rc, out, dt = sh(cmd, timeout=3000)
        finally:
            fcntl.flock(lk, fcntl.LOCK_UN)
    if rc != 0:
        raise ToolError("harness build failed (rc=%d):\n%s" % (rc, out[-6000:]))
    return dt


def fbin(name):
    return os.path.join(BUILD, "F", "bin", name)


def cbin(name):
    return os.path.join(BUILD, "C", "bin", name)


# ----------------------------------------------------------------------------- TLC
class TLCResult:
    def __init__(self):
        self.rc = None
        self.out = ""
        self.generated = 0
        self.distinct = 0
        self.depth = 0
        self.ok = False
        self.violation = None   # name of violated invariant/property, "deadlock", ...
        self.wall = 0.0
        self.coverage = {}

    def summary(self):
        return dict(rc=self.rc, generated=self.generated, distinct=self.distinct,
                    depth=self.depth, ok=self.ok, violation=self.violation,
                    wall_s=round(self.wall, 2))


def brief(out, n=40):
    """The informative part of a TLC failure: error/exception lines with a little context,
    without the (possibly huge) state dump."""
    lines = out.splitlines()
    keep, left = [], 0
    for ln in lines:
        if re.search(r"Error|xception|Attempted|evaluating|^\d+\. Line", ln) and not ln.startswith("State "):
            left = 4
        if left > 0 and not re.match(r"^(State \d+:|/\\ |\w+ = )", ln):
            keep.append(ln); left -= 1
        if len(keep) >= n:
            break
    return "\n".join(keep) if keep else out[-2000:]


_TLC_SEQ = [0]


def tlc(module_path, cfg=None, workers=None, timeout=900, env=None, simulate=None,
        depth=None, seed=None, heap="8g", dfs_queue=False, coverage=False, extra=(),
        dump=None):
    """Run TLC on module_path (absolute .tla).  cfg defaults to same stem .cfg."""
    d = os.path.dirname(module_path)
    mod = os.path.basename(module_path)
    if cfg is None:
        cfg = mod[:-4] + ".cfg"
    _TLC_SEQ[0] += 1
    md = os.path.join(BUILD, "tlc", "%s-%d-%d" % (mod[:-4], os.getpid(), _TLC_SEQ[0]))
    os.makedirs(os.path.dirname(md), exist_ok=True)
    shutil.rmtree(md, ignore_errors=True)
    jopts = ["-XX:+UseParallelGC", "-Xmx" + heap, "-Xss256m"]
    if dfs_queue:
        jopts.append("-Dtlc2.tool.queue.IStateQueue=StateDeque")
    cmd = ["java"] + jopts + ["-cp",
           "/opt/veriftools/tla/tla2tools.jar:/opt/veriftools/tla/CommunityModules-deps.jar",
           "tlc2.TLC", "-metadir", md, "-noGenerateSpecTE", "-config", cfg]
    if workers is None:
        workers = min(NCPU, 8)
    cmd += ["-workers", str(workers)]
    if simulate:
        cmd += ["-simulate", "num=%d" % simulate]
        if depth:
            cmd += ["-depth", str(depth)]
    if seed is not None:
        cmd += ["-seed", str(seed)]
    if coverage:
        cmd += ["-coverage", "1"]
    if dump:
        cmd += ["-dump", "dot,actionlabels", dump]
    cmd += list(extra)
    cmd.append(mod)
    rc, out, dt = sh(cmd, timeout=timeout, env=env, cwd=d)
    shutil.rmtree(md, ignore_errors=True)
    r = TLCResult()
    r.rc, r.out, r.wall = rc, out, dt
    m = None
    for m in re.finditer(r"(\d+) states generated, (\d+) distinct states found", out):
        pass
    if m:
        r.generated, r.distinct = int(m.group(1)), int(m.group(2))
    m2 = re.search(r"The number of states generated: (\d+)", out)
    if m2 and not m:
        r.generated = int(m2.group(1))
        r.distinct = r.generated
    m3 = re.search(r"depth of the complete state graph search is (\d+)", out)
    if m3:
        r.depth = int(m3.group(1))
    if rc == 124:
        raise ToolError("TLC timed out after %ss on %s %s" % (timeout, mod, cfg))
    if rc == 0 and ("No error has been found" in out or simulate):
        r.ok = True
    else:
        mv = re.search(r"Error: Invariant (\S+) is violated", out)
        if mv:
            r.violation = mv.group(1)
        elif "Deadlock reached" in out:
            r.violation = "deadlock"
        elif "Temporal properties were violated" in out or re.search(r"Temporal property \S+ was violated", out):
            r.violation = "liveness"
        elif re.search(r"Action property .* is violated|action property", out, re.I):
            r.violation = "action-property"
        elif "Postcondition" in out and "false" in out.lower():
            r.violation = "postcondition"
        elif re.search(r"Error: Property (\S+) is violated", out):
            r.violation = re.search(r"Error: Property (\S+) is violated", out).group(1)
        else:
            raise ToolError("TLC failed (rc=%s) on %s %s:\n%s" % (rc, mod, cfg, brief(out)))
    if coverage:
        for mc in re.finditer(r"<(\w+) line \d+, col \d+ to line \d+, col \d+ of module \w+>: (\d+):(\d+)", out):
            a = mc.group(1)
            c = r.coverage.setdefault(a, [0, 0])
            c[0] += int(mc.group(2)); c[1] += int(mc.group(3))
    return r


def sany(module_path):
    rc, out, dt = sh(["java", "-cp",
                      "/opt/veriftools/tla/tla2tools.jar:/opt/veriftools/tla/CommunityModules-deps.jar",
                      "tla2sany.SANY", os.path.basename(module_path)],
                     cwd=os.path.dirname(module_path), timeout=120)
    ok = rc == 0 and "error" not in out.lower().replace("semantic errors:", "").replace("0 errors", "")
    return rc == 0 and "*** Errors" not in out and "Fatal" not in out, out


def tlc_trace(module_path, trace_file, cfg=None, timeout=900, env=None, heap="8g",
              dfs_queue=True, extra_env=None):
    """Trace validation: TRACE=<file> is read by the module through IOEnv.  Acceptance is
    a POSTCONDITION; a rejected trace makes TLC report the postcondition false."""
    e = {"TRACE": trace_file}
    if env:
        e.update(env)
    r = tlc(module_path, cfg=cfg, workers=1, timeout=timeout, env=e, heap=heap,
            dfs_queue=dfs_queue)
    return r


# ----------------------------------------------------------------------------- evidence
class Evidence:
    def __init__(self, pid, level="model_checking"):
        self.pid = pid
        self.tier = os.environ.get("VERIF_TIER", "quick")
        try:
            self.seed = int(os.environ.get("VERIF_SEED", "1"))
        except ValueError:
            self.seed = 1
        self.level = level
        self.t0 = time.time()
        self.cov = dict(states=0, transitions=0, traces_validated_against_impl=0,
                        samples=[], evaluations=0, distinct_nontrivial=0, rule="",
                        tlc_runs=[], engines=[])
        self.assumptions = []
        self.violations = 0
        self.known = []
        self._distinct = set()

    def add_tlc(self, name, r):
        self.cov["states"] += r.distinct
        self.cov["transitions"] += r.generated
        s = r.summary(); s["name"] = name
        self.cov["tlc_runs"].append(s)

    def sample(self, s, cap=12):
        if len(self.cov["samples"]) < cap:
            self.cov["samples"].append(s)

    def count(self, key, n=1):
        self.cov[key] = self.cov.get(key, 0) + n

    def distinct(self, key, nontrivial=True):
        """key: hashable description of a case; counted once."""
        self.cov["evaluations"] += 1
        if nontrivial:
            h = hashlib.sha1(repr(key).encode()).digest()[:10]
            self._distinct.add(h)

    def write(self):
        self.cov["distinct_nontrivial"] = max(self.cov.get("distinct_nontrivial", 0),
                                              len(self._distinct))
        os.makedirs(EVID, exist_ok=True)
        doc = dict(property_id=self.pid, tier=self.tier, seed=self.seed, level=self.level,
                   coverage=self.cov, assumptions=self.assumptions,
                   wall_s=round(time.time() - self.t0, 2), violations=self.violations,
                   known_findings=self.known)
        tmp = os.path.join(EVID, self.pid + ".json.tmp")
        with open(tmp, "w") as f:
            json.dump(doc, f, indent=1, sort_keys=True, default=str)
        os.replace(tmp, os.path.join(EVID, self.pid + ".json"))


# ----------------------------------------------------------------------------- findings
def load_known():
    p = os.path.join(V, "known_findings.json")
    if not os.path.exists(p):
        return []
    with open(p) as f:
        return json.load(f).get("findings", [])


def match_known(pid, sig):
    """sig: dict describing a violation (component, op, tags...).  A known finding matches
    when every key of its 'match' object equals the signature's value (lists: subset)."""
    for k in load_known():
        if k.get("property") != pid:
            continue
        ok = True
        for key, want in k.get("match", {}).items():
            have = sig.get(key)
            if isinstance(want, list):
                if not isinstance(have, (list, set, tuple)) or not set(want) <= set(have):
                    ok = False
            elif have != want:
                ok = False
        if ok:
            return k
    return None


class Verdict:
    """Collects violations of one check; prints the protocol lines; decides exit code."""

    def __init__(self, ev):
        self.ev = ev
        self.pid = ev.pid
        self.new = []
        self.known_printed = set()
        self.sigcount = {}

    def violation(self, sig, what, replay_obj=None):
        """sig: signature dict; what: one line; replay_obj: JSON-able bundle."""
        k = match_known(self.pid, sig)
        if k is not None:
            key = k.get("id", k.get("what"))
            if key not in self.known_printed:
                self.known_printed.add(key)
                log("KNOWN-FINDING: property=%s %s [%s]" % (self.pid, k.get("what", ""), key))
                self.ev.known.append(dict(id=key, what=k.get("what", ""), example=what))
            return False
        skey = json.dumps(sig, sort_keys=True, default=str)
        self.sigcount[skey] = self.sigcount.get(skey, 0) + 1
        if self.sigcount[skey] > 1:
            self.ev.violations += 1
            return True
        os.makedirs(os.path.join(BUILD, "replay"), exist_ok=True)
        path = os.path.join(BUILD, "replay", "%s-%d.json" % (self.pid, len(self.new)))
        with open(path, "w") as f:
            json.dump(dict(property=self.pid, signature=sig, what=what, bundle=replay_obj),
                      f, indent=1, default=str)
        self.new.append((sig, what, path))
        self.ev.violations += 1
        if len(self.new) <= 20:
            log("VIOLATION property=%s replay=%s" % (self.pid, path))
            log("  what: %s" % what)
        return True

    def finish(self):
        self.ev.write()
        if self.new:
            log("%s: %d violating case(s), %d distinct signature(s)" % (self.pid, self.ev.violations, len(self.new)))
            return 1
        log("%s: OK (%d known finding(s) reproduced)" % (self.pid, len(self.known_printed)))
        return 0


def seed_rng(salt=""):
    s = os.environ.get("VERIF_SEED", "1")
    return random.Random("%s/%s" % (s, salt))


def tier():
    return os.environ.get("VERIF_TIER", "quick")
