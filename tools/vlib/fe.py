"""Shared campaign for the for_each properties (C01 conservation, C02 isolation, C08 level
order, C07 uses its own harness): run the foreach_* harness programs over all worklists,
modes and topologies, validate every log against ForEachAbs (TraceForEach.tla) and classify
rejections by the property they belong to."""
import os, json, re, concurrent.futures as cf
from .common import *
from . import tv, conc

SP = os.path.join(SPECS, "runtime")

CLASS = {  # rejected event / reason -> property
    "start:not-pending": "C01", "start:already-committed": "C01", "start:running-elsewhere": "C01",
    "start:previous-attempt-unfinished": "C01", "start:other": "C01", "return:work-left": "C01",
    "return:iteration-unfinished": "C01", "hang": "C01", "crash": "C01", "push": "C01", "finish": "C01",
    "acq": "C02", "cautious": "C02", "foreign": "C02", "final": "C02", "allocbad": "C02", "vabort": "C02", "try": "C02",
    "start:level-order": "C08",
}


def family(wl):
    return re.split(r"[<]", wl)[0]


def campaign(ev, bins, jobs, tag, env=None):
    """jobs: list of (mode, flavour 'C'|'F', topo).  Returns (trace path, rejects [(g, reason)])."""
    make(*([cbin(b) for b in bins] + [fbin(b) for b in bins]))
    alljobs = []
    for b in bins:
        for (mode, fl, topo) in jobs:
            alljobs.append((b, mode, fl, topo))

    def job(j):
        k, (b, mode, fl, topo) = j
        out = os.path.join(BUILD, "tmp", "fe_%s_%d.ndjson" % (tag, k))
        if os.path.exists(out):
            os.remove(out)
        binp = cbin(b) if fl == "C" else fbin(b)
        rc, o, dt = conc.run_harness(binp, [out, ev.seed * 1000 + k, tier(), mode], topo=topo, timeout=(600 if tier() == 'thorough' else 240), env=env)
        return j, out, rc, o
    results = conc.pmap(job, list(enumerate(alljobs)), lambda j: j[1][1])
    paths, hangs = [], []
    for (k, (b, mode, fl, topo)), out, rc, o in results:
        if rc in (124, -9, 137):
            # did not finish within the (repeated) bound, or was killed because a runaway execution exhausted memory with its log
            hangs.append((b, mode, topo))
        elif rc not in (0, 3, 43, 44):
            raise ToolError("%s harness failed rc=%s (%s %s):\n%s" % (b, rc, mode, topo, o[-1500:]))
        paths.append(out)
    tr = os.path.join(BUILD, "tmp", "fe_%s_all.ndjson" % tag)
    n = conc.cat(paths, tr)
    res = tv.validate_sharded(os.path.join(SP, "TraceForEach.tla"), tr, group_start=conc.is_reset, timeout=2400)
    ev.cov["states"] += res["states"]; ev.cov["transitions"] += res["generated"]
    ev.cov["events"] = ev.cov.get("events", 0) + n
    return tr, res, hangs


def summarize(ev, tr):
    execs, seen = 0, {}
    stats = dict(aborts=0, commits=0)
    cur = None
    with open(tr) as f:
        for line in f:
            if conc.is_reset(line):
                execs += 1
                cur = json.loads(line)
                key = "%s|%s|%s|cd%d" % (cur["wl"], cur["mode"], cur["topo"], cur["cd"])
                seen[key] = seen.get(key, 0) + 1
                ev.distinct((cur["wl"], cur["mode"], cur["topo"], cur["cd"], cur["threads"], cur["seed"]),
                            nontrivial=cur["threads"] >= 2 and cur["nitems"] >= 2)
                if execs % 397 == 1:
                    ev.sample({k: v for k, v in cur.items() if k != "prog"})
            elif '"ev":"finish"' in line:
                stats["commits"] += 1
            elif '"ev":"vabort"' in line:
                stats["aborts"] += 1
    ev.cov["executions"] = ev.cov.get("executions", 0) + execs
    ev.cov["commits_observed"] = ev.cov.get("commits_observed", 0) + stats["commits"]
    ev.cov["voluntary_aborts_observed"] = ev.cov.get("voluntary_aborts_observed", 0) + stats["aborts"]
    byk = ev.cov.setdefault("executions_by_worklist_mode_topology_cd", {})
    for k, v in seen.items():
        byk[k] = byk.get(k, 0) + v
    return execs


def report(ev, vd, tr, res, hangs, mine):
    """mine: property id whose class of rejections this check reports; others are recorded only."""
    other = {}
    rejected_execs = 0
    for g, info in sorted(res["rejects"]):
        reason = (info or "").strip('"')
        rs, exn = conc.context(tr, g)
        prop = CLASS.get(reason, "C01")
        mine_set = mine if isinstance(mine, (set, frozenset, list, tuple)) else {mine}
        if prop not in mine_set and reason not in mine_set:
            other[prop + ":" + reason] = other.get(prop + ":" + reason, 0) + 1
            continue
        rejected_execs += 1
        last = exn[-1]
        sig = dict(component="for_each", wlfamily=family(rs["wl"]), op=reason, cd=rs["cd"],
                   multisocket=(rs["topo"] not in ("host", "1x16")), mode_class=("probe1" if rs["mode"] == "probe1" else "run"))
        vd.violation(sig, "for_each with %s (threads %d, conflict detection %d, mode %s, topology %s): event %s rejected (%s); tail %s" % (
            rs["wl"], rs["threads"], rs["cd"], rs["mode"], rs["topo"], json.dumps(last), reason, json.dumps(exn[-5:-1])[:300]),
            dict(reset=rs, execution=exn[-400:]))
    for (b, mode, topo) in hangs:
        if True:   # a loop that never returns is reported by whichever for_each check observes it
            vd.violation(dict(component="for_each", op="hang-" + mode, bin=b),
                         "for_each harness %s (%s, topology %s) did not return within the bound" % (b, mode, topo), dict(bin=b, mode=mode, topo=topo))
    ev.cov["rejections_belonging_to_other_properties"] = other
    return rejected_execs


STD_JOBS = [("ctl", "C", None), ("ctl", "C", "2x2"), ("ctl", "C", "3+1"), ("ctl", "C", "1+1+1+1"),
            ("jitter", "C", None), ("jitter", "C", "2x2"), ("free", "F", None), ("free", "F", "2x4")]
