"""Helpers shared by the concurrent-property checks: running harness programs in the
controlled (ctl), jitter and free modes under several synthetic topologies, collecting their
NDJSON logs, validating them with a linear trace specification whose executions start with a
"reset" record, and turning rejections into violations with the context of the execution."""
import os, json, json, concurrent.futures as cf
from .common import *
from . import tv

TOPOS_CTL = [None, "2x2", "3+1", "1+1+1+1"]


def run_harness(binpath, args, topo=None, timeout=600, env=None):
    e = {"GALOIS_DO_NOT_BIND_THREADS": "1"}
    if topo:
        e["GALOIS_VERIF_TOPO"] = topo
    if env:
        e.update(env)
    rc, out, dt = sh([binpath] + [str(a) for a in args], timeout=timeout, env=e)
    if rc == 124:
        # a wall-clock bound is the only evidence of a hang in free-running / jittered modes and depends on the load of the
        # machine: a run that did not finish is repeated once with three times the bound before it is reported
        log("  (harness %s did not finish within %ds; repeating once with %ds)" % (os.path.basename(str(binpath)), timeout, 3 * timeout))
        rc, out, dt = sh([binpath] + [str(a) for a in args], timeout=3 * timeout, env=e)
    return rc, out, dt


SPINNING = ("free", "jitter", "pool16")


def pmap(fn, items, mode_of):
    """Run harness jobs: controlled / sequential modes keep (at most) one thread of the code under test running and go side by
    side; free-running and jittered modes spin with many threads and collapse when they share the cores with each other, so at
    most two of them run at a time (one in the thorough tier, where they use up to all cores).  Results in the order of items."""
    items = list(items)
    res = [None] * len(items)
    calm = [i for i, it in enumerate(items) if mode_of(it) not in SPINNING]
    spin = [i for i, it in enumerate(items) if mode_of(it) in SPINNING]
    with cf.ThreadPoolExecutor(max_workers=8) as ex:
        fut_spin = None
        with cf.ThreadPoolExecutor(max_workers=(1 if tier() == "thorough" else 2)) as ex2:
            fs = {i: ex.submit(fn, items[i]) for i in calm}
            fs.update({i: ex2.submit(fn, items[i]) for i in spin})
            for i, f in fs.items():
                res[i] = f.result()
    return res


def is_reset(line):
    return '"ev":"reset"' in line


def context(path, gidx):
    """(reset record, events of that execution up to and including line gidx)"""
    lines = open(path).read().splitlines()
    i = gidx
    while i > 0 and not is_reset(lines[i]):
        i -= 1
    ex = [json.loads(x) for x in lines[i:gidx + 1]]
    return ex[0], ex


def cat(paths, outpath):
    n = 0
    with open(outpath, "w") as o:
        for p in paths:
            if os.path.exists(p):
                with open(p, "rb") as f:
                    for raw in f:
                        # a line that is not JSON means the process under test corrupted memory: the execution it
                        # belongs to is treated as crashed
                        try:
                            line = raw.decode("utf-8")
                            obj = json.loads(line)
                            if not (isinstance(obj, dict) and ("ev" in obj or "k" in obj)):
                                raise ValueError("not a record")      # garbage that happens to parse (e.g. "{}")
                        except Exception:
                            line = '{"ev":"crash","sig":-2}\n'
                        if not line.endswith("\n"):
                            line += "\n"
                        o.write(line); n += 1
    return n
