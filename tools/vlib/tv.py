"""Trace validation helpers: shard an NDJSON trace, validate the shards with parallel TLC
processes against a deterministic 'evaluator' trace specification (every record is judged
by the specification; it prints <<"REJECT", line, ...>> / <<"DRIFT", line, ...>> and the
POSTCONDITION checks that every record was consumed)."""
import os, re, concurrent.futures as cf
from .common import BUILD, NCPU, ToolError, tlc, log


def split_file(path, nshards, outdir, stem, group_start=None):
    """Split into <= nshards contiguous shards.  group_start: predicate on a line that says
    a new group may start there (e.g. Reset records); default: any line."""
    os.makedirs(outdir, exist_ok=True)
    with open(path) as f:
        lines = f.readlines()
    n = len(lines)
    if n == 0:
        return []
    per = max(1, (n + nshards - 1) // nshards)
    shards, cur, start = [], [], 0
    bounds = []
    i = 0
    while i < n:
        j = min(n, i + per)
        if group_start:
            while j < n and not group_start(lines[j]):
                j += 1
        bounds.append((i, j))
        i = j
    for k, (a, b) in enumerate(bounds):
        p = os.path.join(outdir, "%s.%03d.ndjson" % (stem, k))
        with open(p, "w") as f:
            f.writelines(lines[a:b])
        shards.append((p, a, b - a))
    return shards


_PRINT = re.compile(r'^<<"(REJECT|DRIFT|NOTE)", (\d+)(?:, (.*))?>>\s*$', re.M)


def validate_sharded(module_path, trace_path, cfg=None, nshards=None, timeout=1200,
                     group_start=None, heap="3g", env=None):
    """Returns dict(records, rejects=[(global_line_index0, info)], drifts=[...], states, generated)."""
    if nshards is None:
        nshards = NCPU
    stem = os.path.basename(trace_path).replace(".ndjson", "")
    shards = split_file(trace_path, nshards, os.path.join(BUILD, "tmp", "shards"), stem,
                        group_start)
    res = dict(records=0, rejects=[], drifts=[], notes=[], states=0, generated=0, wall=0.0)
    if not shards:
        return res

    def one(sh):
        p, off, cnt = sh
        e = {"TRACE": p}
        if env:
            e.update(env)
        r = tlc(module_path, cfg=cfg, workers=1, timeout=timeout, env=e, heap=heap)
        return sh, r

    with cf.ThreadPoolExecutor(max_workers=min(len(shards), NCPU)) as ex:
        results = list(ex.map(one, shards))
    for (p, off, cnt), r in results:
        if not r.ok:
            raise ToolError("trace specification %s did not consume shard %s (%s):\n%s" %
                            (os.path.basename(module_path), p, r.violation, r.out[-3000:]))
        res["records"] += cnt
        res["states"] += r.distinct
        res["generated"] += r.generated
        res["wall"] = max(res["wall"], r.wall)
        seen = set()
        for m in _PRINT.finditer(r.out):
            kind, ln, info = m.group(1), int(m.group(2)), m.group(3)
            key = (kind, ln, info)
            if key in seen:
                continue
            seen.add(key)
            g = off + ln - 1
            {"REJECT": res["rejects"], "DRIFT": res["drifts"], "NOTE": res["notes"]}[kind].append((g, info))
        try:
            os.remove(p)
        except OSError:
            pass
    return res


def read_lines(path, idxs):
    want = set(idxs)
    out = {}
    with open(path) as f:
        for i, line in enumerate(f):
            if i in want:
                out[i] = line.rstrip("\n")
    return out
