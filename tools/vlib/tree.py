"""Helpers for tree-shaped traces (containers, allocators): run a harness per component,
validate each tree with TLC, map REJECT ids back to operation histories."""
import os, re, json, concurrent.futures as cf
from .common import BUILD, NCPU, ToolError, tlc, sh, log

_REJ = re.compile(r'^<<"REJECT", (\d+), "([^"]*)">>\s*$', re.M)


def history(path, ids):
    """-> {id: [records from reset to id]}"""
    recs = {}
    with open(path) as f:
        for l in f:
            try:
                r = json.loads(l)
            except ValueError:
                continue
            recs[r["id"]] = r
    out = {}
    for i in ids:
        h, j = [], i
        while j > 1 and j in recs:
            r = recs[j]
            h.append({k: v for k, v in r.items() if k not in ("kids", "par")})
            j = r["par"]
        out[i] = h[::-1]
    return out, len(recs)


def validate_tree(module_path, trace_path, workers=4, timeout=1200, cfg=None, heap="4g"):
    r = tlc(module_path, cfg=cfg, workers=workers, timeout=timeout, env={"TRACE": trace_path}, heap=heap)
    if not r.ok:
        raise ToolError("tree trace specification failed on %s: %s\n%s" % (trace_path, r.violation, r.out[-3000:]))
    rej = sorted(set((int(m.group(1)), m.group(2)) for m in _REJ.finditer(r.out)))
    return r, rej


def fmt_hist(h):
    return " ".join("%s(%s,%s)" % (x["op"], x.get("a", 0), x.get("b", 0)) for x in h if x["op"] != "reset")
