"""Driver shared by C18 / C19: generates input graphs, runs harness/dist/dsync.cpp under mpirun for (policy, hosts)
combinations and merges the per-host logs into one trace for TraceGluon.tla."""
import os, json, glob, random
from .common import BUILD, sh
from . import grfile

# --bind-to none: otherwise Open MPI pins every rank to one core and Galois caps the thread count at 1
MPIRUN = ["mpirun", "--allow-run-as-root", "--oversubscribe", "--bind-to", "none"]
POLICIES = ["oec", "iec", "oec-t", "iec-t", "hovc", "hivc", "cvc", "cvc-iec", "cvc-t", "ginger-o", "ginger-i", "fennel-o", "fennel-i", "sugar-o"]
SYM_POLICIES = ["sym-oec", "sym-cvc"]


def dbin(name):
    return os.path.join(BUILD, "D", "bin", name)


def gen_graph(rng, symmetric=False):
    shape = rng.randrange(6)
    n = rng.randrange(1, 4) if shape == 5 else rng.randrange(4, 14)      # shape 5: fewer nodes than hosts
    m = 0 if shape == 0 else rng.randrange(1, 3 * n + 2)
    adj = [[] for _ in range(n)]
    for _ in range(m):
        s, d = rng.randrange(n), rng.randrange(n)
        if shape == 1: s = rng.randrange(1 + n // 4)          # skew: few sources
        if shape == 2: d = rng.randrange(1 + n // 4)          # skew: few destinations
        if shape == 3 and rng.random() < .3: d = s            # self loops
        if shape == 4 and adj[s] and rng.random() < .4: d = adj[s][-1][0]   # parallel edges
        adj[s].append([d, rng.randrange(1, 10)])
    if symmetric:
        sym = [[] for _ in range(n)]
        for s, a in enumerate(adj):
            for d, w in a:
                sym[s].append([d, w])
                if d != s: sym[d].append([s, w])
        adj = sym
    return adj


def gen_big_graph(rng):
    """a few thousand nodes, sparse, with one or two hubs of out- and in-degree above the hybrid-cut threshold (1000)"""
    n = rng.randrange(3000, 9000)
    adj = [[] for _ in range(n)]
    for s in range(n):
        for _ in range(rng.randrange(0, 4)):
            adj[s].append([rng.randrange(n), rng.randrange(1, 10)])
    for hub in rng.sample(range(n), 2):
        for _ in range(1500):
            adj[hub].append([rng.randrange(n), 1])
        for _ in range(1200):
            adj[rng.randrange(n)].append([hub, 1])
    return adj


def transpose(adj):
    t = [[] for _ in adj]
    for s, a in enumerate(adj):
        for d, w in a:
            t[d].append([s, w])
    return t


def run_case(tag, adj, policy, hosts, seed, rounds, tier, fo, timeout=600):
    """runs one (graph, policy, hosts) case and appends its merged log to fo; returns (rc, tail of output, records)"""
    d = os.path.join(BUILD, "tmp", "dsync_%d_%s" % (os.getpid(), tag))
    os.makedirs(d, exist_ok=True)
    for p in glob.glob(os.path.join(d, "*")):
        os.remove(p)
    grfile.write_gr(os.path.join(d, "g.gr"), adj, 4)
    grfile.write_gr(os.path.join(d, "g.tgr"), transpose(adj), 4)
    cmd = MPIRUN + ["-n", str(hosts), dbin("dsync"), os.path.join(d, "out"), str(seed), tier, os.path.join(d, "g.gr"),
                    os.path.join(d, "g.tgr"), policy, str(rounds)]
    rc, out, dt = sh(cmd, timeout=timeout, env={"GALOIS_DO_NOT_BIND_THREADS": "1"})
    if rc == 124:      # a wall-clock bound depends on the load of the machine: repeat once with three times the bound
        for p in glob.glob(os.path.join(d, "out.*")):
            os.remove(p)
        rc, out, dt = sh(cmd, timeout=3 * timeout, env={"GALOIS_DO_NOT_BIND_THREADS": "1"})
    per = []
    for h in range(hosts):
        p = os.path.join(d, "out.%d.ndjson" % h)
        rows = []
        if os.path.exists(p):
            for line in open(p, errors="replace"):
                try:
                    rows.append(json.loads(line))
                except Exception:
                    rows.append(dict(ev="garbled", h=h))
        per.append(rows)
    edges = [[s, dd, w] for s, a in enumerate(adj) for dd, w in a]
    n = 0

    def emit(r):
        nonlocal n
        fo.write(json.dumps(r, separators=(",", ":")) + "\n"); n += 1
    big = len(adj) > 64
    emit(dict(ev="graph", case=tag, policy=policy, hosts=hosts, n=len(adj), edges=[] if big else edges, m=len(edges), rc=rc))
    for h in range(hosts):
        for r in per[h]:
            if r["ev"] in ("part", "partsum"):
                emit(r)
    emit(dict(ev="partsumend" if big else "partend", hosts=hosts))
    rounds_seen = sorted({r["round"] for rows in per for r in rows if "round" in r})
    for rd in rounds_seen:
        for h in range(hosts):
            for r in per[h]:
                if r.get("round") == rd and r["ev"] == "round":
                    emit(r)
        steps = sorted({r.get("step", 0) for rows in per for r in rows if r.get("round") == rd and r["ev"] in ("pre", "write", "proxies")})
        for st in steps:
            emit(dict(ev="step", round=rd, step=st))
            for kind in ("pre", "write", "proxies"):
                for h in range(hosts):
                    for r in per[h]:
                        if r.get("round") == rd and r["ev"] == kind and r.get("step", 0) == st:
                            emit(r)
    for h in range(hosts):
        ended = any(r["ev"] == "end" for r in per[h])
        emit(dict(ev="end" if ended else "crash", h=h))
    for p in glob.glob(os.path.join(d, "*")):
        os.remove(p)
    os.rmdir(d)
    return rc, out[-600:], n
